package vsync

// The rest of package sync's surface, so that a change to the library that starts using it still builds when
// instrumented: Map.Swap / CompareAndSwap / CompareAndDelete / Clear, OnceFunc, OnceValue, OnceValues.

// Swap replaces (*sync.Map).Swap.
func (m *Map) Swap(key, value interface{}) (previous interface{}, loaded bool) {
	if !m.ctl(true) {
		return m.real.Swap(key, value)
	}
	if m.m == nil {
		return nil, false
	}
	previous, loaded = m.m[key]
	if !loaded {
		m.keys = append(m.keys, key)
	}
	m.m[key] = value
	return previous, loaded
}

// CompareAndSwap replaces (*sync.Map).CompareAndSwap.
func (m *Map) CompareAndSwap(key, old, new interface{}) (swapped bool) {
	if !m.ctl(true) {
		return m.real.CompareAndSwap(key, old, new)
	}
	if v, ok := m.m[key]; ok && v == old {
		m.m[key] = new
		return true
	}
	return false
}

// CompareAndDelete replaces (*sync.Map).CompareAndDelete.
func (m *Map) CompareAndDelete(key, old interface{}) (deleted bool) {
	if !m.ctl(true) {
		return m.real.CompareAndDelete(key, old)
	}
	if v, ok := m.m[key]; ok && v == old {
		delete(m.m, key)
		return true
	}
	return false
}

// Clear replaces (*sync.Map).Clear.
func (m *Map) Clear() {
	if !m.ctl(true) {
		m.real.Range(func(k, _ interface{}) bool { m.real.Delete(k); return true })
		return
	}
	for k := range m.m {
		delete(m.m, k)
	}
	m.keys = nil
}

// OnceFunc replaces sync.OnceFunc.
func OnceFunc(f func()) func() {
	var once Once
	var valid bool
	var p interface{}
	return func() {
		once.Do(func() {
			defer func() {
				p = recover()
				if !valid {
					panic(p)
				}
			}()
			f()
			f = nil
			valid = true
		})
		if !valid {
			panic(p)
		}
	}
}

// OnceValue replaces sync.OnceValue.
func OnceValue[T any](f func() T) func() T {
	var result T
	g := OnceFunc(func() { result = f() })
	return func() T { g(); return result }
}

// OnceValues replaces sync.OnceValues.
func OnceValues[T1, T2 any](f func() (T1, T2)) func() (T1, T2) {
	var r1 T1
	var r2 T2
	g := OnceFunc(func() { r1, r2 = f() })
	return func() (T1, T2) { g(); return r1, r2 }
}
