// Package vsync is the API-compatible replacement for package sync in
// instrumented code.
package vsync

import (
	"reflect"
	"sync"

	rt "github.com/uber-go/tally/v4/verifrt"
)

// Locker mirrors sync.Locker.
type Locker = sync.Locker

// Mutex replaces sync.Mutex.
type Mutex struct {
	real sync.Mutex
	obj  rt.Obj
	held bool
}

func (m *Mutex) fresh() {
	if m.obj.Fresh() {
		m.held = false
	}
}

// Lock replaces (*sync.Mutex).Lock.
func (m *Mutex) Lock() {
	if !rt.IsControlled() {
		m.real.Lock()
		return
	}
	if rt.Dead() {
		return
	}
	m.fresh()
	rt.Point(rt.OpLock, &m.obj, func() bool { return !m.held })
	m.held = true
}

// TryLock replaces (*sync.Mutex).TryLock.
func (m *Mutex) TryLock() bool {
	if !rt.IsControlled() {
		return m.real.TryLock()
	}
	if rt.Dead() {
		return false
	}
	m.fresh()
	rt.Point(rt.OpLock, &m.obj, nil)
	if m.held {
		return false
	}
	m.held = true
	return true
}

// Unlock replaces (*sync.Mutex).Unlock.
func (m *Mutex) Unlock() {
	if !rt.IsControlled() {
		m.real.Unlock()
		return
	}
	if rt.Dead() {
		return
	}
	m.fresh()
	rt.Point(rt.OpUnlock, &m.obj, nil)
	if !m.held {
		panic("sync: unlock of unlocked mutex")
	}
	m.held = false
}

// RWMutex replaces sync.RWMutex.
type RWMutex struct {
	real    sync.RWMutex
	obj     rt.Obj
	w       bool // writer holds (or, with writer preference modelled, has announced)
	readers int
}

func (m *RWMutex) fresh() {
	if m.obj.Fresh() {
		m.w, m.readers = false, 0
	}
}

// Lock replaces (*sync.RWMutex).Lock.
func (m *RWMutex) Lock() {
	if !rt.IsControlled() {
		m.real.Lock()
		return
	}
	if rt.Dead() {
		return
	}
	m.fresh()
	if rt.WriterPref() {
		// Go's RWMutex: a writer first excludes other writers and announces
		// itself (new readers block from here on), then waits for the
		// active readers to drain.
		rt.Point(rt.OpLockAnnounce, &m.obj, func() bool { return !m.w })
		m.w = true
		rt.Point(rt.OpLock, &m.obj, func() bool { return m.readers == 0 })
		return
	}
	rt.Point(rt.OpLock, &m.obj, func() bool { return !m.w && m.readers == 0 })
	m.w = true
}

// Unlock replaces (*sync.RWMutex).Unlock.
func (m *RWMutex) Unlock() {
	if !rt.IsControlled() {
		m.real.Unlock()
		return
	}
	if rt.Dead() {
		return
	}
	m.fresh()
	rt.Point(rt.OpUnlock, &m.obj, nil)
	if !m.w {
		panic("sync: Unlock of unlocked RWMutex")
	}
	m.w = false
}

// RLock replaces (*sync.RWMutex).RLock.
func (m *RWMutex) RLock() {
	if !rt.IsControlled() {
		m.real.RLock()
		return
	}
	if rt.Dead() {
		return
	}
	m.fresh()
	rt.Point(rt.OpRLock, &m.obj, func() bool { return !m.w })
	m.readers++
}

// RUnlock replaces (*sync.RWMutex).RUnlock.
func (m *RWMutex) RUnlock() {
	if !rt.IsControlled() {
		m.real.RUnlock()
		return
	}
	if rt.Dead() {
		return
	}
	m.fresh()
	rt.Point(rt.OpRUnlock, &m.obj, nil)
	if m.readers <= 0 {
		panic("sync: RUnlock of unlocked RWMutex")
	}
	m.readers--
}

// TryLock replaces (*sync.RWMutex).TryLock.
func (m *RWMutex) TryLock() bool {
	if !rt.IsControlled() {
		return m.real.TryLock()
	}
	if rt.Dead() {
		return false
	}
	m.fresh()
	rt.Point(rt.OpLock, &m.obj, nil)
	if m.w || m.readers > 0 {
		return false
	}
	m.w = true
	return true
}

// TryRLock replaces (*sync.RWMutex).TryRLock.
func (m *RWMutex) TryRLock() bool {
	if !rt.IsControlled() {
		return m.real.TryRLock()
	}
	if rt.Dead() {
		return false
	}
	m.fresh()
	rt.Point(rt.OpRLock, &m.obj, nil)
	if m.w {
		return false
	}
	m.readers++
	return true
}

type rlocker RWMutex

func (r *rlocker) Lock()   { (*RWMutex)(r).RLock() }
func (r *rlocker) Unlock() { (*RWMutex)(r).RUnlock() }

// RLocker replaces (*sync.RWMutex).RLocker.
func (m *RWMutex) RLocker() Locker { return (*rlocker)(m) }

// WaitGroup replaces sync.WaitGroup.
type WaitGroup struct {
	real sync.WaitGroup
	obj  rt.Obj
	n    int
}

func (w *WaitGroup) fresh() {
	if w.obj.Fresh() {
		w.n = 0
	}
}

// Add replaces (*sync.WaitGroup).Add.
func (w *WaitGroup) Add(d int) {
	if !rt.IsControlled() {
		w.real.Add(d)
		return
	}
	if rt.Dead() {
		return
	}
	w.fresh()
	rt.Point(rt.OpWgAdd, &w.obj, nil)
	w.n += d
	if w.n < 0 {
		panic("sync: negative WaitGroup counter")
	}
}

// Done replaces (*sync.WaitGroup).Done.
func (w *WaitGroup) Done() { w.Add(-1) }

// Wait replaces (*sync.WaitGroup).Wait.
func (w *WaitGroup) Wait() {
	if !rt.IsControlled() {
		w.real.Wait()
		return
	}
	if rt.Dead() {
		return
	}
	w.fresh()
	rt.Point(rt.OpWgWait, &w.obj, func() bool { return w.n == 0 })
}

// Once replaces sync.Once.
type Once struct {
	real    sync.Once
	obj     rt.Obj
	done    bool
	running bool
}

// Do replaces (*sync.Once).Do.
func (o *Once) Do(f func()) {
	if !rt.IsControlled() {
		o.real.Do(f)
		return
	}
	if rt.Dead() {
		return
	}
	if o.obj.Fresh() {
		o.done, o.running = false, false
	}
	rt.Point(rt.OpOnce, &o.obj, func() bool { return !o.running })
	if o.done {
		return
	}
	o.running = true
	defer func() {
		rt.Point(rt.OpOnce, &o.obj, nil)
		o.done, o.running = true, false
	}()
	f()
}

// Pool replaces sync.Pool. In Controlled mode it is a deterministic LIFO
// stack that is emptied between executions: a buffer Put by one thread is
// handed to the next Get, whoever calls it.
type Pool struct {
	real  sync.Pool
	obj   rt.Obj
	items []interface{}
	// New mirrors sync.Pool.New.
	New func() interface{}
}

// Get replaces (*sync.Pool).Get.
func (p *Pool) Get() interface{} {
	if !rt.IsControlled() {
		// real.New stays nil so that no shared field is ever written here
		x := p.real.Get()
		if x == nil && p.New != nil {
			x = p.New()
		}
		return x
	}
	if rt.Dead() {
		if p.New != nil {
			return p.New()
		}
		return nil
	}
	if p.obj.Fresh() {
		p.items = nil
		rt.RegisterReset(func() { p.items = nil })
	}
	rt.Point(rt.OpPoolGet, &p.obj, nil)
	if n := len(p.items); n > 0 {
		// a real pool may also hand out a fresh object although it holds one (per-P caches, a GC in between): where
		// the scenario asks for it, that is a data choice of the exploration (0: the pooled object, 1: a new one)
		if rt.PoolMayMiss() && p.New != nil && rt.Choose(2) == 1 {
			return p.New()
		}
		x := p.items[n-1]
		p.items[n-1] = nil
		p.items = p.items[:n-1]
		return x
	}
	if p.New != nil {
		return p.New()
	}
	return nil
}

// Put replaces (*sync.Pool).Put.
func (p *Pool) Put(x interface{}) {
	if !rt.IsControlled() {
		p.real.Put(x)
		return
	}
	if rt.Dead() {
		return
	}
	if p.obj.Fresh() {
		p.items = nil
		rt.RegisterReset(func() { p.items = nil })
	}
	rt.Point(rt.OpPoolPut, &p.obj, nil)
	if x != nil {
		// an object that is put while it is already in the pool will be handed
		// to two users at once: always a bug, and invisible to a cooperative
		// scheduler otherwise (no synchronisation between the two users)
		if v := reflect.ValueOf(x); v.Kind() == reflect.Ptr || (v.Kind() == reflect.Slice && v.Cap() > 0) {
			for _, it := range p.items {
				if w := reflect.ValueOf(it); w.Kind() == v.Kind() && w.Pointer() == v.Pointer() {
					panic("verif: object put into a sync.Pool that already holds it (it will be handed to two users)")
				}
			}
		}
		p.items = append(p.items, x)
	}
}

// Map replaces sync.Map. In Controlled mode every operation is a scheduling
// point on one object (Load and Range are reads, everything else a write).
type Map struct {
	real sync.Map
	obj  rt.Obj
	m    map[interface{}]interface{}
	keys []interface{} // insertion order, for a deterministic Range
}

func (m *Map) ctl(write bool) bool {
	if !rt.IsControlled() {
		return false
	}
	if rt.Dead() {
		return true
	}
	if m.obj.Fresh() || m.m == nil {
		m.m = map[interface{}]interface{}{}
		m.keys = nil
	}
	k := rt.OpLoad
	if write {
		k = rt.OpStore
	}
	rt.Point(k, &m.obj, nil)
	return true
}

// Load replaces (*sync.Map).Load.
func (m *Map) Load(key interface{}) (interface{}, bool) {
	if !m.ctl(false) {
		return m.real.Load(key)
	}
	v, ok := m.m[key]
	return v, ok
}

// Store replaces (*sync.Map).Store.
func (m *Map) Store(key, value interface{}) {
	if !m.ctl(true) {
		m.real.Store(key, value)
		return
	}
	if m.m == nil {
		return
	}
	if _, ok := m.m[key]; !ok {
		m.keys = append(m.keys, key)
	}
	m.m[key] = value
}

// LoadOrStore replaces (*sync.Map).LoadOrStore.
func (m *Map) LoadOrStore(key, value interface{}) (interface{}, bool) {
	if !m.ctl(true) {
		return m.real.LoadOrStore(key, value)
	}
	if m.m == nil {
		return value, false
	}
	if v, ok := m.m[key]; ok {
		return v, true
	}
	m.keys = append(m.keys, key)
	m.m[key] = value
	return value, false
}

// LoadAndDelete replaces (*sync.Map).LoadAndDelete.
func (m *Map) LoadAndDelete(key interface{}) (interface{}, bool) {
	if !m.ctl(true) {
		return m.real.LoadAndDelete(key)
	}
	v, ok := m.m[key]
	delete(m.m, key)
	return v, ok
}

// Delete replaces (*sync.Map).Delete.
func (m *Map) Delete(key interface{}) { m.LoadAndDelete(key) }

// Range replaces (*sync.Map).Range.
func (m *Map) Range(f func(key, value interface{}) bool) {
	if !m.ctl(false) {
		m.real.Range(f)
		return
	}
	for _, k := range append([]interface{}{}, m.keys...) {
		if v, ok := m.m[k]; ok {
			if !f(k, v) {
				return
			}
		}
	}
}

// Cond replaces sync.Cond.
type Cond struct {
	L       Locker
	obj     rt.Obj
	real    *sync.Cond
	waiters int
	signals int
}

// NewCond replaces sync.NewCond.
func NewCond(l Locker) *Cond { return &Cond{L: l, real: sync.NewCond(l)} }

// Wait replaces (*sync.Cond).Wait.
func (c *Cond) Wait() {
	if !rt.IsControlled() {
		c.real.Wait()
		return
	}
	if rt.Dead() {
		return
	}
	if c.obj.Fresh() {
		c.waiters, c.signals = 0, 0
	}
	c.waiters++
	c.L.Unlock()
	rt.Point(rt.OpRecv, &c.obj, func() bool { return c.signals > 0 })
	c.signals--
	c.waiters--
	c.L.Lock()
}

// Signal replaces (*sync.Cond).Signal.
func (c *Cond) Signal() {
	if !rt.IsControlled() {
		c.real.Signal()
		return
	}
	if rt.Dead() {
		return
	}
	c.obj.Fresh()
	rt.Point(rt.OpSend, &c.obj, nil)
	if c.signals < c.waiters {
		c.signals++
	}
}

// Broadcast replaces (*sync.Cond).Broadcast.
func (c *Cond) Broadcast() {
	if !rt.IsControlled() {
		c.real.Broadcast()
		return
	}
	if rt.Dead() {
		return
	}
	c.obj.Fresh()
	rt.Point(rt.OpSend, &c.obj, nil)
	c.signals = c.waiters
}
