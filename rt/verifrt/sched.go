// Package verifrt is the controlled-scheduler runtime that the /verif
// instrumenter injects into tally's module (through go build -overlay).
//
// In Controlled mode exactly one "thread" (goroutine) runs at a time; every
// shim operation (lock, atomic, channel, ...) first calls Point, which is a
// scheduling point: the scheduler decides, from a recorded choice prefix or
// by default, which enabled thread performs its pending operation next.
// Blocking is modelled: a thread whose pending operation is not enabled is
// never run, so nothing ever blocks inside the Go runtime.
//
// In Free mode every shim delegates to the real primitive and Point is a
// no-op that touches no shared state (so it adds no happens-before edge).
package verifrt

import (
	"fmt"
	"runtime"
	"runtime/debug"
	"sync"
	"unsafe"
)

// Mode selects how the shims behave.
type Mode int

const (
	// Free: shims delegate to the real sync/atomic/channel primitives.
	Free Mode = iota
	// Controlled: shims are scheduling points of the cooperative scheduler.
	Controlled
)

// mode is written only while no thread runs.
var mode = Free

// SetMode sets the runtime mode. Must not be called while threads run.
func SetMode(m Mode) { mode = m }

// IsControlled reports whether the controlled scheduler is active.
func IsControlled() bool { return mode == Controlled }

// OpKind classifies scheduling points.
type OpKind uint8

// Operation kinds.
const (
	OpStart OpKind = iota
	OpLock
	OpLockAnnounce
	OpUnlock
	OpRLock
	OpRUnlock
	OpLoad
	OpStore // any atomic write or read-modify-write
	OpSend
	OpRecv
	OpClose
	OpSelect
	OpWgAdd
	OpWgWait
	OpPoolGet
	OpPoolPut
	OpYield
	OpJoin
	OpRec // call into the harness' recording reporter
	OpMark
	OpOnce
	OpExit
)

var opNames = [...]string{"start", "lock", "lock-announce", "unlock", "rlock", "runlock", "load", "store",
	"send", "recv", "close", "select", "wg-add", "wg-wait", "pool-get", "pool-put", "yield", "join", "rec", "mark", "once", "exit"}

func (k OpKind) String() string {
	if int(k) < len(opNames) {
		return opNames[k]
	}
	return fmt.Sprintf("op%d", int(k))
}

func (k OpKind) isRead() bool {
	switch k {
	case OpLoad, OpRLock, OpRUnlock, OpWgWait, OpJoin:
		return true
	}
	return false
}

// Obj is the happens-before bookkeeping of one synchronisation object.
type Obj struct {
	epoch uint64
	id    uint64
	lastW uint64
	reads uint64
}

// Fresh reports whether this is the first use of o in the current execution
// (and, if so, gives it its identity). Shims reset their model state when it
// returns true, so objects that outlive an execution (package-level pools,
// NoopScope) start every execution in their zero state.
func (o *Obj) Fresh() bool {
	if o.epoch == sc.epoch {
		return false
	}
	t := sc.cur
	o.epoch = sc.epoch
	o.lastW, o.reads = 0, 0
	if t != nil {
		t.nobj++
		o.id = mix(t.canon, t.nobj)
	} else {
		sc.nobj++
		o.id = mix(1, sc.nobj)
	}
	return true
}

type pending struct {
	kind    OpKind
	obj     *Obj
	objs    []*Obj // select: all channels
	enabled func() bool
	label   string
	// unbuffered-channel rendezvous
	recvOn  []*chanCore // channels this pending op is ready to receive from
	handed  *chanCore   // set by a sender that handed a value to this receiver
	handVal interface{}
}

// Thread is one controlled thread.
type Thread struct {
	id       int
	canon    uint64
	name     string
	wake     chan struct{}
	exited   chan struct{}
	pend     pending
	finished bool
	yielded  bool
	hash     uint64
	nobj     uint64
	nspawn   uint64
	killed   bool
	panicked bool
	panicVal interface{}
	panicStk string
	body     func()
	obj      Obj // for join
	free     chan struct{}
}

// ID returns the thread id (0 = scenario main thread).
func (t *Thread) ID() int {
	if t == nil {
		return -1
	}
	return t.id
}

// PointInfo describes one choice point of an execution.
type PointInfo struct {
	NEnabled   int    // number of alternatives
	CurEnabled bool   // the running thread was itself enabled (alt>0 is a preemption)
	Data       bool   // a data choice (select case, ...), never a preemption
	Tid        int    // thread chosen (for data choices: the choosing thread)
	Kind       OpKind // op of the chosen thread
	Sig        uint64 // signature for divergence detection
	Key        uint64 // HB state key before the choice
	Preempts   int    // preemptions used before this point
	FreeDevs   int    // non-default choices taken at non-preemptive points before this point
}

// Outcome of one execution.
type Outcome struct {
	Choices   []int
	Points    []PointInfo
	Deadlock  bool
	Livelock  bool
	Horizon   bool
	Diverged  string
	Panics    []string
	Leaked    []string // threads alive (blocked) at the end
	Steps     int
	Pruned    bool // aborted because an equivalent state had been expanded
	Trace     []string
	NThreads  int
	FinalHash uint64
	MainDone  bool
}

// Config of one execution.
type Config struct {
	Prefix      []int
	PrefixSigs  []uint64 // optional: expected signatures for the prefix
	Horizon     int
	Trace       bool
	WriterPref  bool // model RWMutex writer preference (Lock = announce + acquire)
	Ticks       int  // ticks each virtual ticker may deliver
	LivelockMax int
	// PoolMiss: a sync.Pool Get may return a new object although the pool holds one (explored as a data choice).
	PoolMiss bool
	// PruneAt is consulted at every choice point past the prefix; returning
	// true abandons the execution (an equivalent state was already expanded).
	PruneAt func(idx int, p PointInfo) bool
}

type scheduler struct {
	cfg      Config
	threads  []*Thread
	cur      *Thread
	step     int
	preempts int
	freedevs int
	dead     bool
	ended    bool
	out      Outcome
	endCh    chan struct{}
	objs     map[unsafe.Pointer]*Obj
	epoch    uint64
	nobj     uint64
	spin     int
	live     sync.WaitGroup
	now      int64
	enabled  []*Thread
	nlive    int
}

var sc = &scheduler{}

var resetHooks []func()

// OnReset registers a function run before every controlled execution (used to
// re-create process-global state such as tally.NoopScope).
func OnReset(f func()) { resetHooks = append(resetHooks, f) }

func mix(a, b uint64) uint64 {
	h := a ^ (b + 0x9E3779B97F4A7C15 + (a << 6) + (a >> 2))
	h ^= h >> 33
	h *= 0xff51afd7ed558ccd
	h ^= h >> 33
	h *= 0xc4ceb9fe1a85ec53
	h ^= h >> 33
	return h
}

// Mix exposes the hash combiner (used by harnesses to fold data into keys).
func Mix(a, b uint64) uint64 { return mix(a, b) }

// Cur returns the running thread (Controlled mode only).
func Cur() *Thread { return sc.cur }

// CurID returns the running thread's id, or -1 in Free mode.
func CurID() int {
	if mode != Controlled {
		return -1
	}
	return sc.cur.ID()
}

// Dead reports whether the current execution is being torn down.
func Dead() bool { return mode == Controlled && sc.dead }

// PoolMayMiss reports whether pool misses are part of the exploration.
func PoolMayMiss() bool { return mode == Controlled && sc.cfg.PoolMiss }

// Ticks returns the configured tick budget per virtual ticker.
func Ticks() int { return sc.cfg.Ticks }

// WriterPref reports whether RWMutex writer preference is modelled.
func WriterPref() bool { return sc.cfg.WriterPref }

// Run performs one controlled execution of body as thread 0 and returns its outcome.
func Run(cfg Config, body func()) *Outcome {
	if mode != Controlled {
		panic("verifrt.Run requires Controlled mode")
	}
	if cfg.Horizon == 0 {
		cfg.Horizon = 50000
	}
	if cfg.LivelockMax == 0 {
		cfg.LivelockMax = 3
	}
	ep := sc.epoch + 1
	*sc = scheduler{cfg: cfg, epoch: ep, endCh: make(chan struct{}, 1), objs: make(map[unsafe.Pointer]*Obj), now: 1_700_000_000_000_000_000}
	resetPools()
	t0 := sc.newThread("main", func() {
		// reset hooks re-create process-global state; they run as the
		// first steps of thread 0 so that their shim operations are
		// ordinary (choice-free) steps of the execution
		for _, f := range resetHooks {
			f()
		}
		body()
	}, nil)
	sc.cur = t0
	sc.launch(t0)
	t0.pend = pending{}
	t0.wake <- struct{}{}
	<-sc.endCh
	// teardown: kill parked threads one at a time (their deferred functions
	// run with every shim operation turned into a no-op).
	sc.dead = true
	sc.out.MainDone = t0.finished && !t0.panicked
	for _, t := range sc.threads {
		if !t.finished {
			sc.out.Leaked = append(sc.out.Leaked, fmt.Sprintf("%d:%s@%s", t.id, t.name, t.pend.kind))
		}
	}
	for _, t := range sc.threads {
		if !t.finished {
			t.killed = true
			t.wake <- struct{}{}
			<-t.exited
		}
	}
	sc.live.Wait()
	sc.out.Steps = sc.step
	sc.out.NThreads = len(sc.threads)
	sc.out.FinalHash = sc.stateKey()
	for _, t := range sc.threads {
		if t.panicked {
			sc.out.Panics = append(sc.out.Panics, fmt.Sprintf("thread %d (%s): %v\n%s", t.id, t.name, t.panicVal, t.panicStk))
		}
	}
	o := sc.out
	sc.cur = nil
	return &o
}

func (s *scheduler) newThread(name string, body func(), parent *Thread) *Thread {
	t := &Thread{id: len(s.threads), name: name, wake: make(chan struct{}, 1), exited: make(chan struct{}), body: body}
	if parent == nil {
		t.canon = mix(7, uint64(len(s.threads)))
	} else {
		parent.nspawn++
		t.canon = mix(parent.canon, parent.nspawn)
		t.hash = mix(parent.hash, parent.nspawn)
	}
	t.obj.epoch = s.epoch
	t.obj.id = mix(t.canon, 0x7468)
	t.pend = pending{kind: OpStart}
	s.threads = append(s.threads, t)
	s.nlive++
	return t
}

func (s *scheduler) launch(t *Thread) {
	s.live.Add(1)
	go func() {
		defer s.live.Done()
		defer close(t.exited)
		<-t.wake
		if s.dead {
			return
		}
		defer func() {
			if t.killed {
				// torn down by Goexit; swallow nothing, nothing to schedule
				return
			}
			if r := recover(); r != nil {
				t.panicked = true
				t.panicVal = r
				t.panicStk = string(debug.Stack())
			}
			t.finished = true
			s.nlive--
			s.threadExit(t)
		}()
		t.body()
	}()
}

// Go starts f as a new thread (a real goroutine in Free mode).
func Go(f func()) *Thread { return GoNamed("", f) }

// GoNamed starts f as a new named thread.
func GoNamed(name string, f func()) *Thread {
	if mode != Controlled {
		t := &Thread{id: -1, free: make(chan struct{})}
		go func() {
			defer close(t.free)
			// a panic of a free-running thread would take the whole worker process down: keep it for the pass to report
			defer func() {
				if r := recover(); r != nil {
					freeMu.Lock()
					freePanics = append(freePanics, fmt.Sprintf("%v\n%s", r, debug.Stack()))
					freeMu.Unlock()
				}
			}()
			f()
		}()
		return t
	}
	s := sc
	if s.dead {
		return &Thread{id: -1, finished: true}
	}
	t := s.newThread(name, f, s.cur)
	s.launch(t)
	return t
}

// LiveLibraryThreads lists the threads started by the code under test (a
// rewritten go statement: they carry no name) that have not run to completion
// at this moment. Under the cooperative scheduler a thread that has performed
// its last synchronisation operation keeps running up to its exit before any
// other thread is resumed, so "not finished" means it still has a
// synchronisation operation ahead of it. Empty in Free mode.
func LiveLibraryThreads() []string {
	if mode != Controlled || sc.dead {
		return nil
	}
	var out []string
	for _, t := range sc.threads {
		if t != sc.cur && t.name == "" && !t.finished {
			out = append(out, fmt.Sprintf("%d@%s", t.id, t.pend.kind))
		}
	}
	return out
}

var (
	freeMu     sync.Mutex
	freePanics []string
)

// TakeFreePanics returns (and forgets) the panics of free-running threads since the last call.
func TakeFreePanics() []string {
	freeMu.Lock()
	defer freeMu.Unlock()
	p := freePanics
	freePanics = nil
	return p
}

// Join blocks until t has finished.
func (t *Thread) Join() {
	if mode != Controlled {
		<-t.free
		return
	}
	if sc.dead {
		return
	}
	Point(OpJoin, &t.obj, func() bool { return t.finished })
	c := sc.cur
	c.hash = mix(c.hash, t.hash)
}

// Finished reports whether the thread has run to completion.
func (t *Thread) Finished() bool { return t.finished }

func (s *scheduler) end() {
	if !s.ended {
		s.ended = true
		s.endCh <- struct{}{}
	}
}

func (s *scheduler) threadExit(t *Thread) {
	if s.ended {
		return
	}
	// the exit itself is a write on the thread object (joiners depend on it)
	t.hash = mix(t.hash, uint64(OpExit))
	if t.panicked {
		s.end()
		return
	}
	next := s.choose(nil)
	if next == nil {
		s.end()
		return
	}
	next.wake <- struct{}{}
}

// Point is a scheduling point: the calling thread announces the operation it
// is about to perform and is resumed only when that operation is enabled and
// the scheduler has chosen it.
func Point(kind OpKind, obj *Obj, enabled func() bool) {
	if mode != Controlled {
		return
	}
	s := sc
	if s.dead {
		return
	}
	t := s.cur
	t.pend.kind, t.pend.obj, t.pend.objs, t.pend.enabled = kind, obj, nil, enabled
	s.schedule(t)
}

// PointN is Point for an operation touching several objects (select).
func pointN(kind OpKind, objs []*Obj, enabled func() bool) {
	s := sc
	t := s.cur
	t.pend.kind, t.pend.obj, t.pend.objs, t.pend.enabled = kind, nil, objs, enabled
	s.schedule(t)
}

func (s *scheduler) schedule(t *Thread) {
	// fast path: a single live thread has nobody to interleave with
	// (its steps are common to every execution of the scenario, so they are
	// not folded into the happens-before hashes either)
	if s.nlive == 1 && !s.ended && !t.yielded && !s.cfg.Trace && t.isEnabled() {
		s.spin = 0
		s.step++
		if s.step > s.cfg.Horizon {
			s.out.Horizon = true
			s.end()
		}
		return
	}
	next := s.choose(t)
	if next == t {
		return
	}
	if next == nil {
		s.end()
	} else {
		next.wake <- struct{}{}
	}
	<-t.wake
	if s.dead {
		runtime.Goexit()
	}
}

func (t *Thread) isEnabled() bool {
	if t.finished {
		return false
	}
	if t.pend.enabled == nil {
		return true
	}
	return t.pend.enabled()
}

// choose picks the thread that performs the next step. cur is the thread
// standing at the point (nil when the running thread just exited).
func (s *scheduler) choose(cur *Thread) *Thread {
	if s.ended {
		return nil
	}
	en := s.enabled[:0]
	curEnabled := false
	if cur != nil && !cur.yielded && cur.isEnabled() {
		en = append(en, cur)
		curEnabled = true
	}
	for _, t := range s.threads {
		if t != cur && !t.yielded && t.isEnabled() {
			en = append(en, t)
		}
	}
	if len(en) == 0 {
		// only yielders (spinning threads) may be left
		if cur != nil && cur.yielded && cur.isEnabled() {
			en = append(en, cur)
		}
		for _, t := range s.threads {
			if t != cur && t.yielded && t.isEnabled() {
				en = append(en, t)
			}
		}
		if len(en) > 0 {
			s.spin++
			if s.spin > s.cfg.LivelockMax {
				s.out.Livelock = true
				return nil
			}
		}
	} else {
		s.spin = 0
	}
	s.enabled = en
	if len(en) == 0 {
		if !s.threads[0].finished {
			s.out.Deadlock = true
		}
		return nil
	}
	idx := 0
	if len(en) > 1 {
		pi := PointInfo{NEnabled: len(en), CurEnabled: curEnabled, Preempts: s.preempts, FreeDevs: s.freedevs}
		n := len(s.out.Choices)
		pi.Key = s.stateKey()
		if cur != nil {
			pi.Key = mix(pi.Key, cur.canon)
		}
		sig := uint64(len(en))
		for _, t := range en {
			sig = mix(sig, uint64(t.id)<<8|uint64(t.pend.kind))
		}
		pi.Sig = sig
		if n < len(s.cfg.Prefix) {
			idx = s.cfg.Prefix[n]
			if idx >= len(en) {
				s.out.Diverged = fmt.Sprintf("choice %d: prefix wants alternative %d but only %d enabled", n, idx, len(en))
				return nil
			}
			if n < len(s.cfg.PrefixSigs) && s.cfg.PrefixSigs[n] != sig {
				s.out.Diverged = fmt.Sprintf("choice %d: signature mismatch while replaying prefix", n)
				return nil
			}
		} else if s.cfg.PruneAt != nil {
			if s.cfg.PruneAt(n, pi) {
				s.out.Pruned = true
				return nil
			}
		}
		pi.Tid = en[idx].id
		pi.Kind = en[idx].pend.kind
		s.out.Choices = append(s.out.Choices, idx)
		s.out.Points = append(s.out.Points, pi)
		if idx > 0 && curEnabled {
			s.preempts++
		} else if idx > 0 {
			s.freedevs++
		}
	}
	t := en[idx]
	s.commit(t)
	return t
}

func (s *scheduler) commit(t *Thread) {
	p := &t.pend
	k := uint64(p.kind)
	switch {
	case p.objs != nil:
		e := mix(t.hash, k)
		for _, o := range p.objs {
			e = mix(e, mix(o.id, mix(o.lastW, o.reads)))
		}
		for _, o := range p.objs {
			o.lastW, o.reads = e, 0
		}
		t.hash = e
	case p.obj != nil:
		o := p.obj
		if p.kind.isRead() {
			e := mix(mix(mix(t.hash, k), o.id), o.lastW)
			o.reads += e
			t.hash = e
		} else {
			e := mix(mix(mix(t.hash, k), o.id), mix(o.lastW, o.reads))
			o.lastW, o.reads = e, 0
			t.hash = e
		}
	default:
		t.hash = mix(t.hash, k)
	}
	for _, o := range s.threads {
		if o != t {
			o.yielded = false
		}
	}
	if s.cfg.Trace {
		var oid uint64
		if p.obj != nil {
			oid = p.obj.id
		}
		s.out.Trace = append(s.out.Trace, fmt.Sprintf("%4d t%d(%s) %s obj=%x %s", s.step, t.id, t.name, p.kind, oid&0xffffff, p.label))
	}
	p.label = ""
	s.cur = t
	s.step++
	if s.step > s.cfg.Horizon && !s.ended {
		s.out.Horizon = true
		s.end()
	}
}

func (s *scheduler) stateKey() uint64 {
	var k uint64
	for _, t := range s.threads {
		f := uint64(0)
		if t.finished {
			f |= 1
		}
		if t.yielded {
			f |= 2
		}
		k += mix(mix(t.canon, t.hash), f)
	}
	return k
}

// Choose is a data choice among n alternatives (e.g. which ready select case
// fires). It is recorded in the choice sequence but never costs a preemption.
func Choose(n int) int {
	if mode != Controlled || n <= 1 {
		return 0
	}
	s := sc
	if s.dead || s.ended {
		return 0
	}
	t := s.cur
	pi := PointInfo{NEnabled: n, Data: true, Tid: t.id, Preempts: s.preempts, FreeDevs: s.freedevs}
	pi.Key = mix(s.stateKey(), t.canon)
	pi.Sig = mix(uint64(n), uint64(t.id)<<8|0xff)
	idx := 0
	i := len(s.out.Choices)
	if i < len(s.cfg.Prefix) {
		idx = s.cfg.Prefix[i]
		if idx >= n {
			s.out.Diverged = fmt.Sprintf("data choice %d: prefix wants %d of %d", i, idx, n)
			s.end()
			<-t.wake
			runtime.Goexit()
		}
	} else if s.cfg.PruneAt != nil && s.cfg.PruneAt(i, pi) {
		s.out.Pruned = true
		s.end()
		<-t.wake
		runtime.Goexit()
	}
	s.out.Choices = append(s.out.Choices, idx)
	s.out.Points = append(s.out.Points, pi)
	t.hash = mix(t.hash, uint64(idx)+0x100)
	return idx
}

// Yield models runtime.Gosched in a spin loop: the caller is not schedulable
// again until some other thread has taken a step.
func Yield() {
	if mode != Controlled {
		runtime.Gosched()
		return
	}
	if sc.dead {
		return
	}
	t := sc.cur
	t.yielded = true
	Point(OpYield, nil, nil)
}

// Label attaches a description to the next scheduling point of the running
// thread (trace output only).
func Label(format string, args ...interface{}) {
	if mode == Controlled && sc.cfg.Trace && !sc.dead {
		sc.cur.pend.label = fmt.Sprintf(format, args...)
	}
}

// ObjFor returns the bookkeeping object for a memory address (atomics on raw words).
func ObjFor(p unsafe.Pointer) *Obj {
	o := sc.objs[p]
	if o == nil {
		o = &Obj{}
		sc.objs[p] = o
	}
	o.Fresh()
	return o
}

// AtomicPoint is the scheduling point of an atomic operation on address p.
func AtomicPoint(write bool, p unsafe.Pointer) {
	if mode != Controlled || sc.dead {
		return
	}
	k := OpLoad
	if write {
		k = OpStore
	}
	Point(k, ObjFor(p), nil)
}

// Preempts returns the number of preemptions used so far in this execution.
func Preempts() int { return sc.preempts }
