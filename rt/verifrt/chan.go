package verifrt

import (
	"reflect"
	"time"
)

// chanCore is the model state of a channel (Controlled mode).
type chanCore struct {
	obj    Obj
	cap    int
	n      int // buffered elements
	closed bool
	ticks  int         // virtual ticker: remaining ticks
	ticker bool        // virtual ticker channel
	ext    func() bool // external channel (see External): is there something to receive right now?
}

// Chan replaces `chan T` in instrumented code.
type Chan[T any] struct {
	core chanCore
	buf  []T
	real chan T
	ro   <-chan T // Free mode, receive-only source (real ticker); External: the wrapped channel in both modes
	// External, Controlled mode: what a readiness probe has taken out of the real channel and not yet handed on
	extV    T
	extOK   bool
	extHave bool
}

// MakeChan replaces make(chan T, n).
func MakeChan[T any](n int) *Chan[T] {
	c := &Chan[T]{}
	c.core.cap = n
	if mode != Controlled {
		c.real = make(chan T, n)
		return c
	}
	if !sc.dead {
		c.core.obj.Fresh()
	}
	return c
}

func (c *Chan[T]) rch() <-chan T {
	if c == nil {
		return nil
	}
	if c.ro != nil {
		return c.ro
	}
	return c.real
}

func (c *Chan[T]) corePtr() *chanCore {
	if c == nil {
		return nil
	}
	return &c.core
}

// receivers pending on this channel (for unbuffered rendezvous)
func (cc *chanCore) waitingReceiver() *Thread {
	for _, t := range sc.threads {
		if t.finished || t.pend.handed != nil {
			continue
		}
		for _, rc := range t.pend.recvOn {
			if rc == cc {
				return t
			}
		}
	}
	return nil
}

func (cc *chanCore) canSend() bool {
	if cc == nil {
		return false
	}
	if cc.closed {
		return true // will panic
	}
	if cc.cap == 0 {
		return cc.waitingReceiver() != nil
	}
	return cc.n < cc.cap
}

func (cc *chanCore) canRecv(t *Thread) bool {
	if cc == nil {
		return false
	}
	if cc.ticker {
		return cc.ticks > 0
	}
	if cc.ext != nil {
		return cc.ext()
	}
	if t != nil && t.pend.handed == cc {
		return true
	}
	return cc.n > 0 || cc.closed
}

// Send replaces `c <- v`.
func (c *Chan[T]) Send(v T) {
	if mode != Controlled {
		c.real <- v
		return
	}
	if sc.dead {
		return
	}
	cc := c.corePtr()
	if cc == nil {
		Point(OpSend, nil, func() bool { return false })
		return
	}
	Point(OpSend, &cc.obj, cc.canSend)
	c.doSend(v)
}

func (c *Chan[T]) doSend(v T) {
	cc := &c.core
	if cc.closed {
		panic("send on closed channel")
	}
	if cc.cap == 0 {
		r := cc.waitingReceiver()
		r.pend.handed = cc
		r.pend.handVal = v
		return
	}
	c.buf = append(c.buf, v)
	cc.n++
}

func (c *Chan[T]) doRecv() (T, bool) {
	var zero T
	cc := &c.core
	t := sc.cur
	if cc.ticker {
		cc.ticks--
		var x interface{} = Now()
		return x.(T), true
	}
	if cc.ext != nil {
		if !c.extHave {
			cc.ext()
		}
		v, ok := c.extV, c.extOK
		if ok {
			c.extHave = false // a value is handed on once; "closed" stays
		}
		return v, ok
	}
	if t.pend.handed == cc {
		v := t.pend.handVal.(T)
		t.pend.handed, t.pend.handVal = nil, nil
		return v, true
	}
	if cc.n > 0 {
		v := c.buf[0]
		c.buf[0] = zero
		c.buf = c.buf[1:]
		cc.n--
		return v, true
	}
	return zero, false // closed
}

// Recv2 replaces `v, ok := <-c`.
func (c *Chan[T]) Recv2() (T, bool) {
	var zero T
	if mode != Controlled {
		v, ok := <-c.rch()
		return v, ok
	}
	if sc.dead {
		return zero, false
	}
	cc := c.corePtr()
	if cc == nil {
		Point(OpRecv, nil, func() bool { return false })
		return zero, false
	}
	t := sc.cur
	t.pend.recvOn = append(t.pend.recvOn[:0], cc)
	Point(OpRecv, &cc.obj, func() bool { return cc.canRecv(t) })
	t.pend.recvOn = t.pend.recvOn[:0]
	return c.doRecv()
}

// Recv replaces `<-c`.
func (c *Chan[T]) Recv() T {
	v, _ := c.Recv2()
	return v
}

// Close replaces close(c).
func (c *Chan[T]) Close() {
	if mode != Controlled {
		close(c.real)
		return
	}
	if sc.dead {
		return
	}
	if c == nil {
		panic("close of nil channel")
	}
	Point(OpClose, &c.core.obj, nil)
	if c.core.closed {
		panic("close of closed channel")
	}
	c.core.closed = true
}

// Len replaces len(c).
func (c *Chan[T]) Len() int {
	if c == nil {
		return 0
	}
	if mode != Controlled {
		return len(c.real)
	}
	// a read of the channel's state: a scheduling point of its own, recorded as a read access, so that the orders
	// of this look and another thread's send / receive are told apart (check-then-act on a channel length)
	if !sc.dead {
		Point(OpLoad, &c.core.obj, nil)
	}
	return c.core.n
}

// Cap replaces cap(c).
func (c *Chan[T]) Cap() int {
	if c == nil {
		return 0
	}
	return c.core.cap
}

// SelCase is one case of a rewritten select statement.
type SelCase struct {
	cc   *chanCore
	send bool
	rv   reflect.Value // Free mode: the real channel
}

// RecvCase builds the select case `case ... <-c`.
func (c *Chan[T]) RecvCase() SelCase {
	if mode != Controlled {
		return SelCase{rv: reflect.ValueOf(c.rch())}
	}
	return SelCase{cc: c.corePtr()}
}

// SendCase builds the select case `case c <- v` (the value is supplied by SelSend).
func (c *Chan[T]) SendCase() SelCase {
	if mode != Controlled {
		var r chan T
		if c != nil {
			r = c.real
		}
		return SelCase{rv: reflect.ValueOf(r), send: true}
	}
	return SelCase{cc: c.corePtr(), send: true}
}

// Sel is the state of one rewritten select statement between the choice of
// a case and the execution of its communication.
type Sel struct {
	idx   int
	recvV reflect.Value
	recvK bool
	free  bool
	cases []SelCase
	sendV []func() reflect.Value
}

// Select chooses a ready case of a rewritten select statement and returns a
// Sel whose Index is the chosen case, or -1 for the default case. In Free
// mode send values are needed up front and are supplied through sendVals
// (one func per case, nil for receive cases).
func Select(hasDefault bool, sendVals []func() interface{}, cases ...SelCase) *Sel {
	if mode != Controlled {
		rc := make([]reflect.SelectCase, 0, len(cases)+1)
		for i, c := range cases {
			if c.send {
				v := reflect.ValueOf(sendVals[i]())
				if !v.IsValid() {
					v = reflect.Zero(c.rv.Type().Elem())
				}
				rc = append(rc, reflect.SelectCase{Dir: reflect.SelectSend, Chan: c.rv, Send: v})
			} else {
				rc = append(rc, reflect.SelectCase{Dir: reflect.SelectRecv, Chan: c.rv})
			}
		}
		if hasDefault {
			rc = append(rc, reflect.SelectCase{Dir: reflect.SelectDefault})
		}
		i, v, ok := reflect.Select(rc)
		if hasDefault && i == len(cases) {
			return &Sel{idx: -1, free: true}
		}
		return &Sel{idx: i, recvV: v, recvK: ok, free: true}
	}
	if sc.dead {
		return &Sel{idx: -1}
	}
	t := sc.cur
	objs := make([]*Obj, 0, len(cases))
	t.pend.recvOn = t.pend.recvOn[:0]
	for _, c := range cases {
		if c.cc != nil {
			objs = append(objs, &c.cc.obj)
			if !c.send {
				t.pend.recvOn = append(t.pend.recvOn, c.cc)
			}
		}
	}
	ready := func(c SelCase) bool {
		if c.send {
			return c.cc.canSend()
		}
		return c.cc.canRecv(t)
	}
	pointN(OpSelect, objs, func() bool {
		if hasDefault {
			return true
		}
		for _, c := range cases {
			if ready(c) {
				return true
			}
		}
		return false
	})
	t.pend.recvOn = t.pend.recvOn[:0]
	if t.pend.handed != nil {
		for i, c := range cases {
			if !c.send && c.cc == t.pend.handed {
				return &Sel{idx: i}
			}
		}
	}
	var rd []int
	for i, c := range cases {
		if ready(c) {
			rd = append(rd, i)
		}
	}
	if len(rd) == 0 {
		return &Sel{idx: -1}
	}
	return &Sel{idx: rd[Choose(len(rd))]}
}

// Index returns the chosen case (-1 = default).
func (s *Sel) Index() int { return s.idx }

// SelRecv2 performs the receive of the chosen case.
func SelRecv2[T any](s *Sel, c *Chan[T]) (T, bool) {
	if s.free {
		var zero T
		if !s.recvK {
			return zero, false
		}
		return s.recvV.Interface().(T), true
	}
	if sc.dead {
		var zero T
		return zero, false
	}
	return c.doRecv()
}

// SelRecv performs the receive of the chosen case.
func SelRecv[T any](s *Sel, c *Chan[T]) T {
	v, _ := SelRecv2(s, c)
	return v
}

// SelSend performs the send of the chosen case.
func SelSend[T any](s *Sel, c *Chan[T], v T) {
	if s.free || sc.dead {
		return // already sent by reflect.Select
	}
	c.doSend(v)
}

// Ticker replaces time.Ticker. In Controlled mode it is virtual: a receive
// from C is enabled as long as the tick budget lasts, i.e. "the tick arrives
// exactly when the receiving goroutine is scheduled".
type Ticker struct {
	C    *Chan[time.Time]
	real *time.Ticker
}

// NewTicker replaces time.NewTicker.
func NewTicker(d time.Duration) *Ticker {
	if d <= 0 {
		panic("non-positive interval for NewTicker")
	}
	if mode != Controlled {
		rt := time.NewTicker(d)
		return &Ticker{C: &Chan[time.Time]{ro: rt.C}, real: rt}
	}
	c := &Chan[time.Time]{}
	c.core.cap = 1
	c.core.ticker = true
	if !sc.dead {
		c.core.obj.Fresh()
		c.core.ticks = sc.cfg.Ticks
	}
	return &Ticker{C: c}
}

// Stop replaces (*time.Ticker).Stop.
func (t *Ticker) Stop() {
	if t.real != nil {
		t.real.Stop()
		return
	}
	t.C.core.ticks = 0
}

// Reset replaces (*time.Ticker).Reset.
func (t *Ticker) Reset(d time.Duration) {
	if t.real != nil {
		t.real.Reset(d)
	}
}

// Now replaces time.Now: a virtual, strictly increasing clock in Controlled mode.
func Now() time.Time {
	if mode != Controlled {
		return time.Now()
	}
	sc.now += 1000
	return time.Unix(0, sc.now)
}

// SetNow moves the virtual clock of the current execution (Controlled mode only; it starts at 0 in every
// execution). Timestamps near the end of the int64 range have the longest encodings.
func SetNow(ns int64) {
	if mode == Controlled {
		sc.now = ns
	}
}

// NowNanos returns the current virtual time without advancing it.
func NowNanos() int64 {
	if mode != Controlled {
		return time.Now().UnixNano()
	}
	return sc.now
}

// Sleep replaces time.Sleep: a yield in Controlled mode.
func Sleep(d time.Duration) {
	if mode != Controlled {
		time.Sleep(d)
		return
	}
	Yield()
}

// Timer replaces time.Timer. In Controlled mode it is virtual like the ticker: a receive from C is enabled once, at
// whatever moment the receiving goroutine is scheduled ("the timer may fire at any time": every timing is explored
// within the bounds), until it is stopped.
type Timer struct {
	C    *Chan[time.Time]
	real *time.Timer
	fn   *Thread
	stop *Chan[struct{}]
}

// NewTimer replaces time.NewTimer.
func NewTimer(d time.Duration) *Timer {
	if mode != Controlled {
		rt := time.NewTimer(d)
		return &Timer{C: &Chan[time.Time]{ro: rt.C}, real: rt}
	}
	c := &Chan[time.Time]{}
	c.core.cap = 1
	c.core.ticker = true
	if !sc.dead {
		c.core.obj.Fresh()
		c.core.ticks = 1
	}
	return &Timer{C: c}
}

// After replaces time.After.
func After(d time.Duration) *Chan[time.Time] { return NewTimer(d).C }

// Tick replaces time.Tick.
func Tick(d time.Duration) *Chan[time.Time] { return NewTicker(d).C }

// Stop replaces (*time.Timer).Stop.
func (t *Timer) Stop() bool {
	if t.real != nil {
		return t.real.Stop()
	}
	if t.stop != nil {
		// AfterFunc: tell the waiting thread to go away; it has not run f if the stop arrives first
		active := t.C.core.ticks > 0
		t.C.core.ticks = 0
		if active && !sc.dead {
			t.stop.Close()
		}
		return active
	}
	active := t.C.core.ticks > 0
	t.C.core.ticks = 0
	return active
}

// Reset replaces (*time.Timer).Reset.
func (t *Timer) Reset(d time.Duration) bool {
	if t.real != nil {
		return t.real.Reset(d)
	}
	active := t.C.core.ticks > 0
	if t.stop == nil {
		t.C.core.ticks = 1
	}
	return active
}

// AfterFunc replaces time.AfterFunc: a goroutine of the library that runs f when the (virtual) timer fires.
func AfterFunc(d time.Duration, f func()) *Timer {
	if mode != Controlled {
		return &Timer{real: time.AfterFunc(d, f)}
	}
	t := NewTimer(d)
	t.stop = MakeChan[struct{}](0)
	tm := t
	t.fn = GoNamed("afterfunc", func() {
		s := Select(false, nil, tm.C.RecvCase(), tm.stop.RecvCase())
		switch s.Index() {
		case 0:
			SelRecv(s, tm.C)
			f()
		default:
			SelRecv2(s, tm.stop)
		}
	})
	return t
}

// DrainTo removes buffered elements (oldest first) until at most keep are left and returns how many are left. For
// harness set-up code only: it is not a scheduling point (a state the harness starts from, not a step of the
// program under test).
func (c *Chan[T]) DrainTo(keep int) int {
	if c == nil {
		return 0
	}
	if mode != Controlled {
		for len(c.real) > keep {
			select {
			case <-c.real:
			default:
				return len(c.real)
			}
		}
		return len(c.real)
	}
	var zero T
	for c.core.n > keep && len(c.buf) > 0 {
		c.buf[0] = zero
		c.buf = c.buf[1:]
		c.core.n--
	}
	return c.core.n
}

// External wraps a channel that comes from outside the instrumented code (context.Done(), a notification channel of
// a library that is not rewritten) so that receiving from it - alone or in a select - is a scheduling point. In
// Controlled mode the real channel is probed without blocking whenever the scheduler asks whether the receive can
// proceed; a value taken out by a probe is kept for the receive. What happens inside the other package (who closes
// or sends, and when) is not modelled: only its effect on this channel is seen, at the points where it is asked for.
func External[T any](ch <-chan T) *Chan[T] {
	if ch == nil {
		return nil
	}
	c := &Chan[T]{ro: ch}
	if mode != Controlled {
		return c
	}
	if !sc.dead {
		c.core.obj.Fresh()
	}
	c.core.cap = 1
	c.core.ext = func() bool {
		if c.extHave {
			return true
		}
		select {
		case v, ok := <-ch:
			c.extV, c.extOK, c.extHave = v, ok, true
			return true
		default:
			return false
		}
	}
	return c
}
