// Package vatomic is the API-compatible replacement for sync/atomic in
// instrumented code: every operation is a scheduling point, then the real
// atomic operation.
package vatomic

import (
	"sync/atomic"
	"unsafe"

	rt "github.com/uber-go/tally/v4/verifrt"
)

// AddInt32 replaces atomic.AddInt32.
func AddInt32(addr *int32, delta int32) int32 {
	rt.AtomicPoint(true, unsafe.Pointer(addr))
	return atomic.AddInt32(addr, delta)
}

// LoadInt32 replaces atomic.LoadInt32.
func LoadInt32(addr *int32) int32 {
	rt.AtomicPoint(false, unsafe.Pointer(addr))
	return atomic.LoadInt32(addr)
}

// StoreInt32 replaces atomic.StoreInt32.
func StoreInt32(addr *int32, v int32) {
	rt.AtomicPoint(true, unsafe.Pointer(addr))
	atomic.StoreInt32(addr, v)
}

// SwapInt32 replaces atomic.SwapInt32.
func SwapInt32(addr *int32, v int32) int32 {
	rt.AtomicPoint(true, unsafe.Pointer(addr))
	return atomic.SwapInt32(addr, v)
}

// CompareAndSwapInt32 replaces atomic.CompareAndSwapInt32.
func CompareAndSwapInt32(addr *int32, old, new int32) bool {
	rt.AtomicPoint(true, unsafe.Pointer(addr))
	return atomic.CompareAndSwapInt32(addr, old, new)
}

// Int32 replaces atomic.Int32.
type Int32 struct {
	_ noCopy
	v atomic.Int32
}

// Load replaces (*atomic.Int32).Load.
func (x *Int32) Load() int32 { rt.AtomicPoint(false, unsafe.Pointer(x)); return x.v.Load() }

// Store replaces (*atomic.Int32).Store.
func (x *Int32) Store(v int32) { rt.AtomicPoint(true, unsafe.Pointer(x)); x.v.Store(v) }

// Swap replaces (*atomic.Int32).Swap.
func (x *Int32) Swap(v int32) int32 { rt.AtomicPoint(true, unsafe.Pointer(x)); return x.v.Swap(v) }

// CompareAndSwap replaces (*atomic.Int32).CompareAndSwap.
func (x *Int32) CompareAndSwap(old, new int32) bool {
	rt.AtomicPoint(true, unsafe.Pointer(x))
	return x.v.CompareAndSwap(old, new)
}

// Add replaces (*atomic.Int32).Add.
func (x *Int32) Add(d int32) int32 { rt.AtomicPoint(true, unsafe.Pointer(x)); return x.v.Add(d) }

// AddInt64 replaces atomic.AddInt64.
func AddInt64(addr *int64, delta int64) int64 {
	rt.AtomicPoint(true, unsafe.Pointer(addr))
	return atomic.AddInt64(addr, delta)
}

// LoadInt64 replaces atomic.LoadInt64.
func LoadInt64(addr *int64) int64 {
	rt.AtomicPoint(false, unsafe.Pointer(addr))
	return atomic.LoadInt64(addr)
}

// StoreInt64 replaces atomic.StoreInt64.
func StoreInt64(addr *int64, v int64) {
	rt.AtomicPoint(true, unsafe.Pointer(addr))
	atomic.StoreInt64(addr, v)
}

// SwapInt64 replaces atomic.SwapInt64.
func SwapInt64(addr *int64, v int64) int64 {
	rt.AtomicPoint(true, unsafe.Pointer(addr))
	return atomic.SwapInt64(addr, v)
}

// CompareAndSwapInt64 replaces atomic.CompareAndSwapInt64.
func CompareAndSwapInt64(addr *int64, old, new int64) bool {
	rt.AtomicPoint(true, unsafe.Pointer(addr))
	return atomic.CompareAndSwapInt64(addr, old, new)
}

// Int64 replaces atomic.Int64.
type Int64 struct {
	_ noCopy
	v atomic.Int64
}

// Load replaces (*atomic.Int64).Load.
func (x *Int64) Load() int64 { rt.AtomicPoint(false, unsafe.Pointer(x)); return x.v.Load() }

// Store replaces (*atomic.Int64).Store.
func (x *Int64) Store(v int64) { rt.AtomicPoint(true, unsafe.Pointer(x)); x.v.Store(v) }

// Swap replaces (*atomic.Int64).Swap.
func (x *Int64) Swap(v int64) int64 { rt.AtomicPoint(true, unsafe.Pointer(x)); return x.v.Swap(v) }

// CompareAndSwap replaces (*atomic.Int64).CompareAndSwap.
func (x *Int64) CompareAndSwap(old, new int64) bool {
	rt.AtomicPoint(true, unsafe.Pointer(x))
	return x.v.CompareAndSwap(old, new)
}

// Add replaces (*atomic.Int64).Add.
func (x *Int64) Add(d int64) int64 { rt.AtomicPoint(true, unsafe.Pointer(x)); return x.v.Add(d) }

// AddUint32 replaces atomic.AddUint32.
func AddUint32(addr *uint32, delta uint32) uint32 {
	rt.AtomicPoint(true, unsafe.Pointer(addr))
	return atomic.AddUint32(addr, delta)
}

// LoadUint32 replaces atomic.LoadUint32.
func LoadUint32(addr *uint32) uint32 {
	rt.AtomicPoint(false, unsafe.Pointer(addr))
	return atomic.LoadUint32(addr)
}

// StoreUint32 replaces atomic.StoreUint32.
func StoreUint32(addr *uint32, v uint32) {
	rt.AtomicPoint(true, unsafe.Pointer(addr))
	atomic.StoreUint32(addr, v)
}

// SwapUint32 replaces atomic.SwapUint32.
func SwapUint32(addr *uint32, v uint32) uint32 {
	rt.AtomicPoint(true, unsafe.Pointer(addr))
	return atomic.SwapUint32(addr, v)
}

// CompareAndSwapUint32 replaces atomic.CompareAndSwapUint32.
func CompareAndSwapUint32(addr *uint32, old, new uint32) bool {
	rt.AtomicPoint(true, unsafe.Pointer(addr))
	return atomic.CompareAndSwapUint32(addr, old, new)
}

// Uint32 replaces atomic.Uint32.
type Uint32 struct {
	_ noCopy
	v atomic.Uint32
}

// Load replaces (*atomic.Uint32).Load.
func (x *Uint32) Load() uint32 { rt.AtomicPoint(false, unsafe.Pointer(x)); return x.v.Load() }

// Store replaces (*atomic.Uint32).Store.
func (x *Uint32) Store(v uint32) { rt.AtomicPoint(true, unsafe.Pointer(x)); x.v.Store(v) }

// Swap replaces (*atomic.Uint32).Swap.
func (x *Uint32) Swap(v uint32) uint32 { rt.AtomicPoint(true, unsafe.Pointer(x)); return x.v.Swap(v) }

// CompareAndSwap replaces (*atomic.Uint32).CompareAndSwap.
func (x *Uint32) CompareAndSwap(old, new uint32) bool {
	rt.AtomicPoint(true, unsafe.Pointer(x))
	return x.v.CompareAndSwap(old, new)
}

// Add replaces (*atomic.Uint32).Add.
func (x *Uint32) Add(d uint32) uint32 { rt.AtomicPoint(true, unsafe.Pointer(x)); return x.v.Add(d) }

// AddUint64 replaces atomic.AddUint64.
func AddUint64(addr *uint64, delta uint64) uint64 {
	rt.AtomicPoint(true, unsafe.Pointer(addr))
	return atomic.AddUint64(addr, delta)
}

// LoadUint64 replaces atomic.LoadUint64.
func LoadUint64(addr *uint64) uint64 {
	rt.AtomicPoint(false, unsafe.Pointer(addr))
	return atomic.LoadUint64(addr)
}

// StoreUint64 replaces atomic.StoreUint64.
func StoreUint64(addr *uint64, v uint64) {
	rt.AtomicPoint(true, unsafe.Pointer(addr))
	atomic.StoreUint64(addr, v)
}

// SwapUint64 replaces atomic.SwapUint64.
func SwapUint64(addr *uint64, v uint64) uint64 {
	rt.AtomicPoint(true, unsafe.Pointer(addr))
	return atomic.SwapUint64(addr, v)
}

// CompareAndSwapUint64 replaces atomic.CompareAndSwapUint64.
func CompareAndSwapUint64(addr *uint64, old, new uint64) bool {
	rt.AtomicPoint(true, unsafe.Pointer(addr))
	return atomic.CompareAndSwapUint64(addr, old, new)
}

// Uint64 replaces atomic.Uint64.
type Uint64 struct {
	_ noCopy
	v atomic.Uint64
}

// Load replaces (*atomic.Uint64).Load.
func (x *Uint64) Load() uint64 { rt.AtomicPoint(false, unsafe.Pointer(x)); return x.v.Load() }

// Store replaces (*atomic.Uint64).Store.
func (x *Uint64) Store(v uint64) { rt.AtomicPoint(true, unsafe.Pointer(x)); x.v.Store(v) }

// Swap replaces (*atomic.Uint64).Swap.
func (x *Uint64) Swap(v uint64) uint64 { rt.AtomicPoint(true, unsafe.Pointer(x)); return x.v.Swap(v) }

// CompareAndSwap replaces (*atomic.Uint64).CompareAndSwap.
func (x *Uint64) CompareAndSwap(old, new uint64) bool {
	rt.AtomicPoint(true, unsafe.Pointer(x))
	return x.v.CompareAndSwap(old, new)
}

// Add replaces (*atomic.Uint64).Add.
func (x *Uint64) Add(d uint64) uint64 { rt.AtomicPoint(true, unsafe.Pointer(x)); return x.v.Add(d) }

// AddUintptr replaces atomic.AddUintptr.
func AddUintptr(addr *uintptr, delta uintptr) uintptr {
	rt.AtomicPoint(true, unsafe.Pointer(addr))
	return atomic.AddUintptr(addr, delta)
}

// LoadUintptr replaces atomic.LoadUintptr.
func LoadUintptr(addr *uintptr) uintptr {
	rt.AtomicPoint(false, unsafe.Pointer(addr))
	return atomic.LoadUintptr(addr)
}

// StoreUintptr replaces atomic.StoreUintptr.
func StoreUintptr(addr *uintptr, v uintptr) {
	rt.AtomicPoint(true, unsafe.Pointer(addr))
	atomic.StoreUintptr(addr, v)
}

// SwapUintptr replaces atomic.SwapUintptr.
func SwapUintptr(addr *uintptr, v uintptr) uintptr {
	rt.AtomicPoint(true, unsafe.Pointer(addr))
	return atomic.SwapUintptr(addr, v)
}

// CompareAndSwapUintptr replaces atomic.CompareAndSwapUintptr.
func CompareAndSwapUintptr(addr *uintptr, old, new uintptr) bool {
	rt.AtomicPoint(true, unsafe.Pointer(addr))
	return atomic.CompareAndSwapUintptr(addr, old, new)
}

type noCopy struct{}

func (*noCopy) Lock()   {}
func (*noCopy) Unlock() {}

// LoadPointer replaces atomic.LoadPointer.
func LoadPointer(addr *unsafe.Pointer) unsafe.Pointer {
	rt.AtomicPoint(false, unsafe.Pointer(addr))
	return atomic.LoadPointer(addr)
}

// StorePointer replaces atomic.StorePointer.
func StorePointer(addr *unsafe.Pointer, v unsafe.Pointer) {
	rt.AtomicPoint(true, unsafe.Pointer(addr))
	atomic.StorePointer(addr, v)
}

// SwapPointer replaces atomic.SwapPointer.
func SwapPointer(addr *unsafe.Pointer, v unsafe.Pointer) unsafe.Pointer {
	rt.AtomicPoint(true, unsafe.Pointer(addr))
	return atomic.SwapPointer(addr, v)
}

// CompareAndSwapPointer replaces atomic.CompareAndSwapPointer.
func CompareAndSwapPointer(addr *unsafe.Pointer, old, new unsafe.Pointer) bool {
	rt.AtomicPoint(true, unsafe.Pointer(addr))
	return atomic.CompareAndSwapPointer(addr, old, new)
}

// Bool replaces atomic.Bool.
type Bool struct {
	_ noCopy
	v atomic.Bool
}

// Load replaces (*atomic.Bool).Load.
func (x *Bool) Load() bool { rt.AtomicPoint(false, unsafe.Pointer(x)); return x.v.Load() }

// Store replaces (*atomic.Bool).Store.
func (x *Bool) Store(v bool) { rt.AtomicPoint(true, unsafe.Pointer(x)); x.v.Store(v) }

// Swap replaces (*atomic.Bool).Swap.
func (x *Bool) Swap(v bool) bool { rt.AtomicPoint(true, unsafe.Pointer(x)); return x.v.Swap(v) }

// CompareAndSwap replaces (*atomic.Bool).CompareAndSwap.
func (x *Bool) CompareAndSwap(old, new bool) bool {
	rt.AtomicPoint(true, unsafe.Pointer(x))
	return x.v.CompareAndSwap(old, new)
}

// Value replaces atomic.Value.
type Value struct {
	v atomic.Value
}

// Load replaces (*atomic.Value).Load.
func (x *Value) Load() interface{} { rt.AtomicPoint(false, unsafe.Pointer(x)); return x.v.Load() }

// Store replaces (*atomic.Value).Store.
func (x *Value) Store(v interface{}) { rt.AtomicPoint(true, unsafe.Pointer(x)); x.v.Store(v) }

// Swap replaces (*atomic.Value).Swap.
func (x *Value) Swap(v interface{}) interface{} {
	rt.AtomicPoint(true, unsafe.Pointer(x))
	return x.v.Swap(v)
}

// CompareAndSwap replaces (*atomic.Value).CompareAndSwap.
func (x *Value) CompareAndSwap(old, new interface{}) bool {
	rt.AtomicPoint(true, unsafe.Pointer(x))
	return x.v.CompareAndSwap(old, new)
}

// Pointer replaces atomic.Pointer.
type Pointer[T any] struct {
	_ noCopy
	v atomic.Pointer[T]
}

// Load replaces (*atomic.Pointer).Load.
func (x *Pointer[T]) Load() *T { rt.AtomicPoint(false, unsafe.Pointer(x)); return x.v.Load() }

// Store replaces (*atomic.Pointer).Store.
func (x *Pointer[T]) Store(v *T) { rt.AtomicPoint(true, unsafe.Pointer(x)); x.v.Store(v) }

// Swap replaces (*atomic.Pointer).Swap.
func (x *Pointer[T]) Swap(v *T) *T { rt.AtomicPoint(true, unsafe.Pointer(x)); return x.v.Swap(v) }

// CompareAndSwap replaces (*atomic.Pointer).CompareAndSwap.
func (x *Pointer[T]) CompareAndSwap(old, new *T) bool {
	rt.AtomicPoint(true, unsafe.Pointer(x))
	return x.v.CompareAndSwap(old, new)
}
