package verifrt

var poolResets []func()

// RegisterReset registers a one-shot function run before the next controlled
// execution starts (pools use it to drop what they hold).
func RegisterReset(f func()) { poolResets = append(poolResets, f) }

func resetPools() {
	rs := poolResets
	poolResets = nil
	for _, f := range rs {
		f()
	}
}
