// Package vmaphash replaces hash/maphash in instrumented code with a
// deterministic (fixed-seed FNV-1a) implementation, so that shard choice
// does not vary between executions.
package vmaphash

// Seed replaces maphash.Seed.
type Seed struct{ s uint64 }

// MakeSeed replaces maphash.MakeSeed; the seed is fixed.
func MakeSeed() Seed { return Seed{s: 0xcbf29ce484222325} }

// Hash replaces maphash.Hash.
type Hash struct {
	seed Seed
	h    uint64
	init bool
}

func (h *Hash) start() {
	if !h.init {
		if h.seed.s == 0 {
			h.seed = MakeSeed()
		}
		h.h = h.seed.s
		h.init = true
	}
}

// SetSeed replaces (*maphash.Hash).SetSeed.
func (h *Hash) SetSeed(s Seed) { h.seed = s; h.init = false }

// Seed replaces (*maphash.Hash).Seed.
func (h *Hash) Seed() Seed { h.start(); return h.seed }

// Reset replaces (*maphash.Hash).Reset.
func (h *Hash) Reset() { h.init = false }

// Write replaces (*maphash.Hash).Write.
func (h *Hash) Write(b []byte) (int, error) {
	h.start()
	for _, c := range b {
		h.h ^= uint64(c)
		h.h *= 0x100000001b3
	}
	return len(b), nil
}

// WriteString replaces (*maphash.Hash).WriteString.
func (h *Hash) WriteString(s string) (int, error) {
	h.start()
	for i := 0; i < len(s); i++ {
		h.h ^= uint64(s[i])
		h.h *= 0x100000001b3
	}
	return len(s), nil
}

// WriteByte replaces (*maphash.Hash).WriteByte.
func (h *Hash) WriteByte(b byte) error {
	h.start()
	h.h ^= uint64(b)
	h.h *= 0x100000001b3
	return nil
}

// Sum64 replaces (*maphash.Hash).Sum64.
func (h *Hash) Sum64() uint64 {
	h.start()
	x := h.h
	x ^= x >> 32
	x *= 0xd6e8feb86659fd93
	x ^= x >> 32
	return x
}

// Bytes replaces maphash.Bytes.
func Bytes(s Seed, b []byte) uint64 {
	var h Hash
	h.SetSeed(s)
	_, _ = h.Write(b)
	return h.Sum64()
}

// String replaces maphash.String.
func String(s Seed, str string) uint64 {
	var h Hash
	h.SetSeed(s)
	_, _ = h.WriteString(str)
	return h.Sum64()
}
