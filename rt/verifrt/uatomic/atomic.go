// Package uatomic is the API-compatible replacement for go.uber.org/atomic
// in instrumented code.
package uatomic

import (
	"math"
	"sync/atomic"
	"time"
	"unsafe"

	rt "github.com/uber-go/tally/v4/verifrt"
)

type nocmp [0]func()

// Int32 replaces atomic.Int32.
type Int32 struct {
	_ nocmp
	v int32
}

// NewInt32 replaces atomic.NewInt32.
func NewInt32(v int32) *Int32 { return &Int32{v: v} }

// Load replaces Load.
func (x *Int32) Load() int32 { rt.AtomicPoint(false, unsafe.Pointer(x)); return atomic.LoadInt32(&x.v) }

// Store replaces Store.
func (x *Int32) Store(v int32) { rt.AtomicPoint(true, unsafe.Pointer(x)); atomic.StoreInt32(&x.v, v) }

// Swap replaces Swap.
func (x *Int32) Swap(v int32) int32 {
	rt.AtomicPoint(true, unsafe.Pointer(x))
	return atomic.SwapInt32(&x.v, v)
}

// Add replaces Add.
func (x *Int32) Add(d int32) int32 {
	rt.AtomicPoint(true, unsafe.Pointer(x))
	return atomic.AddInt32(&x.v, d)
}

// Sub replaces Sub.
func (x *Int32) Sub(d int32) int32 {
	rt.AtomicPoint(true, unsafe.Pointer(x))
	return atomic.AddInt32(&x.v, -d)
}

// Inc replaces Inc.
func (x *Int32) Inc() int32 { return x.Add(1) }

// Dec replaces Dec.
func (x *Int32) Dec() int32 { return x.Sub(1) }

// CAS replaces CAS.
func (x *Int32) CAS(old, new int32) bool { return x.CompareAndSwap(old, new) }

// CompareAndSwap replaces CompareAndSwap.
func (x *Int32) CompareAndSwap(old, new int32) bool {
	rt.AtomicPoint(true, unsafe.Pointer(x))
	return atomic.CompareAndSwapInt32(&x.v, old, new)
}

// Int64 replaces atomic.Int64.
type Int64 struct {
	_ nocmp
	v int64
}

// NewInt64 replaces atomic.NewInt64.
func NewInt64(v int64) *Int64 { return &Int64{v: v} }

// Load replaces Load.
func (x *Int64) Load() int64 { rt.AtomicPoint(false, unsafe.Pointer(x)); return atomic.LoadInt64(&x.v) }

// Store replaces Store.
func (x *Int64) Store(v int64) { rt.AtomicPoint(true, unsafe.Pointer(x)); atomic.StoreInt64(&x.v, v) }

// Swap replaces Swap.
func (x *Int64) Swap(v int64) int64 {
	rt.AtomicPoint(true, unsafe.Pointer(x))
	return atomic.SwapInt64(&x.v, v)
}

// Add replaces Add.
func (x *Int64) Add(d int64) int64 {
	rt.AtomicPoint(true, unsafe.Pointer(x))
	return atomic.AddInt64(&x.v, d)
}

// Sub replaces Sub.
func (x *Int64) Sub(d int64) int64 {
	rt.AtomicPoint(true, unsafe.Pointer(x))
	return atomic.AddInt64(&x.v, -d)
}

// Inc replaces Inc.
func (x *Int64) Inc() int64 { return x.Add(1) }

// Dec replaces Dec.
func (x *Int64) Dec() int64 { return x.Sub(1) }

// CAS replaces CAS.
func (x *Int64) CAS(old, new int64) bool { return x.CompareAndSwap(old, new) }

// CompareAndSwap replaces CompareAndSwap.
func (x *Int64) CompareAndSwap(old, new int64) bool {
	rt.AtomicPoint(true, unsafe.Pointer(x))
	return atomic.CompareAndSwapInt64(&x.v, old, new)
}

// Uint32 replaces atomic.Uint32.
type Uint32 struct {
	_ nocmp
	v uint32
}

// NewUint32 replaces atomic.NewUint32.
func NewUint32(v uint32) *Uint32 { return &Uint32{v: v} }

// Load replaces Load.
func (x *Uint32) Load() uint32 {
	rt.AtomicPoint(false, unsafe.Pointer(x))
	return atomic.LoadUint32(&x.v)
}

// Store replaces Store.
func (x *Uint32) Store(v uint32) {
	rt.AtomicPoint(true, unsafe.Pointer(x))
	atomic.StoreUint32(&x.v, v)
}

// Swap replaces Swap.
func (x *Uint32) Swap(v uint32) uint32 {
	rt.AtomicPoint(true, unsafe.Pointer(x))
	return atomic.SwapUint32(&x.v, v)
}

// Add replaces Add.
func (x *Uint32) Add(d uint32) uint32 {
	rt.AtomicPoint(true, unsafe.Pointer(x))
	return atomic.AddUint32(&x.v, d)
}

// Sub replaces Sub.
func (x *Uint32) Sub(d uint32) uint32 {
	rt.AtomicPoint(true, unsafe.Pointer(x))
	return atomic.AddUint32(&x.v, ^(d - 1))
}

// Inc replaces Inc.
func (x *Uint32) Inc() uint32 { return x.Add(1) }

// Dec replaces Dec.
func (x *Uint32) Dec() uint32 { return x.Sub(1) }

// CAS replaces CAS.
func (x *Uint32) CAS(old, new uint32) bool { return x.CompareAndSwap(old, new) }

// CompareAndSwap replaces CompareAndSwap.
func (x *Uint32) CompareAndSwap(old, new uint32) bool {
	rt.AtomicPoint(true, unsafe.Pointer(x))
	return atomic.CompareAndSwapUint32(&x.v, old, new)
}

// Uint64 replaces atomic.Uint64.
type Uint64 struct {
	_ nocmp
	v uint64
}

// NewUint64 replaces atomic.NewUint64.
func NewUint64(v uint64) *Uint64 { return &Uint64{v: v} }

// Load replaces Load.
func (x *Uint64) Load() uint64 {
	rt.AtomicPoint(false, unsafe.Pointer(x))
	return atomic.LoadUint64(&x.v)
}

// Store replaces Store.
func (x *Uint64) Store(v uint64) {
	rt.AtomicPoint(true, unsafe.Pointer(x))
	atomic.StoreUint64(&x.v, v)
}

// Swap replaces Swap.
func (x *Uint64) Swap(v uint64) uint64 {
	rt.AtomicPoint(true, unsafe.Pointer(x))
	return atomic.SwapUint64(&x.v, v)
}

// Add replaces Add.
func (x *Uint64) Add(d uint64) uint64 {
	rt.AtomicPoint(true, unsafe.Pointer(x))
	return atomic.AddUint64(&x.v, d)
}

// Sub replaces Sub.
func (x *Uint64) Sub(d uint64) uint64 {
	rt.AtomicPoint(true, unsafe.Pointer(x))
	return atomic.AddUint64(&x.v, ^(d - 1))
}

// Inc replaces Inc.
func (x *Uint64) Inc() uint64 { return x.Add(1) }

// Dec replaces Dec.
func (x *Uint64) Dec() uint64 { return x.Sub(1) }

// CAS replaces CAS.
func (x *Uint64) CAS(old, new uint64) bool { return x.CompareAndSwap(old, new) }

// CompareAndSwap replaces CompareAndSwap.
func (x *Uint64) CompareAndSwap(old, new uint64) bool {
	rt.AtomicPoint(true, unsafe.Pointer(x))
	return atomic.CompareAndSwapUint64(&x.v, old, new)
}

// Bool replaces atomic.Bool.
type Bool struct {
	_ nocmp
	v uint32
}

func b2i(b bool) uint32 {
	if b {
		return 1
	}
	return 0
}

// NewBool replaces atomic.NewBool.
func NewBool(v bool) *Bool { return &Bool{v: b2i(v)} }

// Load replaces Load.
func (x *Bool) Load() bool {
	rt.AtomicPoint(false, unsafe.Pointer(x))
	return atomic.LoadUint32(&x.v) == 1
}

// Store replaces Store.
func (x *Bool) Store(v bool) {
	rt.AtomicPoint(true, unsafe.Pointer(x))
	atomic.StoreUint32(&x.v, b2i(v))
}

// Swap replaces Swap.
func (x *Bool) Swap(v bool) bool {
	rt.AtomicPoint(true, unsafe.Pointer(x))
	return atomic.SwapUint32(&x.v, b2i(v)) == 1
}

// CAS replaces CAS.
func (x *Bool) CAS(old, new bool) bool { return x.CompareAndSwap(old, new) }

// CompareAndSwap replaces CompareAndSwap.
func (x *Bool) CompareAndSwap(old, new bool) bool {
	rt.AtomicPoint(true, unsafe.Pointer(x))
	return atomic.CompareAndSwapUint32(&x.v, b2i(old), b2i(new))
}

// Toggle replaces Toggle.
func (x *Bool) Toggle() bool {
	for {
		old := x.Load()
		if x.CAS(old, !old) {
			return old
		}
	}
}

// Float64 replaces atomic.Float64.
type Float64 struct {
	_ nocmp
	v uint64
}

// NewFloat64 replaces atomic.NewFloat64.
func NewFloat64(v float64) *Float64 { return &Float64{v: math.Float64bits(v)} }

// Load replaces Load.
func (x *Float64) Load() float64 {
	rt.AtomicPoint(false, unsafe.Pointer(x))
	return math.Float64frombits(atomic.LoadUint64(&x.v))
}

// Store replaces Store.
func (x *Float64) Store(v float64) {
	rt.AtomicPoint(true, unsafe.Pointer(x))
	atomic.StoreUint64(&x.v, math.Float64bits(v))
}

// Swap replaces Swap.
func (x *Float64) Swap(v float64) float64 {
	rt.AtomicPoint(true, unsafe.Pointer(x))
	return math.Float64frombits(atomic.SwapUint64(&x.v, math.Float64bits(v)))
}

// CAS replaces CAS.
func (x *Float64) CAS(old, new float64) bool { return x.CompareAndSwap(old, new) }

// CompareAndSwap replaces CompareAndSwap.
func (x *Float64) CompareAndSwap(old, new float64) bool {
	rt.AtomicPoint(true, unsafe.Pointer(x))
	return atomic.CompareAndSwapUint64(&x.v, math.Float64bits(old), math.Float64bits(new))
}

// Add replaces Add.
func (x *Float64) Add(d float64) float64 {
	for {
		old := x.Load()
		if x.CAS(old, old+d) {
			return old + d
		}
	}
}

// Duration replaces atomic.Duration.
type Duration struct {
	_ nocmp
	v int64
}

// NewDuration replaces atomic.NewDuration.
func NewDuration(v time.Duration) *Duration { return &Duration{v: int64(v)} }

// Load replaces Load.
func (x *Duration) Load() time.Duration {
	rt.AtomicPoint(false, unsafe.Pointer(x))
	return time.Duration(atomic.LoadInt64(&x.v))
}

// Store replaces Store.
func (x *Duration) Store(v time.Duration) {
	rt.AtomicPoint(true, unsafe.Pointer(x))
	atomic.StoreInt64(&x.v, int64(v))
}

// Add replaces Add.
func (x *Duration) Add(d time.Duration) time.Duration {
	rt.AtomicPoint(true, unsafe.Pointer(x))
	return time.Duration(atomic.AddInt64(&x.v, int64(d)))
}

// Swap replaces Swap.
func (x *Duration) Swap(v time.Duration) time.Duration {
	rt.AtomicPoint(true, unsafe.Pointer(x))
	return time.Duration(atomic.SwapInt64(&x.v, int64(v)))
}

// CAS replaces CAS.
func (x *Duration) CAS(old, new time.Duration) bool {
	rt.AtomicPoint(true, unsafe.Pointer(x))
	return atomic.CompareAndSwapInt64(&x.v, int64(old), int64(new))
}

// CompareAndSwap replaces CompareAndSwap.
func (x *Duration) CompareAndSwap(old, new time.Duration) bool { return x.CAS(old, new) }

// Value replaces atomic.Value.
type Value struct {
	_ nocmp
	v atomic.Value
}

// Load replaces Load.
func (x *Value) Load() interface{} { rt.AtomicPoint(false, unsafe.Pointer(x)); return x.v.Load() }

// Store replaces Store.
func (x *Value) Store(v interface{}) { rt.AtomicPoint(true, unsafe.Pointer(x)); x.v.Store(v) }

// String replaces atomic.String.
type String struct {
	_ nocmp
	v atomic.Value
}

// NewString replaces atomic.NewString.
func NewString(s string) *String { x := &String{}; x.v.Store(s); return x }

// Load replaces Load.
func (x *String) Load() string {
	rt.AtomicPoint(false, unsafe.Pointer(x))
	s, _ := x.v.Load().(string)
	return s
}

// Store replaces Store.
func (x *String) Store(s string) { rt.AtomicPoint(true, unsafe.Pointer(x)); x.v.Store(s) }
