package uatomic

// The rest of go.uber.org/atomic v1.11's surface (a change to the library may start using any of it): Pointer[T],
// Error, Time, Uintptr, UnsafePointer, and the methods the first file left out. Every access is a scheduling point
// recorded as a read or a write of the variable, like the others.

import (
	"encoding/json"
	"fmt"
	"strconv"
	"sync/atomic"
	"time"
	"unsafe"

	rt "github.com/uber-go/tally/v4/verifrt"
)

// ---- Pointer[T]

// Pointer replaces atomic.Pointer[T].
type Pointer[T any] struct {
	_ nocmp
	p atomic.Pointer[T]
}

// NewPointer replaces atomic.NewPointer.
func NewPointer[T any](v *T) *Pointer[T] {
	var p Pointer[T]
	if v != nil {
		p.p.Store(v)
	}
	return &p
}

func (p *Pointer[T]) Load() *T { rt.AtomicPoint(false, unsafe.Pointer(p)); return p.p.Load() }
func (p *Pointer[T]) Store(val *T) {
	rt.AtomicPoint(true, unsafe.Pointer(p))
	p.p.Store(val)
}
func (p *Pointer[T]) Swap(val *T) (old *T) {
	rt.AtomicPoint(true, unsafe.Pointer(p))
	return p.p.Swap(val)
}
func (p *Pointer[T]) CompareAndSwap(old, new *T) (swapped bool) {
	rt.AtomicPoint(true, unsafe.Pointer(p))
	return p.p.CompareAndSwap(old, new)
}
func (p *Pointer[T]) String() string { return fmt.Sprint(p.Load()) }

// ---- Error

type packedError struct{ Value error }

// Error replaces atomic.Error.
type Error struct {
	_ nocmp
	v atomic.Value
}

// NewError replaces atomic.NewError.
func NewError(val error) *Error {
	x := &Error{}
	if val != nil {
		x.v.Store(packedError{val})
	}
	return x
}

func unpackErr(v interface{}) error {
	if e, ok := v.(packedError); ok {
		return e.Value
	}
	return nil
}

func (x *Error) Load() error { rt.AtomicPoint(false, unsafe.Pointer(x)); return unpackErr(x.v.Load()) }
func (x *Error) Store(val error) {
	rt.AtomicPoint(true, unsafe.Pointer(x))
	x.v.Store(packedError{val})
}
func (x *Error) Swap(val error) (old error) {
	rt.AtomicPoint(true, unsafe.Pointer(x))
	return unpackErr(x.v.Swap(packedError{val}))
}
func (x *Error) CompareAndSwap(old, new error) (swapped bool) {
	rt.AtomicPoint(true, unsafe.Pointer(x))
	if x.v.CompareAndSwap(packedError{old}, packedError{new}) {
		return true
	}
	if old == nil {
		// nothing stored yet
		return x.v.CompareAndSwap(nil, packedError{new})
	}
	return false
}

// ---- Time

// Time replaces atomic.Time.
type Time struct {
	_ nocmp
	v atomic.Value
}

// NewTime replaces atomic.NewTime.
func NewTime(val time.Time) *Time { x := &Time{}; x.v.Store(val); return x }

func (x *Time) Load() time.Time {
	rt.AtomicPoint(false, unsafe.Pointer(x))
	t, _ := x.v.Load().(time.Time)
	return t
}
func (x *Time) Store(val time.Time) { rt.AtomicPoint(true, unsafe.Pointer(x)); x.v.Store(val) }

// ---- Uintptr

// Uintptr replaces atomic.Uintptr.
type Uintptr struct {
	_ nocmp
	v uintptr
}

// NewUintptr replaces atomic.NewUintptr.
func NewUintptr(val uintptr) *Uintptr { return &Uintptr{v: val} }

func (i *Uintptr) Load() uintptr {
	rt.AtomicPoint(false, unsafe.Pointer(i))
	return atomic.LoadUintptr(&i.v)
}
func (i *Uintptr) Store(val uintptr) {
	rt.AtomicPoint(true, unsafe.Pointer(i))
	atomic.StoreUintptr(&i.v, val)
}
func (i *Uintptr) Swap(val uintptr) (old uintptr) {
	rt.AtomicPoint(true, unsafe.Pointer(i))
	return atomic.SwapUintptr(&i.v, val)
}
func (i *Uintptr) Add(delta uintptr) uintptr {
	rt.AtomicPoint(true, unsafe.Pointer(i))
	return atomic.AddUintptr(&i.v, delta)
}
func (i *Uintptr) Sub(delta uintptr) uintptr {
	rt.AtomicPoint(true, unsafe.Pointer(i))
	return atomic.AddUintptr(&i.v, ^(delta - 1))
}
func (i *Uintptr) Inc() uintptr                        { return i.Add(1) }
func (i *Uintptr) Dec() uintptr                        { return i.Sub(1) }
func (i *Uintptr) CAS(old, new uintptr) (swapped bool) { return i.CompareAndSwap(old, new) }
func (i *Uintptr) CompareAndSwap(old, new uintptr) (swapped bool) {
	rt.AtomicPoint(true, unsafe.Pointer(i))
	return atomic.CompareAndSwapUintptr(&i.v, old, new)
}
func (i *Uintptr) MarshalJSON() ([]byte, error) { return json.Marshal(i.Load()) }
func (i *Uintptr) UnmarshalJSON(b []byte) error {
	var v uintptr
	if err := json.Unmarshal(b, &v); err != nil {
		return err
	}
	i.Store(v)
	return nil
}
func (i *Uintptr) String() string { return strconv.FormatUint(uint64(i.Load()), 10) }

// ---- UnsafePointer

// UnsafePointer replaces atomic.UnsafePointer.
type UnsafePointer struct {
	_ nocmp
	v unsafe.Pointer
}

// NewUnsafePointer replaces atomic.NewUnsafePointer.
func NewUnsafePointer(val unsafe.Pointer) *UnsafePointer { return &UnsafePointer{v: val} }

func (p *UnsafePointer) Load() unsafe.Pointer {
	rt.AtomicPoint(false, unsafe.Pointer(p))
	return atomic.LoadPointer(&p.v)
}
func (p *UnsafePointer) Store(val unsafe.Pointer) {
	rt.AtomicPoint(true, unsafe.Pointer(p))
	atomic.StorePointer(&p.v, val)
}
func (p *UnsafePointer) Swap(val unsafe.Pointer) (old unsafe.Pointer) {
	rt.AtomicPoint(true, unsafe.Pointer(p))
	return atomic.SwapPointer(&p.v, val)
}
func (p *UnsafePointer) CAS(old, new unsafe.Pointer) (swapped bool) {
	return p.CompareAndSwap(old, new)
}
func (p *UnsafePointer) CompareAndSwap(old, new unsafe.Pointer) (swapped bool) {
	rt.AtomicPoint(true, unsafe.Pointer(p))
	return atomic.CompareAndSwapPointer(&p.v, old, new)
}

// ---- methods the first file left out

func (x *Bool) MarshalJSON() ([]byte, error) { return json.Marshal(x.Load()) }
func (x *Bool) UnmarshalJSON(b []byte) error {
	var v bool
	if err := json.Unmarshal(b, &v); err != nil {
		return err
	}
	x.Store(v)
	return nil
}
func (x *Bool) String() string { return strconv.FormatBool(x.Load()) }

func (x *Duration) Sub(d time.Duration) time.Duration { return x.Add(-d) }
func (x *Duration) MarshalJSON() ([]byte, error)      { return json.Marshal(x.Load()) }
func (x *Duration) UnmarshalJSON(b []byte) error {
	var v time.Duration
	if err := json.Unmarshal(b, &v); err != nil {
		return err
	}
	x.Store(v)
	return nil
}
func (x *Duration) String() string { return x.Load().String() }

func (x *String) Swap(val string) (old string) {
	rt.AtomicPoint(true, unsafe.Pointer(x))
	s, _ := x.v.Swap(val).(string)
	return s
}
func (x *String) CompareAndSwap(old, new string) (swapped bool) {
	rt.AtomicPoint(true, unsafe.Pointer(x))
	if x.v.CompareAndSwap(old, new) {
		return true
	}
	if old == "" {
		// nothing stored yet
		return x.v.CompareAndSwap(nil, new)
	}
	return false
}
func (x *String) String() string               { return x.Load() }
func (x *String) MarshalText() ([]byte, error) { return []byte(x.Load()), nil }
func (x *String) UnmarshalText(b []byte) error { x.Store(string(b)); return nil }

func (x *Value) Swap(val interface{}) (old interface{}) {
	rt.AtomicPoint(true, unsafe.Pointer(x))
	return x.v.Swap(val)
}
func (x *Value) CompareAndSwap(old, new interface{}) (swapped bool) {
	rt.AtomicPoint(true, unsafe.Pointer(x))
	return x.v.CompareAndSwap(old, new)
}
