package verifrt

import "sort"

// Ordered is the constraint of map key types whose iteration is made deterministic.
type Ordered interface {
	~int | ~int8 | ~int16 | ~int32 | ~int64 | ~uint | ~uint8 | ~uint16 | ~uint32 | ~uint64 | ~uintptr | ~float32 | ~float64 | ~string
}

// MapIterator iterates a map in a fixed key order (see mapOrder) over a snapshot of its
// keys, skipping keys deleted in the meantime and reading each value at the
// time it is visited - one of the iteration orders Go permits.
type MapIterator[M ~map[K]V, K Ordered, V any] struct {
	m    M
	keys []K
	i    int
	k    K
	v    V
}

// IterMap replaces `for k, v := range m` in instrumented code.
func IterMap[M ~map[K]V, K Ordered, V any](m M) *MapIterator[M, K, V] {
	it := &MapIterator[M, K, V]{m: m}
	if len(m) > 0 {
		it.keys = make([]K, 0, len(m))
		for k := range m {
			it.keys = append(it.keys, k)
		}
		ks := it.keys
		sort.Slice(ks, func(i, j int) bool { return ks[i] < ks[j] })
		switch mapOrder {
		case 1: // descending
			for i, j := 0, len(ks)-1; i < j; i, j = i+1, j-1 {
				ks[i], ks[j] = ks[j], ks[i]
			}
		case 2: // starting in the middle, wrapping around (what a random start offset gives)
			r := len(ks) / 2
			rot := append(append(make([]K, 0, len(ks)), ks[r:]...), ks[:r]...)
			copy(ks, rot)
		}
	}
	return it
}

// mapOrder selects which of the iteration orders Go permits the instrumented code sees: 0 ascending keys,
// 1 descending, 2 ascending from the middle. It is fixed for a whole exploration (same schedule, same order).
var mapOrder int

// SetMapOrder sets the map iteration order for all following executions.
func SetMapOrder(o int) { mapOrder = ((o % 3) + 3) % 3 }

// Next advances to the next key that is still present.
func (it *MapIterator[M, K, V]) Next() bool {
	for it.i < len(it.keys) {
		k := it.keys[it.i]
		it.i++
		if v, ok := it.m[k]; ok {
			it.k, it.v = k, v
			return true
		}
	}
	return false
}

// Key returns the current key.
func (it *MapIterator[M, K, V]) Key() K { return it.k }

// Value returns the current value.
func (it *MapIterator[M, K, V]) Value() V { return it.v }
