// Command instrument rewrites tally's concurrency-relevant packages so that
// every synchronisation operation goes through the verifrt runtime, and
// emits a `go build -overlay` file. /repo is never modified.
//
//	instrument -repo /repo -verif /verif -out /verif/.build/inst
//
// produces out/overlay_plain.json (verifrt + injected export files only) and
// out/overlay_inst.json (additionally the rewritten sources).
package main

import (
	"bytes"
	"encoding/json"
	"flag"
	"fmt"
	"go/ast"
	"go/format"
	"go/token"
	"go/types"
	"os"
	"path/filepath"
	"sort"
	"strconv"
	"strings"

	"golang.org/x/tools/go/ast/astutil"
	"golang.org/x/tools/go/packages"
)

const modPath = "github.com/uber-go/tally/v4"
const rtPath = modPath + "/verifrt"

var importMap = map[string][2]string{
	"sync":               {rtPath + "/vsync", "sync"},
	"sync/atomic":        {rtPath + "/vatomic", "atomic"},
	"go.uber.org/atomic": {rtPath + "/uatomic", "atomic"},
	"hash/maphash":       {rtPath + "/vmaphash", "maphash"},
}

// selector rewrites: pkgpath.Name -> verifrt.Name
var selMap = map[string]string{
	"time.NewTicker":  "NewTicker",
	"time.Ticker":     "Ticker",
	"time.NewTimer":   "NewTimer",
	"time.Timer":      "Timer",
	"time.After":      "After",
	"time.AfterFunc":  "AfterFunc",
	"time.Tick":       "Tick",
	"time.Now":        "Now",
	"time.Sleep":      "Sleep",
	"runtime.Gosched": "Yield",
}

var selForbidden = map[string]bool{}

// instrumentedPkgs: import paths of the packages being rewritten (channels made there are *verifrt.Chan values;
// a channel that a call into any other package returns is a real one and gets wrapped, see externalChanCall)
var instrumentedPkgs = map[string]bool{}

func fatalf(f string, a ...interface{}) {
	fmt.Fprintf(os.Stderr, "instrument: "+f+"\n", a...)
	os.Exit(2)
}

func main() {
	repo := flag.String("repo", "/repo", "repository root")
	verif := flag.String("verif", "/verif", "verif root")
	out := flag.String("out", "", "output directory")
	pkgsFlag := flag.String("pkgs", ".,./m3,./internal/cache,./prometheus", "packages to instrument")
	flag.Parse()
	if *out == "" {
		fatalf("-out required")
	}
	if err := os.MkdirAll(*out, 0o755); err != nil {
		fatalf("%v", err)
	}
	plain := map[string]string{}
	// virtual runtime package
	rtRoot := filepath.Join(*verif, "rt", "verifrt")
	_ = filepath.Walk(rtRoot, func(p string, fi os.FileInfo, err error) error {
		if err != nil || fi.IsDir() || !strings.HasSuffix(p, ".go") {
			return nil
		}
		rel, _ := filepath.Rel(rtRoot, p)
		plain[filepath.Join(*repo, "verifrt", rel)] = p
		return nil
	})
	// injected export files: inject/<pkgdir with / replaced by __>/file.go
	injRoot := filepath.Join(*verif, "inject")
	ents, _ := os.ReadDir(injRoot)
	for _, e := range ents {
		if !e.IsDir() {
			continue
		}
		pkgDir := strings.ReplaceAll(e.Name(), "__", "/")
		if pkgDir == "root" {
			pkgDir = "."
		}
		files, _ := os.ReadDir(filepath.Join(injRoot, e.Name()))
		for _, f := range files {
			if strings.HasSuffix(f.Name(), ".go") {
				plain[filepath.Join(*repo, pkgDir, "zz_verif_"+f.Name())] = filepath.Join(injRoot, e.Name(), f.Name())
			}
		}
	}
	writeOverlay(filepath.Join(*out, "overlay_plain.json"), plain)

	inst := map[string]string{}
	for k, v := range plain {
		inst[k] = v
	}
	cfg := &packages.Config{
		Mode: packages.NeedName | packages.NeedFiles | packages.NeedSyntax | packages.NeedTypes | packages.NeedTypesInfo | packages.NeedImports | packages.NeedDeps | packages.NeedCompiledGoFiles,
		Dir:  *repo,
		Env:  append(os.Environ(), "GOFLAGS=-mod=mod", "GOPROXY=off", "GOSUMDB=off", "GOTOOLCHAIN=local"),
	}
	pkgs, err := packages.Load(cfg, strings.Split(*pkgsFlag, ",")...)
	if err != nil {
		fatalf("load: %v", err)
	}
	for _, p := range pkgs {
		instrumentedPkgs[p.PkgPath] = true
	}
	nerr := 0
	for _, p := range pkgs {
		for _, e := range p.Errors {
			fmt.Fprintf(os.Stderr, "instrument: %s: %v\n", p.PkgPath, e)
			nerr++
		}
	}
	if nerr > 0 {
		fatalf("packages do not type-check")
	}
	srcDir := filepath.Join(*out, "src")
	_ = os.RemoveAll(srcDir)
	nfiles := 0
	for _, p := range pkgs {
		for i, f := range p.Syntax {
			fn := p.CompiledGoFiles[i]
			if !strings.HasPrefix(fn, *repo) {
				continue
			}
			rw := &rewriter{fset: p.Fset, info: p.TypesInfo, file: f, fname: fn}
			changed := rw.run()
			if len(rw.errs) > 0 {
				for _, e := range rw.errs {
					fmt.Fprintf(os.Stderr, "instrument: %s\n", e)
				}
				fatalf("unsupported constructs")
			}
			if !changed {
				continue
			}
			var buf bytes.Buffer
			if err := format.Node(&buf, p.Fset, f); err != nil {
				fatalf("print %s: %v", fn, err)
			}
			rel, _ := filepath.Rel(*repo, fn)
			dst := filepath.Join(srcDir, rel)
			_ = os.MkdirAll(filepath.Dir(dst), 0o755)
			if err := os.WriteFile(dst, buf.Bytes(), 0o644); err != nil {
				fatalf("%v", err)
			}
			inst[fn] = dst
			nfiles++
		}
	}
	writeOverlay(filepath.Join(*out, "overlay_inst.json"), inst)
	fmt.Printf("instrument: %d packages, %d files rewritten\n", len(pkgs), nfiles)
}

func writeOverlay(path string, m map[string]string) {
	b, _ := json.MarshalIndent(map[string]interface{}{"Replace": m}, "", " ")
	if err := os.WriteFile(path, b, 0o644); err != nil {
		fatalf("%v", err)
	}
}

type rewriter struct {
	fset    *token.FileSet
	info    *types.Info
	file    *ast.File
	fname   string
	errs    []string
	changed bool
	needRT  bool

	skip      map[ast.Node]bool      // comm-clause nodes handled by the select rewrite
	rangeKind map[*ast.RangeStmt]int // 1 chan, 2 ordered map
	builtin   map[*ast.CallExpr]string
	recv2     map[ast.Node]bool
	nsel      int
}

func (r *rewriter) errorf(n ast.Node, f string, a ...interface{}) {
	r.errs = append(r.errs, fmt.Sprintf("%s: %s", r.fset.Position(n.Pos()), fmt.Sprintf(f, a...)))
}

func rtSel(name string) *ast.SelectorExpr {
	return &ast.SelectorExpr{X: ast.NewIdent("verifrt"), Sel: ast.NewIdent(name)}
}

func call(fun ast.Expr, args ...ast.Expr) *ast.CallExpr { return &ast.CallExpr{Fun: fun, Args: args} }

func method(x ast.Expr, name string, args ...ast.Expr) *ast.CallExpr {
	return call(&ast.SelectorExpr{X: x, Sel: ast.NewIdent(name)}, args...)
}

func isOrderedKey(t types.Type) bool {
	b, ok := t.Underlying().(*types.Basic)
	if !ok {
		return false
	}
	return b.Info()&(types.IsInteger|types.IsFloat|types.IsString) != 0
}

func (r *rewriter) pkgOf(x ast.Expr) string {
	id, ok := x.(*ast.Ident)
	if !ok {
		return ""
	}
	if pn, ok := r.info.Uses[id].(*types.PkgName); ok {
		return pn.Imported().Path()
	}
	return ""
}

// externalChanCall reports whether n is a call into a package that is not instrumented (and not one of the replaced
// ones) whose result is a channel that can be received from.
func (r *rewriter) externalChanCall(n *ast.CallExpr) bool {
	tv, ok := r.info.Types[n]
	if !ok || tv.Type == nil {
		return false
	}
	ch, ok := tv.Type.Underlying().(*types.Chan)
	if !ok || ch.Dir() == types.SendOnly {
		return false
	}
	var obj types.Object
	switch f := n.Fun.(type) {
	case *ast.SelectorExpr:
		if sel, ok := r.info.Selections[f]; ok {
			obj = sel.Obj()
		} else {
			obj = r.info.Uses[f.Sel]
		}
	case *ast.Ident:
		obj = r.info.Uses[f]
	}
	if obj == nil || obj.Pkg() == nil {
		return false
	}
	p := obj.Pkg().Path()
	if instrumentedPkgs[p] || p == "time" || strings.HasPrefix(p, rtPath) {
		return false
	}
	if _, replaced := importMap[p]; replaced {
		return false
	}
	return true
}

func (r *rewriter) isBuiltin(fun ast.Expr, name string) bool {
	id, ok := fun.(*ast.Ident)
	if !ok || id.Name != name {
		return false
	}
	_, ok = r.info.Uses[id].(*types.Builtin)
	return ok
}

func (r *rewriter) isChan(e ast.Expr) bool {
	tv, ok := r.info.Types[e]
	if !ok || tv.Type == nil {
		return false
	}
	_, ok = tv.Type.Underlying().(*types.Chan)
	return ok
}

func (r *rewriter) run() bool {
	r.skip = map[ast.Node]bool{}
	r.rangeKind = map[*ast.RangeStmt]int{}
	r.builtin = map[*ast.CallExpr]string{}
	r.recv2 = map[ast.Node]bool{}

	// imports
	for _, im := range r.file.Imports {
		p, _ := strconv.Unquote(im.Path.Value)
		if m, ok := importMap[p]; ok {
			im.Path.Value = strconv.Quote(m[0])
			if im.Name == nil {
				im.Name = ast.NewIdent(m[1])
			}
			r.changed = true
		}
	}

	pre := func(c *astutil.Cursor) bool {
		switch n := c.Node().(type) {
		case *ast.SelectStmt:
			for _, cl := range n.Body.List {
				cc := cl.(*ast.CommClause)
				switch s := cc.Comm.(type) {
				case *ast.SendStmt:
					r.skip[s] = true
				case *ast.ExprStmt:
					r.skip[ast.Unparen(s.X)] = true
				case *ast.AssignStmt:
					r.skip[s] = true
					r.skip[ast.Unparen(s.Rhs[0])] = true
				}
			}
		case *ast.AssignStmt:
			if len(n.Lhs) == 2 && len(n.Rhs) == 1 {
				if u, ok := ast.Unparen(n.Rhs[0]).(*ast.UnaryExpr); ok && u.Op == token.ARROW {
					n.Rhs[0] = u
					r.recv2[n] = true
				}
			}
		case *ast.ValueSpec:
			if len(n.Names) == 2 && len(n.Values) == 1 {
				if u, ok := ast.Unparen(n.Values[0]).(*ast.UnaryExpr); ok && u.Op == token.ARROW {
					n.Values[0] = u
					r.recv2[n] = true
				}
			}
		case *ast.RangeStmt:
			if tv, ok := r.info.Types[n.X]; ok && tv.Type != nil {
				switch u := tv.Type.Underlying().(type) {
				case *types.Chan:
					r.rangeKind[n] = 1
				case *types.Map:
					if isOrderedKey(u.Key()) {
						r.rangeKind[n] = 2
					} else {
						fmt.Fprintf(os.Stderr, "instrument: warning: %s: map range with unordered key type left as is\n", r.fset.Position(n.Pos()))
					}
				}
			}
		case *ast.CallExpr:
			for _, b := range []string{"close", "len", "cap", "make"} {
				if r.isBuiltin(n.Fun, b) {
					switch b {
					case "close":
						r.builtin[n] = b
					case "len", "cap":
						if r.isChan(n.Args[0]) {
							r.builtin[n] = b
						}
					case "make":
						if _, ok := n.Args[0].(*ast.ChanType); ok {
							r.builtin[n] = b
						} else if r.isChan(n.Args[0]) {
							r.errorf(n, "make of a named channel type is not supported")
						}
					}
				}
			}
		case *ast.SelectorExpr:
			if p := r.pkgOf(n.X); p != "" {
				key := p + "." + n.Sel.Name
				if selForbidden[key] {
					r.errorf(n, "%s is not supported by the controlled scheduler", key)
				}
			}
		}
		return true
	}

	post := func(c *astutil.Cursor) bool {
		switch n := c.Node().(type) {
		case *ast.SelectorExpr:
			if p := r.pkgOf(n.X); p != "" {
				if to, ok := selMap[p+"."+n.Sel.Name]; ok {
					c.Replace(rtSel(to))
					r.needRT, r.changed = true, true
				}
			}
		case *ast.ChanType:
			c.Replace(&ast.StarExpr{X: &ast.IndexExpr{X: rtSel("Chan"), Index: n.Value}})
			r.needRT, r.changed = true, true
		case *ast.GoStmt:
			c.Replace(r.rewriteGo(n))
			r.needRT, r.changed = true, true
		case *ast.SendStmt:
			if r.skip[n] {
				return true
			}
			c.Replace(&ast.ExprStmt{X: method(n.Chan, "Send", n.Value)})
			r.changed = true
		case *ast.UnaryExpr:
			if n.Op != token.ARROW || r.skip[n] {
				return true
			}
			c.Replace(method(n.X, "Recv"))
			r.changed = true
		case *ast.AssignStmt:
			if r.skip[n] {
				return true
			}
			// v, ok := <-ch   (the RHS has already become ch.Recv())
			if r.recv2[n] {
				n.Rhs[0].(*ast.CallExpr).Fun.(*ast.SelectorExpr).Sel = ast.NewIdent("Recv2")
			}
		case *ast.ValueSpec:
			if r.recv2[n] {
				n.Values[0].(*ast.CallExpr).Fun.(*ast.SelectorExpr).Sel = ast.NewIdent("Recv2")
			}
		case *ast.CallExpr:
			if r.builtin[n] == "" && r.externalChanCall(n) {
				// ctx.Done(), a library's notification channel, ...: a real channel from outside the instrumented code.
				// It is wrapped so that receiving from it (alone or in a select) is a scheduling point like any other.
				c.Replace(call(rtSel("External"), n))
				r.needRT, r.changed = true, true
				return true
			}
			switch r.builtin[n] {
			case "close":
				c.Replace(method(n.Args[0], "Close"))
				r.changed = true
			case "len":
				c.Replace(method(n.Args[0], "Len"))
				r.changed = true
			case "cap":
				c.Replace(method(n.Args[0], "Cap"))
				r.changed = true
			case "make":
				// n.Args[0] has already been rewritten to *verifrt.Chan[T]
				st, ok := n.Args[0].(*ast.StarExpr)
				if !ok {
					r.errorf(n, "internal: make(chan) not rewritten")
					return true
				}
				ix := st.X.(*ast.IndexExpr)
				var size ast.Expr = &ast.BasicLit{Kind: token.INT, Value: "0"}
				if len(n.Args) > 1 {
					size = n.Args[1]
				}
				c.Replace(call(&ast.IndexExpr{X: rtSel("MakeChan"), Index: ix.Index}, size))
				r.needRT, r.changed = true, true
			}
		case *ast.RangeStmt:
			switch r.rangeKind[n] {
			case 1:
				c.Replace(r.rewriteRangeChan(n))
				r.changed = true
			case 2:
				c.Replace(r.rewriteRangeMap(n))
				r.needRT, r.changed = true, true
			}
		case *ast.SelectStmt:
			c.Replace(r.rewriteSelect(n))
			r.needRT, r.changed = true, true
		}
		return true
	}
	astutil.Apply(r.file, pre, post)

	if r.needRT {
		astutil.AddNamedImport(r.fset, r.file, "verifrt", rtPath)
	}
	if r.changed {
		r.fixUnusedImports()
	}
	return r.changed
}

func isBlank(e ast.Expr) bool {
	if e == nil {
		return true
	}
	id, ok := e.(*ast.Ident)
	return ok && id.Name == "_"
}

func (r *rewriter) rewriteGo(n *ast.GoStmt) ast.Stmt {
	if fl, ok := n.Call.Fun.(*ast.FuncLit); ok && len(n.Call.Args) == 0 {
		return &ast.ExprStmt{X: call(rtSel("Go"), fl)}
	}
	// evaluate the function value and the arguments at the go statement
	var stmts []ast.Stmt
	lhs := []ast.Expr{ast.NewIdent("_gof")}
	rhs := []ast.Expr{n.Call.Fun}
	var args []ast.Expr
	for i, a := range n.Call.Args {
		id := ast.NewIdent("_goa" + strconv.Itoa(i))
		lhs = append(lhs, id)
		rhs = append(rhs, a)
		args = append(args, ast.NewIdent(id.Name))
	}
	// method values and plain functions can both be bound this way
	stmts = append(stmts, &ast.AssignStmt{Lhs: lhs, Tok: token.DEFINE, Rhs: rhs})
	inner := &ast.CallExpr{Fun: ast.NewIdent("_gof"), Args: args, Ellipsis: n.Call.Ellipsis}
	fl := &ast.FuncLit{Type: &ast.FuncType{Params: &ast.FieldList{}}, Body: &ast.BlockStmt{List: []ast.Stmt{&ast.ExprStmt{X: inner}}}}
	stmts = append(stmts, &ast.ExprStmt{X: call(rtSel("Go"), fl)})
	return &ast.BlockStmt{List: stmts}
}

func (r *rewriter) rewriteRangeChan(n *ast.RangeStmt) ast.Stmt {
	okID := ast.NewIdent("_ok")
	var lhs ast.Expr = ast.NewIdent("_")
	tok := token.DEFINE
	var pre []ast.Stmt
	if !isBlank(n.Key) {
		lhs = n.Key
		if n.Tok == token.ASSIGN {
			tok = token.ASSIGN
			pre = append(pre, &ast.DeclStmt{Decl: &ast.GenDecl{Tok: token.VAR, Specs: []ast.Spec{&ast.ValueSpec{Names: []*ast.Ident{ast.NewIdent("_ok")}, Type: ast.NewIdent("bool")}}}})
		}
	}
	recv := &ast.AssignStmt{Lhs: []ast.Expr{lhs, okID}, Tok: tok, Rhs: []ast.Expr{method(n.X, "Recv2")}}
	brk := &ast.IfStmt{Cond: &ast.UnaryExpr{Op: token.NOT, X: ast.NewIdent("_ok")}, Body: &ast.BlockStmt{List: []ast.Stmt{&ast.BranchStmt{Tok: token.BREAK}}}}
	body := append(pre, recv, brk)
	body = append(body, n.Body.List...)
	return &ast.ForStmt{Body: &ast.BlockStmt{List: body}}
}

func (r *rewriter) rewriteRangeMap(n *ast.RangeStmt) ast.Stmt {
	it := ast.NewIdent("_it")
	init := &ast.AssignStmt{Lhs: []ast.Expr{it}, Tok: token.DEFINE, Rhs: []ast.Expr{call(rtSel("IterMap"), n.X)}}
	cond := method(ast.NewIdent("_it"), "Next")
	var bind []ast.Stmt
	tok := n.Tok
	if tok != token.ASSIGN {
		tok = token.DEFINE
	}
	if !isBlank(n.Key) {
		bind = append(bind, &ast.AssignStmt{Lhs: []ast.Expr{n.Key}, Tok: tok, Rhs: []ast.Expr{method(ast.NewIdent("_it"), "Key")}})
	}
	if !isBlank(n.Value) {
		bind = append(bind, &ast.AssignStmt{Lhs: []ast.Expr{n.Value}, Tok: tok, Rhs: []ast.Expr{method(ast.NewIdent("_it"), "Value")}})
	}
	body := append(bind, n.Body.List...)
	return &ast.ForStmt{Init: init, Cond: cond, Body: &ast.BlockStmt{List: body}}
}

func (r *rewriter) rewriteSelect(n *ast.SelectStmt) ast.Stmt {
	sel := ast.NewIdent("_sel")
	hasDefault := "false"
	var cases []ast.Expr
	var sendVals []ast.Expr
	var clauses []ast.Stmt
	idx := 0
	anySend := false
	for _, cl := range n.Body.List {
		cc := cl.(*ast.CommClause)
		if cc.Comm == nil {
			hasDefault = "true"
			clauses = append(clauses, &ast.CaseClause{List: nil, Body: cc.Body})
			continue
		}
		var first ast.Stmt
		switch s := cc.Comm.(type) {
		case *ast.SendStmt:
			cases = append(cases, method(s.Chan, "SendCase"))
			sendVals = append(sendVals, &ast.FuncLit{
				Type: &ast.FuncType{Params: &ast.FieldList{}, Results: &ast.FieldList{List: []*ast.Field{{Type: &ast.InterfaceType{Methods: &ast.FieldList{}}}}}},
				Body: &ast.BlockStmt{List: []ast.Stmt{&ast.ReturnStmt{Results: []ast.Expr{s.Value}}}},
			})
			anySend = true
			first = &ast.ExprStmt{X: call(rtSel("SelSend"), ast.NewIdent("_sel"), s.Chan, s.Value)}
		case *ast.ExprStmt:
			u := ast.Unparen(s.X).(*ast.UnaryExpr)
			cases = append(cases, method(u.X, "RecvCase"))
			sendVals = append(sendVals, ast.NewIdent("nil"))
			first = &ast.AssignStmt{Lhs: []ast.Expr{ast.NewIdent("_")}, Tok: token.ASSIGN, Rhs: []ast.Expr{call(rtSel("SelRecv"), ast.NewIdent("_sel"), u.X)}}
		case *ast.AssignStmt:
			u := ast.Unparen(s.Rhs[0]).(*ast.UnaryExpr)
			cases = append(cases, method(u.X, "RecvCase"))
			sendVals = append(sendVals, ast.NewIdent("nil"))
			fn := "SelRecv"
			if len(s.Lhs) == 2 {
				fn = "SelRecv2"
			}
			first = &ast.AssignStmt{Lhs: s.Lhs, Tok: s.Tok, Rhs: []ast.Expr{call(rtSel(fn), ast.NewIdent("_sel"), u.X)}}
		default:
			r.errorf(cc, "unsupported select communication")
			continue
		}
		body := append([]ast.Stmt{first}, cc.Body...)
		clauses = append(clauses, &ast.CaseClause{List: []ast.Expr{&ast.BasicLit{Kind: token.INT, Value: strconv.Itoa(idx)}}, Body: body})
		idx++
	}
	var sv ast.Expr = ast.NewIdent("nil")
	if anySend {
		sv = &ast.CompositeLit{
			Type: &ast.ArrayType{Elt: &ast.FuncType{Params: &ast.FieldList{}, Results: &ast.FieldList{List: []*ast.Field{{Type: &ast.InterfaceType{Methods: &ast.FieldList{}}}}}}},
			Elts: sendVals,
		}
	}
	args := append([]ast.Expr{ast.NewIdent(hasDefault), sv}, cases...)
	init := &ast.AssignStmt{Lhs: []ast.Expr{sel}, Tok: token.DEFINE, Rhs: []ast.Expr{call(rtSel("Select"), args...)}}
	return &ast.SwitchStmt{Init: init, Tag: method(ast.NewIdent("_sel"), "Index"), Body: &ast.BlockStmt{List: clauses}}
}

// fixUnusedImports blanks imports whose package name is no longer referenced.
func (r *rewriter) fixUnusedImports() {
	used := map[string]bool{}
	ast.Inspect(r.file, func(n ast.Node) bool {
		if se, ok := n.(*ast.SelectorExpr); ok {
			if id, ok := se.X.(*ast.Ident); ok {
				used[id.Name] = true
			}
		}
		return true
	})
	var names []string
	for _, im := range r.file.Imports {
		p, _ := strconv.Unquote(im.Path.Value)
		name := ""
		if im.Name != nil {
			name = im.Name.Name
		} else {
			name = p[strings.LastIndex(p, "/")+1:]
			// a few packages whose name differs from the last path element
			switch {
			case strings.HasSuffix(p, "/v2") && strings.Contains(p, "m3/thrift"):
				name = "m3thrift"
			}
		}
		if name == "_" || name == "." {
			continue
		}
		if p == "runtime" || p == "time" {
			if !used[name] {
				im.Name = ast.NewIdent("_")
				names = append(names, p)
			}
		}
	}
	sort.Strings(names)
}
