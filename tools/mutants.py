#!/usr/bin/env python3
"""Own deliberate property-breaking changes ("mutants"): generates one patch per entry under /verif/mutants/<name>/patch.diff
from (file, old, new) replacements applied to /repo's HEAD in a scratch worktree, and records whether the tree still
builds and the repository suite still passes. Running them against the checks is done by tools/run_mutants.sh."""
import json, os, shutil, subprocess, sys

ENV = dict(os.environ, GOFLAGS="-mod=mod", GOPROXY="off", GOSUMDB="off", GOTOOLCHAIN="local")
M = []
def mut(name, prop, desc, *repls):
    M.append((name, prop, desc, repls))

# ---- C01
mut("C01-store-instead-of-cas", "C01", "counter.value advances prev with a plain store instead of the CAS",
    ("stats.go", "		if atomic.CompareAndSwapInt64(&c.prev, prev, curr) {\n			return curr - prev\n		}", "		atomic.StoreInt64(&c.prev, curr)\n		return curr - prev"))
mut("C01-curr-before-prev", "C01", "counter.value loads curr before prev (negative deltas possible)",
    ("stats.go", "		prev := atomic.LoadInt64(&c.prev)\n		curr := atomic.LoadInt64(&c.curr)", "		curr := atomic.LoadInt64(&c.curr)\n		prev := atomic.LoadInt64(&c.prev)"))
mut("C01-hist-report-snapshot", "C01,C03", "histogram.cachedReport reads the bucket counter with snapshot() (prev never advanced)",
    ("stats.go", "func (h *histogram) cachedReport() {\n	for i := range h.buckets {\n		samples := h.samples[i].counter.value()", "func (h *histogram) cachedReport() {\n	for i := range h.buckets {\n		samples := h.samples[i].counter.snapshot()"))
# ---- C02
mut("C02-flag-before-value", "C02", "gauge.Update raises the flag before storing the value",
    ("stats.go", "	atomic.StoreUint64(&g.curr, math.Float64bits(v))\n	atomic.StoreUint64(&g.updated, 1)", "	atomic.StoreUint64(&g.updated, 1)\n	atomic.StoreUint64(&g.curr, math.Float64bits(v))"))
mut("C02-no-report-mutex", "C02", "gauge reports are not serialised (reverts the reportMu fix in cachedReport)",
    ("stats.go", "func (g *gauge) cachedReport() {\n	g.reportMu.Lock()\n	defer g.reportMu.Unlock()\n", "func (g *gauge) cachedReport() {\n"))
# ---- C03
mut("C03-gt-for-ge", "C03", "RecordValue searches for the first bound > sample",
    ("stats.go", "		return h.buckets[i].valueUpperBound >= value", "		return h.buckets[i].valueUpperBound > value"))
mut("C03-duration-gt-for-ge", "C03", "RecordDuration searches for the first bound > sample",
    ("stats.go", "		return h.buckets[i].durationUpperBound >= value", "		return h.buckets[i].durationUpperBound > value"))
mut("C03-sort-in-place", "C03,C20", "BucketPairs sorts the caller's value slice in place",
    ("histogram.go", "	valuesCopy := make([]float64, len(values))\n	copy(valuesCopy, values)\n	sort.Sort(ValueBuckets(valuesCopy))\n	return valuesCopy", "	sort.Sort(ValueBuckets(values))\n	return values"))
mut("C03-lower-bound-own", "C03", "valueLowerBound returns the bucket's own upper bound for i > 0",
    ("stats.go", "	return buckets[i-1].valueUpperBound", "	return buckets[i].valueUpperBound"))
# ---- C04
mut("C04-merge-left-wins", "C04", "mergeRightTags lets the left map win",
    ("scope.go", "	for k, v := range tagsLeft {\n		result[k] = v\n	}\n	for k, v := range tagsRight {\n		result[k] = v\n	}", "	for k, v := range tagsRight {\n		result[k] = v\n	}\n	for k, v := range tagsLeft {\n		result[k] = v\n	}"))
mut("C04-child-gets-parent-tags", "C04", "a new subscope is given its parent's tags instead of the merged tags",
    ("scope_registry.go", "		tags:           allTags,", "		tags:           parent.tags,"))
mut("C04-no-tag-copy", "C04", "the map passed to Tagged is not copied when no sanitizer changes it",
    ("scope.go", "func (s *scope) copyAndSanitizeMap(tags map[string]string) map[string]string {\n	result := make(map[string]string, len(tags))", "func (s *scope) copyAndSanitizeMap(tags map[string]string) map[string]string {\n	if _, noop := s.sanitizer.(sanitizer); noop && len(tags) > 1 {\n		return tags\n	}\n	result := make(map[string]string, len(tags))"))
# ---- C05
mut("C05-leftmost-wins-in-key", "C05", "the key writer takes the value from the leftmost map",
    ("key_gen.go", "		for j := len(maps) - 1; j >= 0; j-- {", "		for j := 0; j < len(maps); j++ {"))
mut("C05-no-key-sort", "C05", "the key writer does not sort the keys",
    ("key_gen.go", "	insertionSort(keys)\n\n	if prefix", "	if prefix"))
# ---- C06
mut("C06-range-top-exclusive", "C06", "range end-point treated as exclusive",
    ("sanitize.go", "ch >= c.Ranges[i][0] && ch <= c.Ranges[i][1]", "ch >= c.Ranges[i][0] && ch < c.Ranges[i][1]"))
mut("C06-tagged-values-unsanitized", "C06,C04", "tag values are not sanitized",
    ("scope.go", "		v = s.sanitizer.Value(v)\n", ""))
mut("C06-backfill-off-by-one", "C06", "the backfill copies one byte too many",
    ("sanitize.go", "					buf.WriteString(value[:idx])", "					buf.WriteString(value[:idx+1])"))
# ---- C07
mut("C07-delete-by-key", "C07", "removeWithRLock deletes by key again (reverts the identity check)",
    ("scope_registry.go", "	if subscopeBucket.s[key] == s {\n		delete(subscopeBucket.s, key)\n	}", "	delete(subscopeBucket.s, key)"))
mut("C07-return-closed-scope", "C07", "Subscope returns a closed scope it finds instead of replacing it",
    ("scope_registry.go", "		if !s.closed.Load() || s.testScope {\n			subscopeBucket.mu.RUnlock()\n			return s\n		}", "		if true {\n			subscopeBucket.mu.RUnlock()\n			return s\n		}"))
mut("C07-clear-before-report", "C07", "the re-acquire path clears the closed scope's metrics without reporting them",
    ("scope_registry.go", "		switch {\n		case parent.reporter != nil:\n			s.report(parent.reporter)\n		case parent.cachedReporter != nil:\n			s.cachedReport()\n		}", "		switch {\n		case parent.reporter != nil:\n			s.report(parent.reporter)\n		}"))
# ---- C08
mut("C08-no-wait-for-loop", "C08", "Close does not wait for the report loop",
    ("scope.go", "		s.wg.Wait()\n		s.reportRegistry()", "		s.reportRegistry()"))
mut("C08-close-reporter-first", "C08", "Close closes the reporter before the final report",
    ("scope.go", "		s.reportRegistry()\n		s.closing.Done()\n		s.registry.purgeIfRootClosed()\n		if closer, ok := s.baseReporter.(io.Closer); ok {\n			return closer.Close()\n		}", "		var cerr error\n		if closer, ok := s.baseReporter.(io.Closer); ok {\n			cerr = closer.Close()\n		}\n		s.reportRegistry()\n		s.closing.Done()\n		s.registry.purgeIfRootClosed()\n		return cerr"))
mut("C08-second-close-reports-again", "C08", "a second Close runs another report pass",
    ("scope.go", "			s.closing.Wait()\n		}\n		return nil", "			s.closing.Wait()\n			s.reportRegistry()\n		}\n		return nil"))
mut("C08-error-swallowed", "C08", "Close drops the reporter's error",
    ("scope.go", "			return closer.Close()\n		}\n	}\n\n	return nil", "			_ = closer.Close()\n		}\n	}\n\n	return nil"))
# ---- C09
mut("C09-gauge-no-recheck", "C09", "Gauge() does not re-check under the write lock",
    ("scope.go", "	if g, ok := s.gauges[name]; ok {\n		return g\n	}\n\n	var cachedGauge", "	var cachedGauge"))
mut("C09-histogram-no-recheck", "C09", "Histogram() does not re-check under the write lock",
    ("scope.go", "	if h, ok := s.histograms[name]; ok {\n		return h\n	}\n\n	var cachedHistogram", "	var cachedHistogram"))
mut("C09-subscope-no-recheck", "C09", "Subscope does not re-check under the write lock",
    ("scope_registry.go", "	if s, ok := r.lockedLookup(subscopeBucket, sanitizedKey); ok && (!s.closed.Load() || s.testScope) {", "	if s, ok := r.lockedLookup(subscopeBucket, sanitizedKey); false && ok {"))
# ---- C10
mut("C10-exec-both-counters", "C10", "an instrumented call that fails also increments the success counter",
    ("instrument/call.go", "	if err != nil {\n		c.err.Inc(1)\n		return err\n	}", "	if err != nil {\n		c.err.Inc(1)\n		c.success.Inc(1)\n		return err\n	}"))
mut("C10-stopwatch-histogram-start-at-stop", "C10", "a histogram stopwatch measures from Stop instead of from Start",
    ("stats.go", "func (h *histogram) RecordStopwatch(stopwatchStart time.Time) {\n	d := globalNow().Sub(stopwatchStart)", "func (h *histogram) RecordStopwatch(stopwatchStart time.Time) {\n	d := globalNow().Sub(globalNow())"))
mut("C10-cached-and-plain", "C10", "a timer with a cached handle also forwards to the plain reporter",
    ("stats.go", "	if t.cachedTimer != nil {\n		t.cachedTimer.ReportTimer(interval)\n	} else {", "	if t.cachedTimer != nil {\n		t.cachedTimer.ReportTimer(interval)\n	}\n	if t.reporter != nil {"))
# ---- C11
mut("C11-root-tags-in-snapshot", "C11", "Snapshot copies the tags of the root instead of the visited scope",
    ("scope.go", "		for k, v := range ss.tags {\n			tags[k] = v\n		}", "		for k, v := range s.tags {\n			tags[k] = v\n		}"))
mut("C11-live-tag-map", "C11", "Snapshot hands out the scope's live tag map",
    ("scope.go", "		tags := make(map[string]string, len(s.tags))\n		for k, v := range ss.tags {\n			tags[k] = v\n		}", "		tags := ss.tags"))
mut("C11-prune-closed-test-scopes", "C11", "closed test scopes are replaced like ordinary scopes",
    ("scope_registry.go", "		if !s.closed.Load() || s.testScope {\n			subscopeBucket.mu.RUnlock()\n			return s\n		}", "		if !s.closed.Load() {\n			subscopeBucket.mu.RUnlock()\n			return s\n		}"))
# ---- C12
mut("C12-envelope-too-small", "C12", "the envelope is measured without the message header",
    ("m3/reporter.go", "	err = proto.WriteMessageBegin(\"emitMetricBatchV2\", thrift.ONEWAY, math.MaxInt32)\n	if err == nil {", "	err = nil\n	if err == nil {"))
mut("C12-flush-off-by-one", "C12", "a batch is flushed only when it exceeds the budget by more than one byte",
    ("m3/reporter.go", "		if flush || bytes+smet.size > r.freeBytes {", "		if flush || bytes+smet.size > r.freeBytes+1 {"))
mut("C12-bucket-tags-uncharged", "C12", "histogram bucket metrics are charged without their bucket tags",
    ("m3/reporter.go", "	return r.calculateSize(m)\n}\n\nfunc (r *reporter) calculateSize", "	return r.calculateSize(b.metric.metric)\n}\n\nfunc (r *reporter) calculateSize"))
# ---- C13
mut("C13-no-final-flush", "C13", "the batching loop does not emit what is left when the queue closes",
    ("m3/reporter.go", "	// Final flush\n	r.flush(mets)", "	// Final flush"))
mut("C13-close-does-not-wait", "C13,C14", "Close does not wait for the batching goroutine",
    ("m3/reporter.go", "	close(r.metCh)\n	r.wg.Wait()", "	close(r.metCh)"))
mut("C13-tag-cache-unverified", "C13", "a tag cache hit is used without comparing it with the requested tags",
    ("m3/reporter.go", "	if ok && tagsMatch(mtags, tags) {", "	if ok {"))
# ---- C14
mut("C14-close-queue-before-drain", "C14", "Close closes the queue before in-flight callers have drained",
    ("m3/reporter.go", "	for r.pending.Load() > 0 {\n		runtime.Gosched()\n	}\n\n	close(r.donech)\n	close(r.metCh)", "	close(r.donech)\n	close(r.metCh)\n	for r.pending.Load() > 0 {\n		runtime.Gosched()\n	}"))
mut("C14-flush-without-done-check", "C14", "Flush does not check the done flag",
    ("m3/reporter.go", "	if r.done.Load() {\n		return\n	}\n\n	r.reportInternalMetrics()", "	r.reportInternalMetrics()"))
mut("C14-timeloop-ignores-donech", "C14", "the clock goroutine does not watch the done channel",
    ("m3/reporter.go", "		select {\n		case <-t.C:\n		case <-r.donech:\n			return\n		}", "		<-t.C"))
mut("C14-pending-after-done-check", "C14", "reportCopyMetric increments the in-flight count after checking the done flag",
    ("m3/reporter.go", "	r.pending.Inc()\n	defer r.pending.Dec()\n\n	if r.done.Load() {\n		return\n	}\n\n	m.Timestamp = r.now.Load()", "	if r.done.Load() {\n		return\n	}\n\n	r.pending.Inc()\n	defer r.pending.Dec()\n\n	m.Timestamp = r.now.Load()"))
# ---- C15
mut("C15-no-reset-on-flush-error", "C15", "Flush keeps the buffer when the send fails",
    ("m3/thriftudp/transport.go", "	_, err := p.conn.Write(p.writeBuf.Bytes())\n	p.writeBuf.Reset() // always reset the buffer, even in case of an error\n	return err", "	_, err := p.conn.Write(p.writeBuf.Bytes())\n	if err == nil {\n		p.writeBuf.Reset()\n	}\n	return err"))
mut("C15-limit-off-by-one", "C15", "a write that makes the message exactly MaxLength long is refused",
    ("m3/thriftudp/transport.go", "	if p.writeBuf.Len()+len(buf) > MaxLength {", "	if p.writeBuf.Len()+len(buf) >= MaxLength {"))
mut("C15-multi-flush-first-only", "C15", "the multi transport flushes only the first destination",
    ("m3/thriftudp/multitransport.go", "	for _, trans := range p.transports {\n		if err := trans.Flush(); err != nil {\n			return err\n		}\n	}\n	return nil", "	for _, trans := range p.transports[:1] {\n		if err := trans.Flush(); err != nil {\n			return err\n		}\n	}\n	return nil"))
mut("C15-no-discard-after-failed-emit", "C15", "the reporter does not discard an abandoned message (reverts the fix)",
    ("m3/reporter.go", "		if d, ok := r.client.Transport.(interface{ Discard() }); ok {\n			d.Discard()\n		}", ""))
# ---- C16
mut("C16-calc-writestring-runes", "C16,C12", "the size calculator counts runes instead of bytes for strings",
    ("m3/customtransports/m3_calc_transport.go", "	p.count += int32(len(s))\n	return len(s), nil", "	p.count += int32(len([]rune(s)))\n	return len(s), nil"))
# ---- C17
mut("C17-duration-bucket-milliseconds", "C17", "duration bucket bounds are converted to milliseconds",
    ("prometheus/reporter.go", "	upperBound := float64(bucketUpperBound) / float64(time.Second)", "	upperBound := float64(bucketUpperBound) / float64(time.Millisecond)"))
mut("C17-value-bucket-lower-bound", "C17", "histogram samples are observed at the bucket's lower bound",
    ("prometheus/reporter.go", "	return cachedHistogramBucket{m, bucketUpperBound}\n}\n\nfunc (m *cachedMetric) DurationBucket", "	return cachedHistogramBucket{m, bucketLowerBound}\n}\n\nfunc (m *cachedMetric) DurationBucket"))
mut("C17-type-mismatch-unchecked", "C17", "a slot of the other timer flavour is returned without an error (reverts the fix)",
    ("prometheus/reporter.go", "		if h.histogram == nil {\n			return nil, errTimerTypeMismatch\n		}\n", ""))
# ---- C18
mut("C18-lower-infinity", "C18", "the lower open end is rendered as infinity",
    ("statsd/reporter.go", "		return \"-infinity\"\n	}\n	return fmt.Sprintf(r.bucketFmt, upperBound)", "		return \"infinity\"\n	}\n	return fmt.Sprintf(r.bucketFmt, upperBound)"))
mut("C18-gauge-rounded", "C18", "gauges are rounded instead of truncated",
    ("statsd/reporter.go", "	r.statter.Gauge(name, int64(value), r.sampleRate)", "	r.statter.Gauge(name, int64(math.Round(value)), r.sampleRate)"))
mut("C18-dec-for-negative", "C18", "negative counter deltas are sent with Dec",
    ("statsd/reporter.go", "	r.statter.Inc(name, value, r.sampleRate)\n}", "	if value < 0 {\n		r.statter.Dec(name, -value, r.sampleRate)\n		return\n	}\n	r.statter.Inc(name, value, r.sampleRate)\n}"))
# ---- C19
mut("C19-skip-first-child-flush", "C19", "Flush skips the first child",
    ("multi/reporter.go", "func (r multiBaseReporters) Flush() {\n	for _, r := range r {", "func (r multiBaseReporters) Flush() {\n	for _, r := range r[min(1, len(r)):] {"))
mut("C19-timer-reverse-order", "C19", "ReportTimer calls the children in reverse order",
    ("multi/reporter.go", "	for _, r := range r.reporters {\n		r.ReportTimer(name, tags, interval)\n	}", "	for i := len(r.reporters) - 1; i >= 0; i-- {\n		r.reporters[i].ReportTimer(name, tags, interval)\n	}"))
mut("C19-capabilities-or", "C19", "tagging capability is a disjunction",
    ("multi/reporter.go", "		c.tagging = c.tagging && r.Capabilities().Tagging()", "		c.tagging = c.tagging || r.Capabilities().Tagging()"))
# ---- C20
mut("C20-no-equality-recheck", "C20,C03", "a bucket cache hit is accepted without comparing the bounds",
    ("stats.go", "		if !bucketsEqual(buckets, storage.buckets) {\n			storage = newBucketStorage(htype, buckets)\n		}", ""))
mut("C20-n-zero-accepted", "C20", "LinearValueBuckets accepts n == 0",
    ("histogram.go", "func LinearValueBuckets(start, width float64, n int) (ValueBuckets, error) {\n	if n <= 0 {", "func LinearValueBuckets(start, width float64, n int) (ValueBuckets, error) {\n	if n < 0 {"))
mut("C20-factor-one-accepted", "C20", "ExponentialDurationBuckets accepts factor == 1",
    ("histogram.go", "func ExponentialDurationBuckets(start time.Duration, factor float64, n int) (DurationBuckets, error) {\n	if n <= 0 {\n		return nil, errBucketsCountNeedsGreaterThanZero\n	}\n	if start <= 0 {\n		return nil, errBucketsStartNeedsGreaterThanZero\n	}\n	if factor <= 1 {", "func ExponentialDurationBuckets(start time.Duration, factor float64, n int) (DurationBuckets, error) {\n	if n <= 0 {\n		return nil, errBucketsCountNeedsGreaterThanZero\n	}\n	if start <= 0 {\n		return nil, errBucketsStartNeedsGreaterThanZero\n	}\n	if factor < 1 {"))

def sh(cmd, cwd=None, timeout=1500):
    p = subprocess.run(cmd, cwd=cwd, env=ENV, stdout=subprocess.PIPE, stderr=subprocess.STDOUT, text=True, timeout=timeout)
    return p.returncode, p.stdout

def main():
    only = sys.argv[1:] 
    wt = "/tmp/mutwt"
    sh(["git", "-C", "/repo", "worktree", "remove", "--force", wt]); shutil.rmtree(wt, ignore_errors=True)
    rc, out = sh(["git", "-C", "/repo", "worktree", "add", "--detach", wt, "HEAD"])
    assert rc == 0, out
    try:
        for name, prop, desc, repls in M:
            if only and name not in only:
                continue
            d = os.path.join("/verif/mutants", name)
            os.makedirs(d, exist_ok=True)
            sh(["git", "checkout", "--", "."], cwd=wt)
            ok = True
            for f, old, new in repls:
                p = os.path.join(wt, f)
                s = open(p).read()
                if s.count(old) < 1:
                    print(name, "PATTERN NOT FOUND in", f); ok = False; break
                open(p, "w").write(s.replace(old, new, 1))
            if not ok:
                continue
            rc, diff = sh(["git", "diff"], cwd=wt)
            open(os.path.join(d, "patch.diff"), "w").write(diff)
            rc, out = sh(["go", "build", "./..."], cwd=wt)
            meta = {"name": name, "properties": prop.split(","), "description": desc, "compiles": rc == 0}
            if rc != 0:
                meta["build_output"] = out[-600:]
            else:
                rc, out = sh(["go", "test", "-vet=off", "-count=1", "./..."], cwd=wt)
                meta["existing_suite_with_patch"] = "pass" if rc == 0 else "FAIL"
                if rc != 0:
                    meta["suite_failures"] = [l for l in out.splitlines() if l.startswith("--- FAIL") or l.startswith("FAIL")][:8]
            json.dump(meta, open(os.path.join(d, "meta.json"), "w"), indent=1)
            print(name, meta.get("compiles"), meta.get("existing_suite_with_patch"))
    finally:
        sh(["git", "-C", "/repo", "worktree", "remove", "--force", wt]); shutil.rmtree(wt, ignore_errors=True)

if __name__ == "__main__":
    main()
