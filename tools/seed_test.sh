#!/bin/bash
# usage: tools/seed_test.sh <patch.diff> <property> [tier]
# Applies a seeded change to a scratch worktree of /repo's HEAD (outside /repo and /verif), runs the check
# against that tree (VERIF_REPO), and removes the worktree again. /repo itself is not touched.
set -u
patch="$1"; prop="$2"; tier="${3:-quick}"
wt="/tmp/seedt/$$-$prop"
mkdir -p /tmp/seedt
git -C /repo worktree add --detach "$wt" HEAD >/dev/null 2>&1 || { echo "seed_test: cannot create worktree"; exit 2; }
cleanup() { git -C /repo worktree remove --force "$wt" >/dev/null 2>&1; rm -rf "$wt"; }
trap cleanup EXIT
if ! git -C "$wt" apply "$patch" 2>/dev/null; then echo "seed_test: patch does not apply: $patch"; exit 3; fi
cd "${VERIF_DIR:-/verif}" && VERIF_REPO="$wt" ./check "$prop" --tier "$tier" --evidence-dir "/tmp/seedt/ev-$$" 2>&1 | tail -6
rc=${PIPESTATUS[0]}
rm -rf "/tmp/seedt/ev-$$"
echo "seed_test: $patch on $prop/$tier -> check exit $rc"
exit 0
