#!/bin/bash
# usage: tools/seed_test.sh <patch.diff> <property> [tier]   -- applies a seeded change to /repo, runs the check, reverts.
set -u
patch="$1"; prop="$2"; tier="${3:-quick}"
cd /repo || exit 2
if ! git diff --quiet; then echo "seed_test: /repo has uncommitted changes"; exit 2; fi
if ! git apply --check "$patch" 2>/dev/null; then echo "seed_test: patch does not apply: $patch"; exit 3; fi
git apply "$patch"
cd /verif && ./check "$prop" --tier "$tier" 2>&1 | grep -v "^INFRA" | tail -4
rc=${PIPESTATUS[0]}
git -C /repo checkout -- . 
echo "seed_test: $patch on $prop/$tier -> check exit $rc"
exit 0
