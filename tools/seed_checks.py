#!/usr/bin/env python3
"""Runs the quick tier of the relevant checks against every seeded change (/verif/seeded/*) and every own mutant
(/verif/mutants/*), each applied to a scratch worktree (tools/seed_test.sh), records the outcome in its meta.json and
regenerates /verif/seeded/INDEX.md and /verif/mutants/INDEX.md.   usage: seed_checks.py [-j N] [--only name,...] [--redo]"""
import argparse, concurrent.futures, json, os, re, subprocess, sys

EXTRA = {  # additional checks that are expected to see a change, besides the property it was written for
    "C01-b": ["C09"], "C03-a": ["C20"], "C10-b": ["C09"], "C12-b": ["C15"],
    # changes written for a sequence-quantified property that only show under a thread interleaving are the
    # business of the schedule-quantified sibling (first use: C09, test scopes: C11); tag-map aliasing is C04's
    "C03-3a": ["C01"], "C05-3a": ["C07"], "C10-3a": ["C09"], "C10-3b": ["C06", "C04"], "C09-3b": ["C05"], "C11-3b": ["C20"],
    "C13-3a": ["C14"], "C16-3a": ["C12"], "C17-3a": ["C02"], "C17-3b": ["C20"], "C12-3b": ["C13"], "C08-3b": ["C07"], "C07-3b": ["C08"],
    "C01-4b": ["C04", "C05"], "C02-4a": ["C09"], "C03-4a": ["C09"], "C03-4b": ["C17"], "C04-4a": ["C11"], "C05-4a": ["C09"], "C05-4b": ["C04"],
    "C08-4a": ["C02"], "C09-4a": ["C20"], "C09-4b": ["C17"], "C10-4a": ["C14", "C13"], "C14-4a": ["C12", "C13"], "C14-4b": ["C13"], "C16-4a": ["C12"],
    "C17-4a": ["C07"], "C20-4a": ["C12"],
    "C01-5b": ["C05"], "C04-5b": ["C12"], "C05-5a": ["C09"], "C05-5b": ["C04"], "C08-5b": ["C03"], "C09-5a": ["C17"], "C09-5b": ["C12", "C13"],
    "C10-5a": ["C16"], "C11-5a": ["C03"], "C11-5b": ["C05", "C04"], "C12-5b": ["C13"], "C13-5b": ["C16"], "C14-5b": ["C15"], "C16-5a": ["C15"],
    "C16-5b": ["C12", "C13"], "C17-5a": ["C05"], "C20-5b": ["C03"],
    "C01-6b": ["C07"], "C03-6a": ["C17"], "C03-6b": ["C07"], "C04-6b": ["C05"], "C05-6b": ["C07"], "C08-6b": ["C01"], "C09-6b": ["C06"], "C10-6a": ["C06"],
    "C11-6b": ["C02"], "C12-6b": ["C15"], "C14-6a": ["C12"], "C14-6b": ["C13"], "C16-6b": ["C12"], "C20-6b": ["C17"],
    # round 7 (rarely used options, public surface of the reporter packages, package pairs): multi belongs to C19,
    # Prometheus' Register* helpers to C17, the udp transports to C15, packet accounting to C12, key/derivation to C04
    "C01-7b": ["C19"], "C02-7a": ["C07"], "C02-7b": ["C17"], "C03-7a": ["C12"], "C04-7a": ["C13", "C12"], "C04-7b": ["C17"], "C05-7a": ["C17"],
    "C05-7b": ["C04", "C06"], "C07-7b": ["C08"], "C08-7b": ["C10", "C07"], "C10-7b": ["C17"], "C11-7a": ["C20"],
    "C13-7a": ["C16"], "C14-7b": ["C16", "C13"], "C16-7a": ["C15", "C12"], "C16-7b": ["C12"], "C17-7b": ["C03", "C20", "C11"], "C20-7b": ["C03", "C17"],
    "C09-7b": ["C20"], "C12-7b": ["C15"],
    # round 8 (error paths, re-entrant reporters, caches with non-unique keys): keys and derivation are C04/C05's,
    # bucket sets C20's/C03's, sanitizer memos C06's, Prometheus vector keys C17's, M3 packet accounting and retries C12's
    "C01-8b": ["C04"], "C02-8a": ["C09"], "C02-8b": ["C06"], "C03-8a": ["C20"], "C03-8b": ["C20"], "C04-8a": ["C05"], "C04-8b": ["C07"],
    "C05-8a": ["C12"], "C09-8b": ["C17"], "C10-8b": ["C04"], "C11-8a": ["C03", "C20"], "C11-8b": ["C05"], "C13-8a": ["C12"], "C14-8a": ["C12"],
    "C16-8b": ["C12"],
    # round 9 (Go-language slips inside refactorings)
    "C01-9a": ["C07"], "C01-9b": ["C19"], "C02-9b": ["C13"], "C03-9a": ["C01"], "C03-9b": ["C20"], "C04-9a": ["C06", "C07"], "C04-9b": ["C05"],
    "C05-9b": ["C04"], "C09-9b": ["C13"], "C10-9b": ["C13", "C14"], "C11-9b": ["C05"], "C12-9a": ["C13"], "C16-9a": ["C12"], "C16-9b": ["C12"],
    # round 10 (one primitive swapped for another)
    "C01-10a": ["C09"], "C01-10b": ["C07"], "C02-10a": ["C17"], "C02-10b": ["C05"], "C03-10a": ["C13"], "C04-10a": ["C09", "C10"], "C05-10b": ["C09", "C10"],
    "C07-10a": ["C02"], "C07-10b": ["C05"], "C09-10b": ["C04"], "C10-10a": ["C17"], "C10-10b": ["C13", "C14"], "C11-10a": ["C09"], "C11-10b": ["C05"],
    "C13-10a": ["C20", "C03"], "C14-10b": ["C15"], "C16-10a": ["C13"], "C20-10a": ["C03"],
    # seen since the accounting lemma runs with timestamps of the longest encoding (round 7)
    "C16-6a": ["C12"],
    "C03-2b": ["C09"], "C05-2b": ["C09"], "C10-2a": ["C11", "C09"], "C05-2a": ["C04"], "C06-2b": ["C04"], "C01-2b": ["C07"],
    # round 11 (smallest edit inside the anchored files against one quoted clause): every miss was closed in the own check;
    # these are the siblings that judge the same code by their own statement
    "C17-11a": ["C04"], "C05-11a": ["C11"], "C09-11a": ["C02"], "C08-11a": ["C07"], "C14-11b": ["C12"], "C01-11b": ["C07"], "C13-11a": ["C14"],
}

def run_one(base, name, props, redo):
    d = os.path.join(base, name)
    mp = os.path.join(d, "meta.json")
    meta = json.load(open(mp))
    meta.setdefault("checks", {})
    for prop in props:
        if prop in meta["checks"] and not redo:
            continue
        p = subprocess.run(["/verif/tools/seed_test.sh", os.path.join(d, "patch.diff"), prop, "quick"], stdout=subprocess.PIPE, stderr=subprocess.STDOUT, text=True)
        out = p.stdout
        m = re.search(r"check exit (\d+)", out)
        code = int(m.group(1)) if m else -1
        viol = [l.strip() for l in out.splitlines() if l.strip().startswith(prop + "/")]
        meta["checks"][prop] = {"exit": code, "detected": code == 1, "first_violation": (viol[0][:300] if viol else "")}
    json.dump(meta, open(mp, "w"), indent=1)
    return name, {k: v["exit"] for k, v in meta["checks"].items()}

def index(base, title):
    rows = []
    for name in sorted(os.listdir(base)):
        mp = os.path.join(base, name, "meta.json")
        if not os.path.exists(mp):
            continue
        m = json.load(open(mp))
        det = [k for k, v in m.get("checks", {}).items() if v.get("detected")]
        miss = [k for k, v in m.get("checks", {}).items() if not v.get("detected")]
        what = m.get("description") or m.get("note") or ""
        first = ""
        for k in det:
            first = m["checks"][k].get("first_violation", "")
            break
        status = "kept" if m.get("kept", m.get("existing_suite_with_patch") == "pass") else "not kept"
        rows.append("| %s | %s | %s | %s | %s | %s |" % (name, status, ", ".join(det) or "-", ", ".join("%s(exit %s)" % (k, m["checks"][k]["exit"]) for k in miss) or "-",
                                                    what.replace("|", "/")[:160], first.replace("|", "/")[:160]))
    with open(os.path.join(base, "INDEX.md"), "w") as f:
        f.write("# %s\n\n| change | status | detected by (quick tier) | not detected by | what | first violation reported |\n|---|---|---|---|---|---|\n" % title)
        f.write("\n".join(rows) + "\n")

def main():
    ap = argparse.ArgumentParser()
    ap.add_argument("-j", type=int, default=3)
    ap.add_argument("--only", default="")
    ap.add_argument("--redo", action="store_true")
    a = ap.parse_args()
    only = set(filter(None, a.only.split(",")))
    jobs = []
    for base in ("/verif/seeded", "/verif/mutants"):
        if not os.path.isdir(base):
            continue
        for name in sorted(os.listdir(base)):
            mp = os.path.join(base, name, "meta.json")
            if not os.path.exists(mp) or (only and name not in only):
                continue
            m = json.load(open(mp))
            if m.get("compiles") is False or not os.path.exists(os.path.join(base, name, "patch.diff")):
                continue
            props = m.get("properties") or [m.get("property")]
            props = list(props) + EXTRA.get(name, [])
            jobs.append((base, name, props))
    with concurrent.futures.ThreadPoolExecutor(a.j) as ex:
        for name, res in ex.map(lambda j: run_one(j[0], j[1], j[2], a.redo), jobs):
            print(name, res, flush=True)
    index("/verif/seeded", "Seeded changes written by sub-agents (property text + scratch worktree only)")
    if os.path.isdir("/verif/mutants"):
        index("/verif/mutants", "Own deliberate property-breaking changes")

if __name__ == "__main__":
    main()
