#!/usr/bin/env python3
"""Verifies one seeded change in a scratch worktree of /repo's HEAD and files it under /verif/seeded/<id>-<variant>/.

usage: seed_import.py <ID> <variant> <srcdir> [--patch <ported patch>] --checks C01,C09

Steps (all outside /repo and /verif, in /tmp/seedv/<ID><variant>, removed afterwards):
  1. demo passes on the clean tree, 2. patch applies and the demo fails,
  3. the repository's suite passes with the patch (demo removed).
Then each listed check is run against /repo with the patch applied (tools/seed_test.sh) and the outcome recorded.
"""
import argparse, json, os, re, shutil, subprocess, sys

ENV = dict(os.environ, GOFLAGS="-mod=mod", GOPROXY="off", GOSUMDB="off", GOTOOLCHAIN="local")
PKGDIR = {"tally": ".", "tally_test": ".", "v2_test": "m3/thrift/v2", "v2": "m3/thrift/v2", "statsd": "statsd", "statsd_test": "statsd",
          "multi": "multi", "multi_test": "multi", "m3": "m3", "m3_test": "m3", "thriftudp": "m3/thriftudp", "thriftudp_test": "m3/thriftudp",
          "prometheus": "prometheus", "prometheus_test": "prometheus", "customtransport": "m3/customtransports", "instrument": "instrument"}


def sh(cmd, cwd=None, timeout=1500):
    p = subprocess.run(cmd, cwd=cwd, env=ENV, stdout=subprocess.PIPE, stderr=subprocess.STDOUT, text=True, errors="replace", timeout=timeout)
    return p.returncode, p.stdout


def main():
    ap = argparse.ArgumentParser()
    ap.add_argument("id")
    ap.add_argument("variant")
    ap.add_argument("src")
    ap.add_argument("--patch")
    ap.add_argument("--checks", required=True)
    ap.add_argument("--note", default="")
    ap.add_argument("--skip-checks", action="store_true")
    a = ap.parse_args()
    name = "%s-%s" % (a.id, a.variant)
    dst = os.path.join("/verif/seeded", name)
    os.makedirs(dst, exist_ok=True)
    patch = a.patch or os.path.join(a.src, "patch.diff")
    if os.path.abspath(patch) != os.path.abspath(os.path.join(dst, "patch.diff")):
        shutil.copy(patch, os.path.join(dst, "patch.diff"))
    patch = os.path.join(dst, "patch.diff")
    demo = None
    for f in sorted(os.listdir(a.src)):
        if f.endswith("_test.go"):
            demo = os.path.join(a.src, f)
            shutil.copy(demo, os.path.join(dst, "demo_test.go.txt"))
    readme = os.path.join(a.src, "README.md")
    if os.path.exists(readme):
        shutil.copy(readme, os.path.join(dst, "README.agent.md"))
    meta = {"id": name, "property": a.id, "patch_ported_to_head": bool(a.patch), "note": a.note, "ran": []}
    text = open(readme).read() if os.path.exists(readme) else ""
    m = re.search(r"-run\s+'?\"?([A-Za-z0-9_|]+)", text)
    runpat = m.group(1) if m else "Test"
    pkg = re.search(r"^package\s+(\w+)", open(demo).read(), re.M).group(1) if demo else "tally"
    pkgdir = PKGDIR.get(pkg, ".")
    m = re.search(r"(?:needs|What it needs|manifest)[^\n]*\n(.{0,600})", text, re.S | re.I)
    meta["needs"] = (re.sub(r"\s+", " ", m.group(0))[:500] if m else "")
    wt = "/tmp/seedv/%s" % name.replace("-", "")
    sh(["git", "-C", "/repo", "worktree", "remove", "--force", wt])
    shutil.rmtree(wt, ignore_errors=True)
    os.makedirs("/tmp/seedv", exist_ok=True)
    rc, out = sh(["git", "-C", "/repo", "worktree", "add", "--detach", wt, "HEAD"])
    if rc != 0:
        print(out)
        sys.exit(2)
    try:
        head = sh(["git", "-C", "/repo", "rev-parse", "--short", "HEAD"])[1].strip()
        meta["verified_at_repo_commit"] = head
        demofile = os.path.join(wt, pkgdir, "zz_seed_demo_test.go")
        if demo:
            shutil.copy(demo, demofile)
            cmd = ["go", "test", "-vet=off", "-count=1", "-run", runpat, "./" + pkgdir]
            rc, out = sh(cmd, cwd=wt)
            meta["demo_on_clean_tree"] = "pass" if rc == 0 else "FAIL"
            meta["ran"].append(" ".join(cmd) + " (clean tree) -> rc %d" % rc)
            if rc != 0:
                meta["demo_clean_output"] = out[-1500:]
        rc, out = sh(["git", "apply", patch], cwd=wt)
        meta["patch_applies"] = rc == 0
        if rc != 0:
            meta["apply_output"] = out[-800:]
        else:
            rc, out = sh(["go", "build", "./..."], cwd=wt)
            meta["compiles"] = rc == 0
            if demo:
                cmd = ["go", "test", "-vet=off", "-count=1", "-run", runpat, "./" + pkgdir]
                rc, out = sh(cmd, cwd=wt)
                meta["demo_with_patch"] = "fail" if rc != 0 else "PASSES (not demonstrated)"
                meta["ran"].append(" ".join(cmd) + " (patched) -> rc %d" % rc)
                meta["demo_patched_output_tail"] = out[-700:]
                os.remove(demofile)
            cmd = ["go", "test", "-vet=off", "-count=1", "./..."]
            rc, out = sh(cmd, cwd=wt)
            bad = [l for l in out.splitlines() if l.startswith("FAIL") or l.startswith("---")]
            if rc != 0:
                # allocation-count tests (AllocsPerRun) fail when a GC cycle lands in the measured run, which happens
                # when the machine is busy: re-run the named failing tests alone, three times
                names = sorted(set(re.findall(r"^--- FAIL: (\w+)", out, re.M)))
                if names and not re.search(r"panic:|\[build failed\]|timed out", out):
                    ok = True
                    for _ in range(3):
                        rc2, out2 = sh(["go", "test", "-vet=off", "-count=1", "-run", "^(%s)$" % "|".join(names), "./..."], cwd=wt)
                        ok = ok and rc2 == 0
                    if ok:
                        rc = 0
                        meta["suite_note"] = "first full run failed %s under load; passed 3/3 when re-run alone" % names
            meta["existing_suite_with_patch"] = "pass" if rc == 0 else "FAIL"
            meta["ran"].append(" ".join(cmd) + " (patched, demo removed) -> rc %d" % rc)
            if rc != 0:
                meta["suite_failures"] = bad[:10]
    finally:
        sh(["git", "-C", "/repo", "worktree", "remove", "--force", wt])
        shutil.rmtree(wt, ignore_errors=True)
    meta["checks"] = {}
    if not a.skip_checks and meta.get("patch_applies"):
        for prop in a.checks.split(","):
            rc, out = sh(["/verif/tools/seed_test.sh", patch, prop, "quick"], cwd="/verif")
            m = re.search(r"check exit (\d+)", out)
            code = int(m.group(1)) if m else -1
            viol = [l.strip() for l in out.splitlines() if l.strip().startswith(prop + "/")]
            meta["checks"][prop] = {"exit": code, "detected": code == 1, "first_violation": (viol[0][:300] if viol else "")}
            meta["ran"].append("git -C /repo apply patch.diff; ./check %s --tier quick; git -C /repo checkout -- .  -> exit %d" % (prop, code))
    meta["kept"] = bool(meta.get("patch_applies") and meta.get("compiles") and meta.get("existing_suite_with_patch") == "pass"
                        and meta.get("demo_on_clean_tree") == "pass" and meta.get("demo_with_patch") == "fail")
    json.dump(meta, open(os.path.join(dst, "meta.json"), "w"), indent=1)
    print(name, "kept=%s" % meta["kept"], {k: v["detected"] for k, v in meta["checks"].items()},
          meta.get("demo_on_clean_tree"), meta.get("demo_with_patch"), meta.get("existing_suite_with_patch"))


if __name__ == "__main__":
    main()
