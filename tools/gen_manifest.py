#!/usr/bin/env python3
"""Regenerates /verif/MANIFEST.json from the table below (kept in one place so that
claimed checks, engines and not_applicable stay consistent)."""
import json, os
V = os.path.dirname(os.path.dirname(os.path.abspath(__file__)))

SCHED = "stateless model checking of the implementation: controlled scheduler over the instrumented real code, preemption-bounded DFS of all thread interleavings with happens-before state caching"
SEQ = "explicit-state model checking of the implementation: exhaustive breadth-first enumeration of operation sequences / inputs over a finite alphabet up to a depth bound, every transition executed on the real code and compared with a Go reference model"

CHECKS = {
 # id: (engine, claim text, note)
 "C01": ("sched+seq", "every interleaving (up to the stated preemption bound) of increments, concurrent report passes, the report loop on a virtual ticker, re-acquire reports and Close is executed on the real code and delta conservation, sign and quiescence are checked on each; increment histories over the int64 extremes are enumerated sequentially", "bounded threads/operations/ticks/preemptions; sequential consistency at sync operations"),
 "C07": ("sched", "every interleaving (up to the preemption bound) of an application goroutine cycling obtain/record/Close/re-obtain against a report pass or the real report loop is executed; sums per identity, registration of the re-obtained scope and inertness of children are checked on each", "bounded threads/operations/ticks/preemptions; one or two application threads"),
 "C08": ("sched", "every placement (up to the preemption bound) of root Close against the real report loop driven by a virtual ticker, with recorder calls as scheduling points, is executed; the ordered reporter log is checked against Close-return markers", "bounded ticks (1-2), threads and preemptions"),
}

PENDING = "check not built yet (work in progress, see DESIGN.md section 7 development order)"

def main():
    props = [json.loads(l)["id"] for l in open(os.path.join(V, "properties.jsonl"))]
    checks = []
    for pid in props:
        if pid not in CHECKS:
            continue
        eng, text, note = CHECKS[pid]
        tech = SCHED if eng == "sched" else SEQ if eng == "seq" else SCHED + "; plus " + SEQ
        checks.append({
            "property_id": pid,
            "quick_cmd": "./check %s --tier quick" % pid,
            "thorough_cmd": "./check %s --tier thorough" % pid,
            "evidence_file": "evidence/%s.json" % pid,
            "replay_cmd_template": "./check --replay {path}",
            "engine": eng,
            "level_claimed": {"category": "model_checking", "text": text, "design_ref": "DESIGN.md section 4, " + pid},
            "level_note": note,
            "technique": tech,
        })
    m = {
        "version": 1,
        "setup_cmd": "./check --setup",
        "hooks": {
            "guard": "verif",
            "enable": "no hook lives in /repo: ./check instruments /repo's working tree mechanically (tools/instrument, an AST+types rewriter) and builds it with `go build -tags verif -overlay <generated overlay>`, which also adds the verifrt runtime package and the //go:build verif accessor files under inject/",
            "baseline_off_cmd": "cd /repo && GOFLAGS=-mod=mod go test -vet=off -count=1 ./...",
            "source_commits": [],
            "add_only": True,
        },
        "engines": [
            {"name": "sched", "path": "rt/verifrt + harness/explore.go", "serves_properties": [p for p in props if p in CHECKS and "sched" in CHECKS[p][0]], "kind_free_text": SCHED},
            {"name": "seq", "path": "harness/seq.go", "serves_properties": [p for p in props if p in CHECKS and "seq" in CHECKS[p][0]], "kind_free_text": SEQ},
        ],
        "checks": checks,
        "notes": "All checks rebuild from /repo's working tree (instrumenter + go build -overlay); nothing is kept under /tmp. known_findings.json lists fixed and known findings.",
        "not_applicable": [{"property_id": p, "reason": PENDING} for p in props if p not in CHECKS],
    }
    json.dump(m, open(os.path.join(V, "MANIFEST.json"), "w"), indent=1)

if __name__ == "__main__":
    main()
