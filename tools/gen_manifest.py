#!/usr/bin/env python3
"""Regenerates /verif/MANIFEST.json from the table below (kept in one place so that
claimed checks, engines and not_applicable stay consistent)."""
import json, os
V = os.path.dirname(os.path.dirname(os.path.abspath(__file__)))

SCHED = "stateless model checking of the implementation: controlled scheduler over the instrumented real code, preemption-bounded DFS of all thread interleavings with happens-before state caching"
SEQ = "explicit-state model checking of the implementation: exhaustive breadth-first enumeration of operation sequences / inputs over a finite alphabet up to a depth bound, every transition executed on the real code and compared with a Go reference model"

CHECKS = {
 # id: (engine, claim text, note)
 "C01": ("sched+seq", "every interleaving (up to the stated preemption bound) of increments, concurrent report passes, the report loop on a virtual ticker, re-acquire reports and Close is executed on the real code and delta conservation, sign and quiescence are checked on each; increment histories over the int64 extremes are enumerated sequentially; every number of counters and histograms per scope from 1 to 40 (140) is swept; bounds +1 and +2 are explored on a bonus time budget", "bounded threads/operations/ticks/preemptions; sequential consistency at sync operations"),
 "C07": ("sched+seq", "every interleaving (up to the preemption bound) of an application goroutine cycling obtain/record/Close/re-obtain against a report pass or the real report loop is executed; sums per identity, registration of the re-obtained scope and inertness of children are checked on each; breadth-first search over obtain/record/Close/re-obtain/derive/pass histories with two raw spellings of one sanitized identity", "bounded threads/operations/ticks/preemptions; one or two application threads"),
 "C08": ("sched", "every placement (up to the preemption bound) of root Close against the real report loop driven by a virtual ticker, with recorder calls as scheduling points, is executed; the ordered reporter log is checked against Close-return markers; with 1, 2 and 3 registry shards, two concurrent closers and a goroutine deriving scopes while Close purges", "bounded ticks (1-2), threads and preemptions"),

 "C02": ("sched+seq", "every interleaving (up to the preemption bound) of one updating goroutine with two or three concurrent report passes is executed on the real code; every delivered value is compared bit for bit with the updates, the final value and the delivery count are checked at quiescence; the float64 payload alphabet is swept sequentially; a pass against update + Close + re-acquire of the gauge's subscope; every number of gauges per scope from 1 to 40 (140) is swept", "one updating goroutine per gauge, 1-3 updates, 2-3 passes, bounded preemptions"),
 "C03": ("seq", "the full product of bucket specifications (all sequences up to length L over a 10-letter bound alphabet, value and duration) x samples (every bound, its neighbours, extremes, non-finite floats) x delivery path (plain, cached, snapshot) is executed on the real code and compared with a sort-and-scan reference model; plus all record/pass histories up to a depth", "bounds outside the alphabet are represented by their order type; spec lengths above L only by the two 64-bound specs"),
 "C04": ("seq", "every derivation program up to depth D over an alphabet of SubScope names and Tagged maps (nil, empty, overlapping keys, empty values), on every root configuration (prefix x separator x root tags x sanitizer), on the plain, cached and snapshot paths, is executed and compared with a list-and-overlay reference model, including mutation of caller maps after the call; a chain of Tagged calls adding one tag at a time up to 40 (72) tags in four key orders is swept with regroupings, siblings and overrides at every width", "strings outside the alphabet are not covered; depth bound"),
 "C05": ("seq", "all programs up to depth D over an alphabet built around the key format's delimiter characters are run against one root per (prefix, shard count) and compared pairwise through a reference identity; the public key function is compared with the key of the merged map for all pairs of maps; programs are run in several orders (shortest first, longest first, fixed shuffles); the tag-chain sweep of C04 is judged for identity as well", "alphabet and depth bound; map-iteration-order independence is exercised by repetition only"),
 "C06": ("seq+sched", "the full product of all strings up to length N over a token alphabet straddling every range end-point (incl. multi-byte runes and invalid bytes) x 199 sanitizer configurations is executed and compared position by position with a decode-test-append reference; an end-to-end sweep checks every string handed to the reporter; the pooled buffer is explored under the controlled scheduler", "strings outside the token alphabet / above length N (except the 4 KiB repeats) are not covered"),
 "C09": ("sched", "every interleaving (up to the preemption bound) of 2-3 goroutines performing first use of one counter/gauge/timer/histogram/child scope while a report pass runs is executed; object identity, allocation count and delivered sums are checked on each; a free-running -race pass covers the data-race clause; 8-shard variants and two different identities with 300-byte registry keys", "bounded threads and preemptions"),
}

_MORE = {
 "C10": ("seq", "breadth-first search over all histories up to a depth of timer records (int64 extremes), passes, stopwatch start/advance/stop on an injected clock, instrumented calls and Close of the subscope, on the plain, cached and reporter-less paths; after every step the reporter log / snapshot is compared with the reference model; with a sanitizer, a non-default separator and a reporter that advertises no capabilities; concurrent records on one timer in the free-running -race pass", "alphabet and depth bound; state key includes a capped record count so that periodic misbehaviour up to period 3 is not merged away"),
 "C11": ("seq+sched", "breadth-first search over all histories up to a depth on a test scope (4 derived scopes x 9 metric operations + Close), a snapshot after every step compared with a four-map reference model, every earlier snapshot vandalised and re-checked for independence; snapshots concurrent with recording are explored under the controlled scheduler; snapshots through derived scopes; per-scope bucket sets that collide in the bucket cache; the tag-chain sweep on a test scope; concurrent snapshotters in the free-running -race pass", "alphabet and depth bound"),
 "C20": ("seq+sched", "the full product of constructor arguments (dyadic values) is compared with the recurrence; every creation sequence up to a depth over an alphabet of specifications that collide in the bucket cache (permutations, equal bit-pattern sums, cross-kind collisions) is followed by the C03 sample sweep per histogram; concurrent creation of colliding specs is explored under the controlled scheduler; sets built only from members of another set, sets differing by a zero bound, a set written into the slice of the previous creation; four concurrent creators in the free-running -race pass", "alphabet and depth bound"),
 "C17": ("seq+sched", "breadth-first search over all record/pass histories up to a depth on a real root scope with the Prometheus reporter (fresh registry per history, both timer flavours), Gather() compared with a reference tally after every pass; every sequence of up to 3 first uses of one name across the 5 metric kinds and 3 tag-key sets, with panicking and non-panicking error callbacks; rejected registrations are counted against a reference; duration histograms are judged on integer durations; concurrent first use of one family is explored over interleavings", "alphabet and depth bound; Prometheus client internals are exercised, not modelled"),
 "C18": ("seq+sched", "the full product of names x values (one per varint length class and sign, gauge truncation edge cases, duration extremes) x sample rates, and of all bucket specifications up to length L x precisions 1..12, directly and through a root scope, is executed against a recording statsd client and compared with a reference rendering; plus all bucket-call histories up to a depth on one reporter; two scopes sharing one reporter; with package statsd instrumented, two passes over the consecutive buckets of one layout are explored over interleavings", "alphabet bound"),
 "C19": ("seq+sched", "every call history up to a depth over both reporter flavours for every child count 0..5 is executed against recording children sharing one ordered log and compared call by call with the reference fan-out; all 1365 capability assignments are enumerated; child counts up to 9, a multi reporter nested in two others (0..8 inner children); concurrent Flush/report/Capabilities calls are explored over interleavings with package multi instrumented", "argument alphabets of two values per call"),
 "C12": ("seq+sched", "every composition of metric shapes (counters, gauges, timers, value/duration histogram buckets; 1..600-char names, 0..8 tags, extreme values) up to a length, each letter reported once or many times, with flushes at every position, for both protocols and two common-tag sets, crossed with a sweep of MaxPacketSizeBytes starting at the smallest limit at which every single metric fits, is driven through the real reporter under the controlled scheduler's default schedule; every datagram received on a loopback socket is measured, decoded and compared with what was reported, in order; 2, 7 and 14 common tags; a reporter of the other protocol created first in the same execution; a per-metric accounting lemma (k copies of one metric never exceed envelope allowance + k x charged size); the sizes charged under concurrent allocation are explored over interleavings", "loopback UDP is trusted; limits above the transport's 65000 bytes are outside; one (deterministic) schedule per composition"),
 "C13": ("seq+sched", "breadth-first search over Allocate/Report/Flush histories (incl. the tag sets that collide in the hash-keyed tag cache) followed by Close, through the real reporter, thrift client and UDP transport into a loopback sink, run under the controlled scheduler with a virtual clock; the decoded multiset, tags, bucket tags, common tags, message framing and timestamps are compared with the reference; a producers/flusher/Close scenario is explored over interleavings; concurrent allocation of colliding tag sets and the Close-return barrier are explored over interleavings; 10..5000 (20000) distinct tag sets on one reporter", "loopback UDP is trusted; preemption bound 1-2 and a bound on non-default choices at blocking points for the interleaving scenario"),
 "C14": ("sched", "interleavings (bounded preemptions and bounded non-default choices at blocking points) of producers, a flusher, Close and calls after Close on the real M3 reporter with a queue of one, with the destination socket closed before or in the middle: panics (the channel shim panics on send-to-closed like the runtime), deadlock, livelock in Close's spin loop, leaked goroutines and datagrams after Close are checked on every execution; the data-race clause is checked by the free-running -race pass; concurrent Allocate calls of the same new strings with colliding tag sets (scenario M4)", "preemption bound 1 (quick) / 2 (thorough), at most 2/3 non-default choices at non-preemptive points; races only sampled"),
 "C15": ("seq+sched", "breadth-first search over all sequences of Write/WriteByte/WriteString/Flush/Close and a socket fault up to a depth on the real UDP transport with 1-3 destinations against a byte-buffer reference model, every datagram compared byte for byte; message-level fault sequences (small batch, batch that does not fit a UDP packet, flush) through the real reporter and generated client; a transient send error at a destination that is not the last (dead port); 1..48 (140) refused messages in a row, each followed by a small batch; concurrent Close calls with m3/thriftudp instrumented are explored over interleavings", "loopback UDP is trusted"),
 "C16": ("seq", "round trip and encoder/size-calculator agreement over batch shapes varied one field at a time (every string length 0..300+, every varint length class, doubles incl. NaN payloads, list sizes around the compact-protocol threshold) through ONE reused encoder and calculator per protocol; all sequences of complete and abandoned writes through a reused protocol; placeholder-size upper bound over the value alphabet; all sequences of per-metric descriptors (heterogeneous batches); strings with multi-byte runes and every byte value; 1..90 (300) abandoned writes before a complete one", "values outside the alphabets are not covered"),
}
CHECKS.update(_MORE)

PENDING = "check not built yet (work in progress, see DESIGN.md section 7 development order)"

def main():
    props = [json.loads(l)["id"] for l in open(os.path.join(V, "properties.jsonl"))]
    checks = []
    for pid in props:
        if pid not in CHECKS:
            continue
        eng, text, note = CHECKS[pid]
        tech = SCHED if eng == "sched" else SEQ if eng == "seq" else SCHED + "; plus " + SEQ
        checks.append({
            "property_id": pid,
            "quick_cmd": "./check %s --tier quick" % pid,
            "thorough_cmd": "./check %s --tier thorough" % pid,
            "evidence_file": "evidence/%s.json" % pid,
            "replay_cmd_template": "./check --replay {path}",
            "engine": eng,
            "level_claimed": {"category": "model_checking", "text": text, "design_ref": "DESIGN.md section 4, " + pid},
            "level_note": note,
            "technique": tech,
        })
    m = {
        "version": 1,
        "setup_cmd": "./check --setup",
        "hooks": {
            "guard": "verif",
            "enable": "no hook lives in /repo: ./check instruments /repo's working tree mechanically (tools/instrument, an AST+types rewriter) and builds it with `go build -tags verif -overlay <generated overlay>`, which also adds the verifrt runtime package and the //go:build verif accessor files under inject/",
            "baseline_off_cmd": "cd /repo && GOFLAGS=-mod=mod go test -vet=off -count=1 ./...",
            "source_commits": [],
            "add_only": True,
        },
        "engines": [
            {"name": "sched", "path": "rt/verifrt + harness/explore.go", "serves_properties": [p for p in props if p in CHECKS and "sched" in CHECKS[p][0]], "kind_free_text": SCHED},
            {"name": "seq", "path": "harness/seq.go", "serves_properties": [p for p in props if p in CHECKS and "seq" in CHECKS[p][0]], "kind_free_text": SEQ},
        ],
        "checks": checks,
        "notes": "All checks rebuild from /repo's working tree (instrumenter + go build -overlay); nothing is kept under /tmp. known_findings.json lists fixed and known findings.",
        "not_applicable": [{"property_id": p, "reason": PENDING} for p in props if p not in CHECKS],
    }
    json.dump(m, open(os.path.join(V, "MANIFEST.json"), "w"), indent=1)

if __name__ == "__main__":
    main()
