//go:build verif

package m3

import (
	tally "github.com/uber-go/tally/v4"
	"github.com/uber-go/tally/v4/thirdparty/github.com/apache/thrift/lib/go/thrift"
)

// This file is added to package m3 by the /verif overlay only. It holds thin
// accessors and no logic of the code under test.

// VerifTransport returns the transport the reporter's thrift client writes to.
func VerifTransport(r Reporter) thrift.TTransport { return r.(*reporter).client.Transport }

// VerifBudget returns the per-packet byte budget and the envelope allowance.
func VerifBudget(r Reporter) (freeBytes, overheadBytes int32) {
	rr := r.(*reporter)
	return rr.freeBytes, rr.overheadBytes
}

// VerifSetSeqID sets the thrift client's sequence id.
func VerifSetSeqID(r Reporter, id int32) { r.(*reporter).client.SeqId = id }

// VerifChargedSize returns the size the reporter charges for a cached counter/gauge/timer.
func VerifChargedSize(h interface{}) int32 { return h.(cachedMetric).size }

// VerifBucketChargedSizes returns the sizes charged for the buckets of a cached histogram.
func VerifBucketChargedSizes(h tally.CachedHistogram) []int32 {
	ch := h.(cachedHistogram)
	bs := ch.cachedValueBuckets
	if len(bs) == 0 {
		bs = ch.cachedDurationBuckets
	}
	out := make([]int32, len(bs))
	for i := range bs {
		out[i] = bs[i].metric.size
	}
	return out
}

// VerifInternalChargedSizes returns the sizes charged for the reporter's own metrics.
func VerifInternalChargedSizes(r Reporter) []int32 {
	rr := r.(*reporter)
	out := []int32{
		rr.numBatchesCounter.(cachedMetric).size,
		rr.numMetricsCounter.(cachedMetric).size,
		rr.numWriteErrorsCounter.(cachedMetric).size,
		rr.numTagCacheCounter.(cachedMetric).size,
	}
	return append(out, VerifBucketChargedSizes(rr.batchSizeHistogram)...)
}
