//go:build verif

package m3

import (
	"reflect"
	"unsafe"

	tally "github.com/uber-go/tally/v4"
	"github.com/uber-go/tally/v4/thirdparty/github.com/apache/thrift/lib/go/thrift"
)

// This file is added to package m3 by the /verif overlay only. It holds thin
// accessors and no logic of the code under test.

// VerifTransport returns the transport the reporter's thrift client writes to.
func VerifTransport(r Reporter) thrift.TTransport { return r.(*reporter).client.Transport }

// VerifBudget returns the per-packet byte budget and the envelope allowance.
func VerifBudget(r Reporter) (freeBytes, overheadBytes int32) {
	rr := r.(*reporter)
	return rr.freeBytes, rr.overheadBytes
}

// VerifSetSeqID sets the thrift client's sequence id.
func VerifSetSeqID(r Reporter, id int32) { r.(*reporter).client.SeqId = id }

// The handle and histogram types are looked at through reflection, so that the accessors keep compiling when a
// change turns a value type into a pointer type or wraps it; a size that cannot be found is reported as -1 and the
// harness then skips the clauses that need it.

func verifFindSize(v reflect.Value) int32 {
	for v.IsValid() && (v.Kind() == reflect.Ptr || v.Kind() == reflect.Interface) {
		if v.IsNil() {
			return -1
		}
		v = v.Elem()
	}
	if !v.IsValid() || v.Kind() != reflect.Struct {
		return -1
	}
	if f := v.FieldByName("size"); f.IsValid() && f.CanInt() {
		return int32(f.Int())
	}
	if f := v.FieldByName("metric"); f.IsValid() {
		return verifFindSize(f)
	}
	return -1
}

// VerifChargedSize returns the size the reporter charges for a cached counter/gauge/timer.
func VerifChargedSize(h interface{}) int32 { return verifFindSize(reflect.ValueOf(h)) }

// VerifBucketChargedSizes returns the sizes charged for the buckets of a cached histogram.
func VerifBucketChargedSizes(h tally.CachedHistogram) []int32 {
	v := reflect.ValueOf(h)
	for v.IsValid() && (v.Kind() == reflect.Ptr || v.Kind() == reflect.Interface) {
		if v.IsNil() {
			return nil
		}
		v = v.Elem()
	}
	if !v.IsValid() || v.Kind() != reflect.Struct {
		return nil
	}
	bs := v.FieldByName("cachedValueBuckets")
	if !bs.IsValid() || bs.Kind() != reflect.Slice || bs.Len() == 0 {
		bs = v.FieldByName("cachedDurationBuckets")
	}
	if !bs.IsValid() || bs.Kind() != reflect.Slice {
		return nil
	}
	out := make([]int32, bs.Len())
	for i := range out {
		out[i] = verifFindSize(bs.Index(i))
	}
	return out
}

// VerifInternalChargedSizes returns the sizes charged for the reporter's own metrics.
func VerifInternalChargedSizes(r Reporter) []int32 {
	rr := r.(*reporter)
	out := []int32{
		VerifChargedSize(rr.numBatchesCounter),
		VerifChargedSize(rr.numMetricsCounter),
		VerifChargedSize(rr.numWriteErrorsCounter),
		VerifChargedSize(rr.numTagCacheCounter),
	}
	return append(out, VerifBucketChargedSizes(rr.batchSizeHistogram)...)
}

// VerifDrainTagSlicePool takes tag slices out of the reporter's tag slice pool (and drops them) until `keep` are
// left, and returns how many were left (-1: the pool was not found in this tree). The pool hands slices out in the
// order they were put in: what is left afterwards is what was given back last. Found by reflection, so that a
// reshaped reporter still builds.
func VerifDrainTagSlicePool(r Reporter, keep int) int {
	rv := reflect.ValueOf(r)
	if rv.Kind() == reflect.Ptr {
		rv = rv.Elem()
	}
	if rv.Kind() != reflect.Struct {
		return -1
	}
	rp := rv.FieldByName("resourcePool")
	if !rp.IsValid() || rp.Kind() != reflect.Ptr || rp.IsNil() {
		return -1
	}
	pf := rp.Elem().FieldByName("metricTagSlicePool")
	if !pf.IsValid() || pf.Kind() != reflect.Ptr || pf.IsNil() {
		return -1
	}
	pool, ok := reflect.NewAt(pf.Type(), unsafe.Pointer(pf.UnsafeAddr())).Elem().Interface().(*tally.ObjectPool)
	if !ok || pool == nil {
		return -1
	}
	return tally.VerifPoolDrainTo(pool, keep)
}
