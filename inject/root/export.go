//go:build verif

package tally

import (
	"io"
	"reflect"
	"time"
	"unsafe"

	"github.com/uber-go/tally/v4/verifrt"
)

// This file is added to package tally by the /verif overlay only. It holds
// thin accessors and no logic of the code under test.

func init() {
	verifrt.OnReset(VerifResetNoop)
}

// VerifNewRootScope is NewRootScope with a chosen registry shard count.
func VerifNewRootScope(opts ScopeOptions, interval time.Duration, shards uint) (Scope, io.Closer) {
	opts.registryShardCount = shards
	s := newRootScope(opts, interval)
	return s, s
}

// VerifNewTestScope is NewTestScope with a chosen registry shard count.
func VerifNewTestScope(prefix string, tags map[string]string, shards uint) TestScope {
	return newRootScope(ScopeOptions{Prefix: prefix, Tags: tags, testScope: true, registryShardCount: shards}, 0)
}

// VerifNewTestScopeOpts is a test scope (no reporter, snapshots) built from full options.
func VerifNewTestScopeOpts(opts ScopeOptions, shards uint) TestScope {
	opts.testScope = true
	opts.registryShardCount = shards
	return newRootScope(opts, 0)
}

// VerifReportOnce runs one report pass exactly as the ticker loop does.
func VerifReportOnce(s Scope) { s.(*scope).reportLoopRun() }

// VerifReportRegistry runs one report pass exactly as Close's final pass does.
func VerifReportRegistry(s Scope) { s.(*scope).reportRegistry() }

// VerifSetNow overrides the clock used by stopwatches.
func VerifSetNow(f func() time.Time) (restore func()) {
	old := globalNow
	globalNow = f
	return func() { globalNow = old }
}

// VerifResetNoop re-creates the process-global NoopScope.
func VerifResetNoop() {
	NoopScope, _ = NewRootScope(ScopeOptions{Reporter: NullStatsReporter}, 0)
}

// VerifIsNoop reports whether s is the inert scope.
func VerifIsNoop(s Scope) bool { return s == NoopScope }

// VerifKey exposes the registry key function for several maps.
func VerifKey(prefix string, maps ...map[string]string) string {
	return keyForPrefixedStringMaps(prefix, maps...)
}

// VerifShardOf returns the index of the registry shard that holds s (-1: not found, or the registry has another
// shape in this tree). Read by reflection so that a reshaped registry still builds; call it at a quiet moment.
func VerifShardOf(s Scope) int {
	sc, ok := s.(*scope)
	if !ok || sc == nil {
		return -1
	}
	reg := reflect.ValueOf(sc).Elem().FieldByName("registry")
	if !reg.IsValid() || reg.Kind() != reflect.Ptr || reg.IsNil() {
		return -1
	}
	subs := reg.Elem().FieldByName("subscopes")
	if !subs.IsValid() || subs.Kind() != reflect.Slice {
		return -1
	}
	for i := 0; i < subs.Len(); i++ {
		b := subs.Index(i)
		if b.Kind() == reflect.Ptr {
			if b.IsNil() {
				continue
			}
			b = b.Elem()
		}
		m := b.FieldByName("s")
		if !m.IsValid() || m.Kind() != reflect.Map {
			return -1
		}
		it := m.MapRange()
		for it.Next() {
			if v := it.Value(); v.Kind() == reflect.Ptr && v.Pointer() == reflect.ValueOf(sc).Pointer() {
				if i == 0 {
					continue // the root is in every shard; a subscope is in exactly one
				}
				return i
			}
		}
	}
	for i := 0; i < subs.Len() && i < 1; i++ {
		b := subs.Index(i)
		if b.Kind() == reflect.Ptr && !b.IsNil() {
			b = b.Elem()
		}
		if m := b.FieldByName("s"); m.IsValid() && m.Kind() == reflect.Map {
			it := m.MapRange()
			for it.Next() {
				if v := it.Value(); v.Kind() == reflect.Ptr && v.Pointer() == reflect.ValueOf(sc).Pointer() {
					return 0
				}
			}
		}
	}
	return -1
}

// VerifPoolLen returns the number of objects an ObjectPool holds at the moment (-1: the pool has another shape in
// this tree). By reflection; in an instrumented build the channel is the controlled runtime's.
func VerifPoolLen(p *ObjectPool) int {
	if p == nil {
		return -1
	}
	v := reflect.ValueOf(p).Elem().FieldByName("values")
	if !v.IsValid() {
		return -1
	}
	switch v.Kind() {
	case reflect.Chan:
		return v.Len()
	case reflect.Ptr:
		if v.IsNil() {
			return 0
		}
		// *verifrt.Chan[T]: ask its Len method
		m := reflect.NewAt(v.Type(), unsafe.Pointer(v.UnsafeAddr())).Elem().MethodByName("Len")
		if m.IsValid() {
			if out := m.Call(nil); len(out) == 1 && out[0].Kind() == reflect.Int {
				return int(out[0].Int())
			}
		}
	}
	return -1
}

// VerifPoolDrainTo takes objects out of an ObjectPool, oldest first, until at most keep are left, without going through
// Get (set-up of a scenario's starting state); returns how many are left, -1 if the pool has another shape.
func VerifPoolDrainTo(p *ObjectPool, keep int) int {
	if p == nil {
		return -1
	}
	v := reflect.ValueOf(p).Elem().FieldByName("values")
	if !v.IsValid() {
		return -1
	}
	v = reflect.NewAt(v.Type(), unsafe.Pointer(v.UnsafeAddr())).Elem()
	switch v.Kind() {
	case reflect.Chan:
		for v.Len() > keep {
			if _, ok := v.TryRecv(); !ok {
				break
			}
		}
		return v.Len()
	case reflect.Ptr:
		if m := v.MethodByName("DrainTo"); m.IsValid() {
			if out := m.Call([]reflect.Value{reflect.ValueOf(keep)}); len(out) == 1 {
				return int(out[0].Int())
			}
		}
	}
	return -1
}
