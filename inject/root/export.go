//go:build verif

package tally

import (
	"io"
	"time"

	"github.com/uber-go/tally/v4/verifrt"
)

// This file is added to package tally by the /verif overlay only. It holds
// thin accessors and no logic of the code under test.

func init() {
	verifrt.OnReset(VerifResetNoop)
}

// VerifNewRootScope is NewRootScope with a chosen registry shard count.
func VerifNewRootScope(opts ScopeOptions, interval time.Duration, shards uint) (Scope, io.Closer) {
	opts.registryShardCount = shards
	s := newRootScope(opts, interval)
	return s, s
}

// VerifNewTestScope is NewTestScope with a chosen registry shard count.
func VerifNewTestScope(prefix string, tags map[string]string, shards uint) TestScope {
	return newRootScope(ScopeOptions{Prefix: prefix, Tags: tags, testScope: true, registryShardCount: shards}, 0)
}

// VerifNewTestScopeOpts is a test scope (no reporter, snapshots) built from full options.
func VerifNewTestScopeOpts(opts ScopeOptions, shards uint) TestScope {
	opts.testScope = true
	opts.registryShardCount = shards
	return newRootScope(opts, 0)
}

// VerifReportOnce runs one report pass exactly as the ticker loop does.
func VerifReportOnce(s Scope) { s.(*scope).reportLoopRun() }

// VerifReportRegistry runs one report pass exactly as Close's final pass does.
func VerifReportRegistry(s Scope) { s.(*scope).reportRegistry() }

// VerifSetNow overrides the clock used by stopwatches.
func VerifSetNow(f func() time.Time) (restore func()) {
	old := globalNow
	globalNow = f
	return func() { globalNow = old }
}

// VerifResetNoop re-creates the process-global NoopScope.
func VerifResetNoop() {
	NoopScope, _ = NewRootScope(ScopeOptions{Reporter: NullStatsReporter}, 0)
}

// VerifIsNoop reports whether s is the inert scope.
func VerifIsNoop(s Scope) bool { return s == NoopScope }

// VerifKey exposes the registry key function for several maps.
func VerifKey(prefix string, maps ...map[string]string) string {
	return keyForPrefixedStringMaps(prefix, maps...)
}

// VerifIsClosed reports the closed flag of a scope.
func VerifIsClosed(s Scope) bool { return s.(*scope).closed.Load() }
