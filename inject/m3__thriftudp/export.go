//go:build verif

package thriftudp

// VerifChildren returns the per-destination transports of a multi transport.
func VerifChildren(p *TMultiUDPTransport) []*TUDPTransport {
	var out []*TUDPTransport
	for _, t := range p.transports {
		if u, ok := t.(*TUDPTransport); ok {
			out = append(out, u)
		}
	}
	return out
}
