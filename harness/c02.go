package main

import (
	"fmt"
	"math"
	"strings"

	tally "github.com/uber-go/tally/v4"
	rt "github.com/uber-go/tally/v4/verifrt"
)

func gaugeOracle(log []Entry, id string, updates []uint64, quiet int) (string, string) {
	n := 0
	var last uint64
	seen := false
	for i, e := range log {
		if e.Kind != "gauge" || e.ID() != id {
			continue
		}
		n++
		ok := false
		for _, u := range updates {
			if u == e.F {
				ok = true
			}
		}
		if !ok {
			return "invented-value", fmt.Sprintf("log[%d]: gauge %s delivered bits %#x which was never passed to Update", i, id, e.F)
		}
		if quiet >= 0 && i >= quiet {
			return "redelivered-without-update", fmt.Sprintf("log[%d]: gauge %s delivered again although not updated since its last delivery", i, id)
		}
		last, seen = e.F, true
	}
	if n > len(updates) {
		return "more-deliveries-than-updates", fmt.Sprintf("gauge %s: %d deliveries for %d updates", id, n, len(updates))
	}
	if len(updates) > 0 && (!seen || last != updates[len(updates)-1]) {
		return "stale-final-value", fmt.Sprintf("gauge %s: after updates stopped and a further pass ran, the most recent delivered value is %#x (seen=%v), the last update was %#x", id, last, seen, updates[len(updates)-1])
	}
	return "", ""
}

func c02Scenarios(tier string) []*Scenario {
	var out []*Scenario
	type variant struct {
		cached bool
		vals   []float64
		passes int
	}
	nan1 := math.Float64frombits(0x7ff8000000000001)
	vs := []variant{
		{true, []float64{1.0, math.Copysign(0, -1)}, 2},
		{false, []float64{nan1, 5e-324}, 2},
		{true, []float64{math.Inf(1)}, 3},
	}
	if tier == "thorough" {
		vs = append(vs, variant{false, []float64{1.0, 2.0, 3.0}, 2}, variant{true, []float64{0, 1.0, 0}, 2}, variant{false, []float64{2.5}, 3})
	}
	for vi, v := range vs {
		v := v
		out = append(out, &Scenario{
			Property: "C02", Name: fmt.Sprintf("G-update-vs-passes-%s-%dupd-%dpass-%d", b2s(v.cached), len(v.vals), v.passes, vi),
			Body: func(x *Run) {
				rec := &Recorder{}
				x.Rec = rec
				root, _ := tally.VerifNewRootScope(scopeOpts(rec, v.cached, false), 0, 1)
				g := root.Tagged(map[string]string{"k": "v"}).Gauge("g")
				other := root.Gauge("idle") // never updated: must never be delivered
				_ = other
				u := rt.GoNamed("upd", func() {
					for _, f := range v.vals {
						g.Update(f)
					}
				})
				var ps []*rt.Thread
				for i := 0; i < v.passes; i++ {
					ps = append(ps, rt.GoNamed(fmt.Sprintf("pass%d", i), func() { tally.VerifReportOnce(root) }))
				}
				u.Join()
				for _, p := range ps {
					p.Join()
				}
				tally.VerifReportOnce(root)
				x.Vals["quiet"] = len(rec.Log)
				tally.VerifReportOnce(root)
			},
			Check: func(x *Run, o *rt.Outcome) (string, string, string) {
				var bits []uint64
				for _, f := range v.vals {
					bits = append(bits, math.Float64bits(f))
				}
				cl, d := gaugeOracle(x.Rec.Log, `g{"k":"v"}`, bits, x.Vals["quiet"].(int))
				if cl != "" {
					return cl, d, "viol"
				}
				for i, e := range x.Rec.Log {
					if e.Kind == "gauge" && e.ID() == "idle{}" {
						return "never-updated-gauge-delivered", fmt.Sprintf("log[%d]: %s", i, e.String()), "viol"
					}
				}
				return "", "", deliveredOutcome(x.Rec.Log)
			},
		})
	}
	// G2: no epilogue. A pass that starts after the last update is "the first report pass that
	// starts afterwards": once every pass has completed the reporter's latest value must be the last update.
	for _, cached := range []bool{true, false} {
		cached := cached
		out = append(out, &Scenario{
			Property: "C02", Name: "G2-pass-started-after-last-update-" + b2s(cached),
			Body: func(x *Run) {
				rec := &Recorder{}
				x.Rec = rec
				root, _ := tally.VerifNewRootScope(scopeOpts(rec, cached, false), 0, 1)
				g := root.Tagged(map[string]string{"k": "v"}).Gauge("g")
				g.Update(1.5)
				u := rt.GoNamed("upd", func() {
					g.Update(2.5)
					rec.Mark("upd-done")
				})
				pass := func() {
					rec.Mark("pass-start")
					tally.VerifReportOnce(root)
				}
				p1 := rt.GoNamed("pass1", pass)
				p2 := rt.GoNamed("pass2", pass)
				u.Join()
				p1.Join()
				p2.Join()
			},
			Check: func(x *Run, o *rt.Outcome) (string, string, string) {
				done, after := -1, false
				var last uint64
				n := 0
				for i, e := range x.Rec.Log {
					switch {
					case e.Kind == "mark" && e.Note == "upd-done":
						done = i
					case e.Kind == "mark" && e.Note == "pass-start" && done >= 0:
						after = true
					case e.Kind == "gauge":
						n++
						last = e.F
						if e.F != math.Float64bits(1.5) && e.F != math.Float64bits(2.5) {
							return "invented-value", e.String(), "viol"
						}
					}
				}
				if n > 2 {
					return "more-deliveries-than-updates", fmt.Sprintf("%d deliveries for 2 updates", n), "viol"
				}
				if after && (n == 0 || last != math.Float64bits(2.5)) {
					return "pass-after-last-update-left-stale-value", fmt.Sprintf("a report pass started after the last update and every pass has completed, but the reporter's most recent value is %#x (deliveries: %d), the last update was 2.5", last, n), "viol"
				}
				return "", "", fmt.Sprint(after, deliveredOutcome(x.Rec.Log))
			},
		})
	}
	// G3: a pass is delivering the gauge of a subscope while the application updates it again, closes the
	// subscope and asks for it again (which reports the closed scope on the spot): once everything has
	// completed the reporter's latest value is the last update, whichever of the two reports came last.
	for _, cached := range []bool{true, false} {
		cached := cached
		out = append(out, &Scenario{
			Property: "C02", Name: "G3-pass-vs-update-close-reacquire-" + b2s(cached),
			Body: func(x *Run) {
				rec := &Recorder{}
				x.Rec = rec
				root, _ := tally.VerifNewRootScope(scopeOpts(rec, cached, false), 0, 1)
				tags := map[string]string{"k": "v"}
				sub := root.Tagged(tags)
				g := sub.Gauge("g")
				g.Update(1.5)
				p := rt.GoNamed("pass", func() { tally.VerifReportOnce(root) })
				a := rt.GoNamed("app", func() {
					g.Update(2.5)
					closeScope(sub)
					root.Tagged(map[string]string{"k": "v"}).Gauge("g2").Update(7)
				})
				p.Join()
				a.Join()
				tally.VerifReportOnce(root)
			},
			Check: func(x *Run, o *rt.Outcome) (string, string, string) {
				var last uint64
				n := 0
				for _, e := range x.Rec.Log {
					if e.Kind == "gauge" && e.Name == "g" {
						n++
						last = e.F
						if e.F != math.Float64bits(1.5) && e.F != math.Float64bits(2.5) {
							return "invented-value", e.String(), "viol"
						}
					}
				}
				if n > 2 {
					return "more-deliveries-than-updates", fmt.Sprintf("%d deliveries for 2 updates", n), "viol"
				}
				if n == 0 || last != math.Float64bits(2.5) {
					return "stale-value-after-close-and-reacquire", fmt.Sprintf("every report has completed, the reporter's most recent value for the gauge is %#x after %d deliveries; the last update, made before the subscope was closed, was 2.5", last, n), "viol"
				}
				return "", "", deliveredOutcome(x.Rec.Log)
			},
		})
	}
	// the gauge is created by one goroutine while another looks it up and makes the only update, a pass alongside:
	// scenario N "gauge+lookup" of C09, judged here for the value the reporter is left with
	for _, sc := range c09Scenarios(tier) {
		if strings.Contains(sc.Name, "gauge+lookup") {
			c := *sc
			c.Property = "C02"
			out = append(out, &c)
		}
	}
	return out
}
