package main

import (
	"fmt"
	"math"
	"net"
	"runtime"
	"sort"
	"strings"
	"sync"
	"sync/atomic"
	"time"

	cactus "github.com/cactus/go-statsd-client/v5/statsd"
	tally "github.com/uber-go/tally/v4"
	"github.com/uber-go/tally/v4/m3/thriftudp"
	tstatsd "github.com/uber-go/tally/v4/statsd"
	rt "github.com/uber-go/tally/v4/verifrt"
)

// Bodies for the free-running -race pass (section 1.6 of DESIGN.md) of properties whose own quantifier is over
// inputs and histories but whose implementation keeps shared scratch state (pooled buffers, caches, reused
// slices). A cooperative scheduler cannot interleave inside unsynchronised code, so these bodies are not explored;
// they run on real goroutines under the race detector, and each also checks its results (an execution that
// returns a wrong answer is a violation whether or not the detector noticed the race behind it).

// lockedStatter is a statsd client that records stat names under a lock.
type lockedStatter struct {
	recStatter
	mu sync.Mutex
}

func (l *lockedStatter) Inc(n string, v int64, rate float32, t ...cactus.Tag) error {
	l.mu.Lock()
	defer l.mu.Unlock()
	return l.recStatter.Inc(n, v, rate, t...)
}

// c18RaceScenarios: several goroutines report histogram buckets (value and duration), counters, gauges and
// timers through ONE statsd reporter; every bucket increment must arrive under exactly the name a sequential
// call produces.
func c18RaceScenarios(tier string) []*Scenario {
	sc := &Scenario{Property: "C18", Name: "P-concurrent-reports-one-reporter"}
	sc.Body = func(x *Run) {
		st := &lockedStatter{}
		rep := tstatsd.NewReporter(st, tstatsd.Options{})
		ref := &recStatter{}
		refRep := tstatsd.NewReporter(ref, tstatsd.Options{})
		type call struct {
			name   string
			lo, hi float64
			dlo    time.Duration
			dhi    time.Duration
		}
		var calls []call
		for g := 0; g < 4; g++ {
			for k := 0; k < 6; k++ {
				calls = append(calls, call{name: fmt.Sprintf("hist%d.with.a.longer.name.%d", g, k), lo: float64(k), hi: float64(k*k + g + 1),
					dlo: time.Duration(k) * time.Millisecond, dhi: time.Duration(k*k+g+1) * time.Second})
			}
		}
		want := map[string]int{}
		for _, c := range calls {
			refRep.ReportHistogramValueSamples(c.name, nil, nil, c.lo, c.hi, 1)
			refRep.ReportHistogramDurationSamples(c.name, nil, nil, c.dlo, c.dhi, 1)
		}
		for _, c := range ref.calls {
			want[c.name] += 5
		}
		var ths []*rt.Thread
		for g := 0; g < 4; g++ {
			g := g
			ths = append(ths, rt.GoNamed("user", func() {
				for rep5 := 0; rep5 < 5; rep5++ {
					for _, c := range calls[g*6 : g*6+6] {
						rep.ReportHistogramValueSamples(c.name, nil, nil, c.lo, c.hi, 1)
						rep.ReportHistogramDurationSamples(c.name, nil, nil, c.dlo, c.dhi, 1)
					}
				}
			}))
		}
		for _, t := range ths {
			t.Join()
		}
		got := map[string]int{}
		for _, c := range st.calls {
			got[c.name]++
		}
		for n, w := range want {
			if got[n] != w {
				x.failf("concurrent-bucket-stat-name", "stat %q: %d increments expected, %d arrived (stat names seen: %d, expected: %d)", n, w, got[n], len(got), len(want))
				return
			}
		}
		if len(got) != len(want) {
			var extra []string
			for n := range got {
				if want[n] == 0 {
					extra = append(extra, n)
				}
			}
			sort.Strings(extra)
			x.failf("concurrent-bucket-stat-name", "increments arrived under stat names no sequential call produces: %q", extra)
		}
	}
	return []*Scenario{sc}
}

// c20RaceScenarios: goroutines create histograms with colliding, reordered and fresh bucket sets under one root
// at the same time; each histogram must deliver exactly the bounds of its own set.
func c20RaceScenarios(tier string) []*Scenario {
	sc := &Scenario{Property: "C20", Name: "J-many-creators-colliding-and-fresh-sets"}
	sc.Body = func(x *Run) {
		rec := &Recorder{NoPoints: true}
		x.Rec = rec
		root, _ := tally.VerifNewRootScope(scopeOpts(rec, false, false), 0, 2)
		// {1,4,x} and {0.5,8,x} have the same cache identity (sum of bit patterns); {4,1,x} is a permutation
		specs := func(g, k int) tally.ValueBuckets {
			x := float64(100 + k)
			switch (g + k) % 4 {
			case 0:
				return tally.ValueBuckets{1, 4, x}
			case 1:
				return tally.ValueBuckets{0.5, 8, x}
			case 2:
				return tally.ValueBuckets{x, 4, 1}
			}
			return tally.ValueBuckets{float64(g) + 0.25, x, 2 * x, 3 * x}
		}
		type made struct {
			name string
			spec tally.ValueBuckets
		}
		out := make([][]made, 4)
		var ths []*rt.Thread
		for g := 0; g < 4; g++ {
			g := g
			ths = append(ths, rt.GoNamed("creator", func() {
				sub := root.SubScope(fmt.Sprintf("g%d", g))
				for k := 0; k < 12; k++ {
					sp := specs(g, k)
					orig := append(tally.ValueBuckets{}, sp...)
					name := fmt.Sprintf("h%d", k)
					h := sub.Histogram(name, sp)
					for _, b := range orig {
						h.RecordValue(b) // one sample exactly on every bound
					}
					for i := range orig {
						if sp[i] != orig[i] {
							x.failf("caller-slice-modified", "creating a histogram changed the caller's bucket slice: %v, was %v", sp, orig)
						}
					}
					out[g] = append(out[g], made{fmt.Sprintf("g%d.%s", g, name), orig})
				}
			}))
		}
		for _, t := range ths {
			t.Join()
		}
		tally.VerifReportOnce(root)
		got := map[string][]float64{}
		for _, e := range rec.Log {
			if e.Kind == "hvalue" && e.I > 0 {
				for i := int64(0); i < e.I; i++ {
					got[e.Name] = append(got[e.Name], e.HiF)
				}
			}
		}
		for _, ms := range out {
			for _, m := range ms {
				want := append([]float64{}, m.spec...)
				sort.Float64s(want)
				g := got[m.name]
				sort.Float64s(g)
				if fmt.Sprint(g) != fmt.Sprint(want) {
					x.failf("histogram-uses-foreign-bounds", "histogram %s created with %v: one sample on every bound was delivered under upper bounds %v", m.name, m.spec, g)
					return
				}
			}
		}
	}
	return []*Scenario{sc}
}

// c11RaceScenarios: several goroutines take snapshots of one test scope tree at the same time while another
// records; every snapshot must have exactly the registered keys.
func c11RaceScenarios(tier string) []*Scenario {
	sc := &Scenario{Property: "C11", Name: "Q4-concurrent-snapshots"}
	sc.Body = func(x *Run) {
		root := tally.VerifNewTestScopeOpts(tally.ScopeOptions{Prefix: "p"}, 2)
		want := map[string]bool{}
		var cs []tally.Counter
		for i := 0; i < 6; i++ {
			tg := map[string]string{"k": fmt.Sprint(i), "longer-tag-key": "with-a-longer-value-" + fmt.Sprint(i*7)}
			s := root.Tagged(tg).SubScope(fmt.Sprintf("sub%d", i))
			name := fmt.Sprintf("counter-number-%d", i)
			c := s.Counter(name)
			c.Inc(1)
			cs = append(cs, c)
			want[tally.KeyForPrefixedStringMap(fmt.Sprintf("p.sub%d.%s", i, name), tg)] = true
		}
		_ = root.Snapshot()
		var ths []*rt.Thread
		for g := 0; g < 3; g++ {
			ths = append(ths, rt.GoNamed("snapshotter", func() {
				for k := 0; k < 15; k++ {
					sn := root.Snapshot().Counters()
					if len(sn) != len(want) {
						x.failf("concurrent-snapshot-entries", "a snapshot taken while others were being taken has %d counter entries, %d counters exist", len(sn), len(want))
						return
					}
					for key, e := range sn {
						if !want[key] {
							x.failf("concurrent-snapshot-entries", "a snapshot taken while others were being taken has an entry under key %q, which no metric has", key)
							return
						}
						if tally.KeyForPrefixedStringMap(e.Name(), e.Tags()) != key {
							x.failf("concurrent-snapshot-entries", "snapshot entry under key %q is %q %v", key, e.Name(), e.Tags())
							return
						}
					}
				}
			}))
		}
		ths = append(ths, rt.GoNamed("rec", func() {
			for k := 0; k < 30; k++ {
				cs[k%len(cs)].Inc(1)
			}
		}))
		for _, t := range ths {
			t.Join()
		}
	}
	return []*Scenario{sc}
}

// c10RaceScenarios: goroutines record on one timer (reporter-less test scope, cached and plain reporter) at the
// same time; every Record must still be one delivery.
func c10RaceScenarios(tier string) []*Scenario {
	var out []*Scenario
	for _, mode := range []string{"test", "cached", "plain"} {
		mode := mode
		sc := &Scenario{Property: "C10", Name: "W-concurrent-records-one-timer-" + mode}
		sc.Body = func(x *Run) {
			rec := &Recorder{}
			var root tally.Scope
			var ts tally.TestScope
			switch mode {
			case "test":
				ts = tally.VerifNewTestScopeOpts(tally.ScopeOptions{Prefix: "p"}, 1)
				root = ts
			default:
				root, _ = tally.VerifNewRootScope(scopeOpts(rec, mode == "cached", false), 0, 1)
			}
			var ths []*rt.Thread
			for g := 0; g < 3; g++ {
				g := g
				ths = append(ths, rt.GoNamed("user", func() {
					tm := root.SubScope("s").Timer("t") // first use races as well
					for k := 0; k < 10; k++ {
						tm.Record(time.Duration(g*100 + k + 1))
					}
				}))
			}
			for _, t := range ths {
				t.Join()
			}
			n := 0
			if mode == "test" {
				for _, e := range ts.Snapshot().Timers() {
					n += len(e.Values())
				}
			} else {
				rec.mu.Lock()
				for _, e := range rec.Log {
					if e.Kind == "timer" {
						n++
					}
				}
				rec.mu.Unlock()
			}
			if n != 30 {
				x.failf("concurrent-records-not-delivered-exactly-once", "30 durations recorded on one timer by three goroutines (%s), %d delivered", mode, n)
			}
		}
		out = append(out, sc)
	}
	// timers of a scope whose cached reporter is the M3 reporter, recorded from four goroutines at once: body M5 of
	// C14 (every value reported through a shared handle arrives exactly once), judged here for the timer clause
	for _, sc := range c14RaceScenarios(tier) {
		if strings.HasPrefix(sc.Name, "M5-") {
			c := *sc
			c.Property = "C10"
			out = append(out, &c)
		}
	}
	return out
}

// c15RaceScenarios: Close called by several goroutines at once on a UDP transport (single and multi
// destination) returns nil to every caller; writes racing with Close return an error or succeed, never panic.
func c15RaceScenarios(tier string) []*Scenario {
	sc := &Scenario{Property: "C15", Name: "T-concurrent-close"}
	sc.Body = func(x *Run) {
		l, err := net.ListenUDP("udp", &net.UDPAddr{IP: net.IPv4(127, 0, 0, 1)})
		if err != nil {
			return
		}
		defer l.Close()
		for _, multi := range []bool{false, true} {
			var closeFn func() error
			var writeFn func([]byte) (int, error)
			if multi {
				tr, err := thriftudp.NewTMultiUDPClientTransport([]string{l.LocalAddr().String(), l.LocalAddr().String()}, "")
				if err != nil {
					x.failf("new-transport", "%v", err)
					return
				}
				closeFn, writeFn = tr.Close, tr.Write
			} else {
				tr, err := thriftudp.NewTUDPClientTransport(l.LocalAddr().String(), "")
				if err != nil {
					x.failf("new-transport", "%v", err)
					return
				}
				closeFn, writeFn = tr.Close, tr.Write
			}
			errs := make([]error, 3)
			var ths []*rt.Thread
			for g := 0; g < 3; g++ {
				g := g
				ths = append(ths, rt.GoNamed("closer", func() { errs[g] = closeFn() }))
			}
			for _, t := range ths {
				t.Join()
			}
			for g, e := range errs {
				if e != nil {
					x.failf("concurrent-close-not-idempotent", "multi=%v: Close call %d of three concurrent ones returned %v", multi, g, e)
				}
			}
			if _, err := writeFn([]byte("x")); err == nil {
				x.failf("write-after-close-accepted", "multi=%v", multi)
			}
		}
	}
	return []*Scenario{sc}
}

// newGate returns a function that blocks until n goroutines have called it (free-running bodies only): the
// goroutines then start their work at the same moment and without any happens-before edge between them.
func newGate(n int32) func() {
	var arrived int32
	return func() {
		atomic.AddInt32(&arrived, 1)
		for atomic.LoadInt32(&arrived) < n {
			runtime.Gosched()
		}
	}
}

// c18Scenarios: two goroutines report the consecutive buckets of one layout (each lower bound is the previous
// upper bound, as a report pass does) through ONE statsd reporter; package statsd is instrumented for this
// property, so whatever locks or atomics a reporter uses for caching rendered bounds are scheduling points.
func c18Scenarios(tier string) []*Scenario {
	sc := &Scenario{Property: "C18", Name: "P2-two-goroutines-consecutive-buckets"}
	bounds := []float64{-math.MaxFloat64, 1, 2.5, 4, math.MaxFloat64}
	dbounds := []time.Duration{math.MinInt64, time.Millisecond, time.Second, math.MaxInt64}
	sc.Body = func(x *Run) {
		st := &lockedStatter{}
		rep := tstatsd.NewReporter(st, tstatsd.Options{})
		ref := &recStatter{}
		refRep := tstatsd.NewReporter(ref, tstatsd.Options{})
		want := map[string]int{}
		for _, name := range []string{"lat", "size"} {
			for i := 0; i+1 < len(bounds); i++ {
				refRep.ReportHistogramValueSamples(name, nil, nil, bounds[i], bounds[i+1], 1)
			}
			for i := 0; i+1 < len(dbounds); i++ {
				refRep.ReportHistogramDurationSamples(name, nil, nil, dbounds[i], dbounds[i+1], 1)
			}
		}
		for _, c := range ref.calls {
			want[c.name]++
		}
		var ths []*rt.Thread
		for _, name := range []string{"lat", "size"} {
			name := name
			ths = append(ths, rt.GoNamed("pass-"+name, func() {
				for i := 0; i+1 < len(bounds); i++ {
					rep.ReportHistogramValueSamples(name, nil, nil, bounds[i], bounds[i+1], 1)
				}
				for i := 0; i+1 < len(dbounds); i++ {
					rep.ReportHistogramDurationSamples(name, nil, nil, dbounds[i], dbounds[i+1], 1)
				}
			}))
		}
		for _, t := range ths {
			t.Join()
		}
		got := map[string]int{}
		for _, c := range st.calls {
			got[c.name]++
		}
		for n, w := range want {
			if got[n] != w {
				x.failf("concurrent-bucket-stat-name", "stat %q: %d increments expected, %d arrived; stat names seen %v", n, w, got[n], keysOf(got))
				return
			}
		}
		if len(got) != len(want) {
			x.failf("concurrent-bucket-stat-name", "increments arrived under stat names no sequential call produces: %v", keysOf(got))
		}
	}
	sc.Check = func(x *Run, o *rt.Outcome) (string, string, string) { return "", "", "ok" }
	return []*Scenario{sc}
}

func keysOf(m map[string]int) []string {
	var ks []string
	for k := range m {
		ks = append(ks, k)
	}
	sort.Strings(ks)
	return ks
}
