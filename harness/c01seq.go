package main

import (
	"fmt"
	"math"

	tally "github.com/uber-go/tally/v4"
)

// c01SeqJobs: increment histories over the int64 extremes with passes in between.
func c01SeqJobs(tier string) []*SeqJob {
	vals := []int64{0, 1, -1, math.MaxInt64, math.MinInt64}
	var alphabet []string
	for _, v := range vals {
		alphabet = append(alphabet, fmt.Sprintf("inc %d", v))
	}
	alphabet = append(alphabet, "pass", "snapshot")
	depth := tierInt(tier, 6, 8)
	exec := func(cached bool) func(hist []int) (string, string, string, int) {
		return func(hist []int) (cl, det, key string, steps int) {
			cl, det = guard(func() (string, string) {
				rec := &Recorder{NoPoints: true}
				root, _ := tally.VerifNewRootScope(scopeOpts(rec, cached, false), 0, 1)
				c := root.Tagged(map[string]string{"k": "v"}).Counter("c")
				var pending, total, delivered int64
				nonneg, overflow := true, false
				pass := func() (string, string) {
					m := len(rec.Log)
					tally.VerifReportOnce(root)
					steps++
					n := 0
					for _, e := range rec.Log[m:] {
						if e.Kind != "counter" {
							continue
						}
						n++
						delivered += e.I
						if e.I == 0 {
							return "zero-delta", e.String()
						}
						if e.I != pending {
							return "delta-not-the-pending-sum", fmt.Sprintf("pass delivered %d, increments since the last pass add up to %d", e.I, pending)
						}
						if nonneg && !overflow && e.I < 0 {
							return "negative-delta", e.String()
						}
					}
					if n > 1 || (n == 0 && pending != 0) {
						return "delivery-count", fmt.Sprintf("%d deliveries in one pass with pending sum %d", n, pending)
					}
					pending = 0
					return "", ""
				}
				for _, op := range hist {
					if op < len(vals) {
						v := vals[op]
						c.Inc(v)
						steps++
						if v < 0 {
							nonneg = false
						}
						if (v > 0 && pending > math.MaxInt64-v) || (v < 0 && pending < math.MinInt64-v) {
							overflow = true
						}
						pending += v
						total += v
					} else if alphabet[op] == "snapshot" {
						// looking at a reporting scope (every scope offers Snapshot) must not consume anything
						takeSnapshot(root)
						steps++
					} else if cl, d := pass(); cl != "" {
						return cl, d
					}
				}
				key = fmt.Sprint(cached, pending, total, nonneg, overflow)
				if cl, d := pass(); cl != "" {
					return cl, d
				}
				if delivered != total {
					return "sum-mismatch", fmt.Sprintf("delivered %d, increments %d", delivered, total)
				}
				if cl, d := pass(); cl != "" {
					return cl, d
				}
				return "", ""
			})
			return
		}
	}
	j := &SeqJob{Property: "C01", Name: "D-increment-histories-int64-extremes"}
	j.Run = func(ctx *SeqCtx) {
		bfs(ctx, alphabet, depth, exec(true))
		if ctx.viol == nil && !ctx.st.TimedOut {
			bfs(ctx, alphabet, depth, exec(false))
		}
	}
	j.Replay = func(ops []string) (string, string) {
		for _, cached := range []bool{true, false} {
			if cl, det, _, _ := exec(cached)(opIndex(alphabet, ops)); cl != "" {
				return cl, det
			}
		}
		return "", ""
	}
	return []*SeqJob{j}
}

// c02SeqJobs: the float64 payload alphabet, all update/pass histories on one thread.
func c02SeqJobs(tier string) []*SeqJob {
	// (the all-ones and all-but-sign patterns are NaNs too: a value an implementation may be tempted to reserve)
	vals := []float64{1.0, math.Copysign(0, -1), 0, math.Inf(1), math.Inf(-1), nan1, nan2, 5e-324, math.MaxFloat64,
		math.Float64frombits(math.MaxUint64), math.Float64frombits(math.MaxInt64)}
	var alphabet []string
	for _, v := range vals {
		alphabet = append(alphabet, fmt.Sprintf("upd %#x", math.Float64bits(v)))
	}
	alphabet = append(alphabet, "pass", "snapshot")
	depth := tierInt(tier, 4, 5)
	exec := func(cached bool) func(hist []int) (string, string, string, int) {
		return func(hist []int) (cl, det, key string, steps int) {
			cl, det = guard(func() (string, string) {
				rec := &Recorder{NoPoints: true}
				root, _ := tally.VerifNewRootScope(scopeOpts(rec, cached, false), 0, 1)
				g := root.SubScope("s").Gauge("g")
				dirty := false
				var last uint64
				nupd, ndel := 0, 0
				pass := func() (string, string) {
					m := len(rec.Log)
					tally.VerifReportOnce(root)
					steps++
					n := 0
					for _, e := range rec.Log[m:] {
						if e.Kind != "gauge" {
							continue
						}
						n++
						ndel++
						if !dirty {
							return "redelivered-without-update", e.String()
						}
						if e.F != last {
							return "value-not-the-last-update", fmt.Sprintf("delivered bits %#x, last Update had bits %#x", e.F, last)
						}
						if e.Name != "s.g" || e.Cached != cached {
							return "wrong-name-or-path", e.String()
						}
					}
					if n > 1 || (dirty && n == 0) {
						return "delivery-count", fmt.Sprintf("%d deliveries in one pass, updated since last delivery: %v", n, dirty)
					}
					dirty = false
					return "", ""
				}
				for _, op := range hist {
					if op < len(vals) {
						g.Update(vals[op])
						steps++
						dirty, last = true, math.Float64bits(vals[op])
						nupd++
					} else if alphabet[op] == "snapshot" {
						takeSnapshot(root)
						steps++
					} else if cl, d := pass(); cl != "" {
						return cl, d
					}
				}
				key = fmt.Sprint(cached, dirty, last, nupd > 0)
				if cl, d := pass(); cl != "" {
					return cl, d
				}
				if cl, d := pass(); cl != "" {
					return cl, d
				}
				if ndel > nupd {
					return "more-deliveries-than-updates", fmt.Sprintf("%d deliveries, %d updates", ndel, nupd)
				}
				return "", ""
			})
			return
		}
	}
	j := &SeqJob{Property: "C02", Name: "payload-histories"}
	j.Run = func(ctx *SeqCtx) {
		bfs(ctx, alphabet, depth, exec(true))
		if ctx.viol == nil && !ctx.st.TimedOut {
			bfs(ctx, alphabet, depth, exec(false))
		}
	}
	j.Replay = func(ops []string) (string, string) {
		for _, cached := range []bool{true, false} {
			if cl, det, _, _ := exec(cached)(opIndex(alphabet, ops)); cl != "" {
				return cl, det
			}
		}
		return "", ""
	}
	return []*SeqJob{j}
}

// takeSnapshot calls Snapshot on a scope that reports to a reporter (the scope type implements TestScope).
func takeSnapshot(s tally.Scope) {
	if ts, ok := s.(interface{ Snapshot() tally.Snapshot }); ok {
		_ = ts.Snapshot()
	}
}

// c01PanicJob: the environment deviates - a reporter call panics after the reporter has booked the value (a fan-out
// reporter whose second backend fails), and the application recovers above the library. At most two such failures
// per history. Whatever had been handed over when the call failed counts as delivered: no later pass hands it over
// again, nothing else is lost, and a pass with nothing new delivers nothing. (Everything is created before the first
// failure: the library does not promise that a scope whose reporter has panicked can still create metrics.)
// Run under the controlled scheduler, where a lock left behind shows as a deadlock instead of a hung worker.
func c01PanicJob(tier string) *SeqJob {
	alphabet := []string{"inc a 1", "inc b 2", "inc sub 4", "hist 1.5", "pass", "pass with a failing delivery"}
	depth := tierInt(tier, 5, 7)
	exec := func(cached bool) func(hist []int) (string, string, string, int) {
		return func(hist []int) (cl, det, key string, steps int) {
			var icl, idet string
			ccl, cdet := controlledCase(0, func() {
				icl, idet = guard(func() (string, string) {
					rec := &Recorder{NoPoints: true}
					root, _ := tally.VerifNewRootScope(scopeOpts(rec, cached, false), 0, 1)
					sub := root.Tagged(map[string]string{"k": "v"})
					a, b, sc, h := root.Counter("a"), root.Counter("b"), sub.Counter("c"), root.Histogram("h", tally.ValueBuckets{1, 2})
					want := map[string]int64{}
					pend := map[string]bool{}
					var hwant int64
					failures := 0
					pass := func(fail bool) (cl, det string) {
						if fail {
							rec.PanicNextDelivery = true
						}
						m := len(rec.Log)
						func() {
							defer func() {
								if r := recover(); r != nil {
									if _, ok := r.(ReporterPanic); !ok {
										panic(r)
									}
								}
							}()
							tally.VerifReportOnce(root)
						}()
						rec.PanicNextDelivery = false
						steps++
						if !fail {
							seen := map[string]bool{}
							for _, e := range rec.Log[m:] {
								if e.Kind == "counter" || e.Kind == "hvalue" {
									if !pend[e.ID()] && e.I != 0 {
										return "delivery-without-new-data", fmt.Sprintf("%v: %s delivered by a pass although nothing was recorded since it was last handed over", histLabels(alphabet, hist), e.String())
									}
									seen[e.ID()] = true
								}
							}
							pend = map[string]bool{}
						} else {
							// whatever was handed over before (and including) the failing call is no longer pending
							for _, e := range rec.Log[m:] {
								if e.Kind == "counter" || e.Kind == "hvalue" {
									delete(pend, e.ID())
								}
							}
						}
						return "", ""
					}
					v := int64(1)
					for _, op := range hist {
						switch alphabet[op] {
						case "inc a 1":
							a.Inc(v)
							want["a{}"] += v
							pend["a{}"] = true
						case "inc b 2":
							b.Inc(v)
							want["b{}"] += v
							pend["b{}"] = true
						case "inc sub 4":
							sc.Inc(v)
							want[`c{"k":"v"}`] += v
							pend[`c{"k":"v"}`] = true
						case "hist 1.5":
							h.RecordValue(1.5)
							hwant++
							pend["h{}"] = true
						case "pass":
							if cl, d := pass(false); cl != "" {
								return cl, d
							}
						default:
							if failures >= 2 {
								continue
							}
							failures++
							if cl, d := pass(true); cl != "" {
								return cl, d
							}
						}
						v *= 2
						steps++
					}
					key = fmt.Sprint(cached, keysSorted(pend), failures, len(want), hwant > 0)
					// a failing pass may have stopped before it reached everything: two more ordinary passes
					if cl, d := pass(false); cl != "" {
						return cl, d
					}
					if cl, d := pass(false); cl != "" {
						return cl, d
					}
					got := sumCounters(rec.Log, 0, len(rec.Log))
					for id, w := range want {
						if got[id] != w {
							return "sum-mismatch", fmt.Sprintf("%v: counter %s: delivered deltas add up to %d, increments add up to %d (%d reporter calls failed after booking the value)", histLabels(alphabet, hist), id, got[id], w, failures)
						}
					}
					var hgot int64
					for _, e := range rec.Log {
						if e.Kind == "hvalue" {
							hgot += e.I
						}
					}
					if hgot != hwant {
						return "sum-mismatch", fmt.Sprintf("%v: histogram h: %d samples delivered, %d recorded (%d reporter calls failed after booking the value)", histLabels(alphabet, hist), hgot, hwant, failures)
					}
					return "", ""
				})
			})
			if ccl != "" {
				return ccl, fmt.Sprintf("%v: %s", histLabels(alphabet, hist), cdet), key, steps
			}
			return icl, idet, key, steps
		}
	}
	j := &SeqJob{Property: "C01", Name: "P-histories-with-a-reporter-call-that-fails-after-booking", Controlled: true, Shards: 2}
	j.Run = func(ctx *SeqCtx) {
		for _, cached := range []bool{true, false} {
			ctx.OpsPrefix = []string{fmt.Sprint(cached)}
			ctx.ResetSeen()
			bfs(ctx, alphabet, depth, exec(cached))
			if ctx.viol != nil || ctx.st.TimedOut {
				return
			}
		}
	}
	j.Replay = func(ops []string) (string, string) {
		var cached bool
		fmt.Sscan(ops[0], &cached)
		cl, det, _, _ := exec(cached)(opIndex(alphabet, ops[1:]))
		return cl, det
	}
	return j
}
