package main

import (
	"fmt"
	"math"

	tally "github.com/uber-go/tally/v4"
)

// c01SeqJobs: increment histories over the int64 extremes with passes in between.
func c01SeqJobs(tier string) []*SeqJob {
	vals := []int64{0, 1, -1, math.MaxInt64, math.MinInt64}
	var alphabet []string
	for _, v := range vals {
		alphabet = append(alphabet, fmt.Sprintf("inc %d", v))
	}
	alphabet = append(alphabet, "pass", "snapshot")
	depth := tierInt(tier, 6, 8)
	exec := func(cached bool) func(hist []int) (string, string, string, int) {
		return func(hist []int) (cl, det, key string, steps int) {
			cl, det = guard(func() (string, string) {
				rec := &Recorder{NoPoints: true}
				root, _ := tally.VerifNewRootScope(scopeOpts(rec, cached, false), 0, 1)
				c := root.Tagged(map[string]string{"k": "v"}).Counter("c")
				var pending, total, delivered int64
				nonneg, overflow := true, false
				pass := func() (string, string) {
					m := len(rec.Log)
					tally.VerifReportOnce(root)
					steps++
					n := 0
					for _, e := range rec.Log[m:] {
						if e.Kind != "counter" {
							continue
						}
						n++
						delivered += e.I
						if e.I == 0 {
							return "zero-delta", e.String()
						}
						if e.I != pending {
							return "delta-not-the-pending-sum", fmt.Sprintf("pass delivered %d, increments since the last pass add up to %d", e.I, pending)
						}
						if nonneg && !overflow && e.I < 0 {
							return "negative-delta", e.String()
						}
					}
					if n > 1 || (n == 0 && pending != 0) {
						return "delivery-count", fmt.Sprintf("%d deliveries in one pass with pending sum %d", n, pending)
					}
					pending = 0
					return "", ""
				}
				for _, op := range hist {
					if op < len(vals) {
						v := vals[op]
						c.Inc(v)
						steps++
						if v < 0 {
							nonneg = false
						}
						if (v > 0 && pending > math.MaxInt64-v) || (v < 0 && pending < math.MinInt64-v) {
							overflow = true
						}
						pending += v
						total += v
					} else if alphabet[op] == "snapshot" {
						// looking at a reporting scope (every scope offers Snapshot) must not consume anything
						takeSnapshot(root)
						steps++
					} else if cl, d := pass(); cl != "" {
						return cl, d
					}
				}
				key = fmt.Sprint(cached, pending, total, nonneg, overflow)
				if cl, d := pass(); cl != "" {
					return cl, d
				}
				if delivered != total {
					return "sum-mismatch", fmt.Sprintf("delivered %d, increments %d", delivered, total)
				}
				if cl, d := pass(); cl != "" {
					return cl, d
				}
				return "", ""
			})
			return
		}
	}
	j := &SeqJob{Property: "C01", Name: "D-increment-histories-int64-extremes"}
	j.Run = func(ctx *SeqCtx) {
		bfs(ctx, alphabet, depth, exec(true))
		if ctx.viol == nil && !ctx.st.TimedOut {
			bfs(ctx, alphabet, depth, exec(false))
		}
	}
	j.Replay = func(ops []string) (string, string) {
		for _, cached := range []bool{true, false} {
			if cl, det, _, _ := exec(cached)(opIndex(alphabet, ops)); cl != "" {
				return cl, det
			}
		}
		return "", ""
	}
	return []*SeqJob{j}
}

// c02SeqJobs: the float64 payload alphabet, all update/pass histories on one thread.
func c02SeqJobs(tier string) []*SeqJob {
	// (the all-ones and all-but-sign patterns are NaNs too: a value an implementation may be tempted to reserve)
	vals := []float64{1.0, math.Copysign(0, -1), 0, math.Inf(1), math.Inf(-1), nan1, nan2, 5e-324, math.MaxFloat64,
		math.Float64frombits(math.MaxUint64), math.Float64frombits(math.MaxInt64)}
	var alphabet []string
	for _, v := range vals {
		alphabet = append(alphabet, fmt.Sprintf("upd %#x", math.Float64bits(v)))
	}
	alphabet = append(alphabet, "pass", "snapshot")
	depth := tierInt(tier, 4, 5)
	exec := func(cached bool) func(hist []int) (string, string, string, int) {
		return func(hist []int) (cl, det, key string, steps int) {
			cl, det = guard(func() (string, string) {
				rec := &Recorder{NoPoints: true}
				root, _ := tally.VerifNewRootScope(scopeOpts(rec, cached, false), 0, 1)
				g := root.SubScope("s").Gauge("g")
				dirty := false
				var last uint64
				nupd, ndel := 0, 0
				pass := func() (string, string) {
					m := len(rec.Log)
					tally.VerifReportOnce(root)
					steps++
					n := 0
					for _, e := range rec.Log[m:] {
						if e.Kind != "gauge" {
							continue
						}
						n++
						ndel++
						if !dirty {
							return "redelivered-without-update", e.String()
						}
						if e.F != last {
							return "value-not-the-last-update", fmt.Sprintf("delivered bits %#x, last Update had bits %#x", e.F, last)
						}
						if e.Name != "s.g" || e.Cached != cached {
							return "wrong-name-or-path", e.String()
						}
					}
					if n > 1 || (dirty && n == 0) {
						return "delivery-count", fmt.Sprintf("%d deliveries in one pass, updated since last delivery: %v", n, dirty)
					}
					dirty = false
					return "", ""
				}
				for _, op := range hist {
					if op < len(vals) {
						g.Update(vals[op])
						steps++
						dirty, last = true, math.Float64bits(vals[op])
						nupd++
					} else if alphabet[op] == "snapshot" {
						takeSnapshot(root)
						steps++
					} else if cl, d := pass(); cl != "" {
						return cl, d
					}
				}
				key = fmt.Sprint(cached, dirty, last, nupd > 0)
				if cl, d := pass(); cl != "" {
					return cl, d
				}
				if cl, d := pass(); cl != "" {
					return cl, d
				}
				if ndel > nupd {
					return "more-deliveries-than-updates", fmt.Sprintf("%d deliveries, %d updates", ndel, nupd)
				}
				return "", ""
			})
			return
		}
	}
	j := &SeqJob{Property: "C02", Name: "payload-histories"}
	j.Run = func(ctx *SeqCtx) {
		bfs(ctx, alphabet, depth, exec(true))
		if ctx.viol == nil && !ctx.st.TimedOut {
			bfs(ctx, alphabet, depth, exec(false))
		}
	}
	j.Replay = func(ops []string) (string, string) {
		for _, cached := range []bool{true, false} {
			if cl, det, _, _ := exec(cached)(opIndex(alphabet, ops)); cl != "" {
				return cl, det
			}
		}
		return "", ""
	}
	return []*SeqJob{j}
}

// takeSnapshot calls Snapshot on a scope that reports to a reporter (the scope type implements TestScope).
func takeSnapshot(s tally.Scope) {
	if ts, ok := s.(interface{ Snapshot() tally.Snapshot }); ok {
		_ = ts.Snapshot()
	}
}
