package main

import (
	"fmt"
	"sort"

	tally "github.com/uber-go/tally/v4"
)

// (One registry shard: with several shards two raw spellings of one sanitized identity may
// hash to different shards and get separate scopes, which no listed property forbids - C05
// speaks of inputs the sanitizer leaves unchanged.)
// c07SeqJob: breadth-first search over histories of obtain / record / Close /
// re-obtain / derive-child / pass on ONE root with a sanitizer, where two raw
// spellings denote one identity. Reference model: per scope *object* whether it
// is closed, per identity which object is registered, and what has been
// recorded on objects while they were live.
func c07SeqJob(tier string) *SeqJob {
	alnum := tally.ValidCharacters{Ranges: tally.AlphanumericRange, Characters: tally.UnderscoreCharacters}
	so := tally.SanitizeOptions{NameCharacters: alnum, KeyCharacters: alnum, ValueCharacters: alnum, ReplacementCharacter: '_'}
	type spelling struct {
		label string
		tags  map[string]string
		ident string
	}
	spells := []spelling{
		{"A", map[string]string{"dc": "eu-1"}, `{"dc":"eu_1"}`},
		{"B", map[string]string{"dc": "eu_1"}, `{"dc":"eu_1"}`},
		{"C", map[string]string{"dc": "us"}, `{"dc":"us"}`},
	}
	var alphabet []string
	for _, sp := range spells {
		alphabet = append(alphabet, "get "+sp.label, "inc "+sp.label, "close "+sp.label, "child "+sp.label)
	}
	// derivations that add nothing (nil / empty tags, empty subscope name): the scope itself while it is live, inert once it is closed
	alphabet = append(alphabet, "same A", "same C")
	alphabet = append(alphabet, "pass")
	exec := func(cached bool, shards uint) func(hist []int) (string, string, string, int) {
		return func(hist []int) (cl, det, key string, steps int) {
			cl, det = guard(func() (string, string) {
				rec := &Recorder{NoPoints: true}
				o := scopeOpts(rec, cached, true) // a reporter that can be closed: only the root's Close may close it
				o.SanitizeOptions = &so
				root, _ := tally.VerifNewRootScope(o, 0, shards)
				// the reporter reports on itself: every Flush it is given counts itself on a scope of this root (a call
				// back into the library from a reporter's Flush: nothing the library holds at that moment may be in the way)
				rec.OnFlush = func() { root.Tagged(map[string]string{"component": "reporter"}).Counter("flushes").Inc(1) }
				type obj struct {
					s      tally.Scope
					closed bool
					ident  string
					// handles kept by the application from the moment the scope was obtained (a handle that outlives
					// its scope must stay harmless: what it records may be dropped, never delivered elsewhere)
					c tally.Counter
					h tally.Histogram
				}
				hwant := map[string]int64{}     // identity -> histogram samples recorded on live objects
				hoptional := map[string]int64{} // identity -> histogram samples recorded on objects after their Close
				handle := map[string]*obj{}     // spelling -> last object obtained through it
				registered := map[string]*obj{} // identity -> object the model expects to be registered
				byScope := map[tally.Scope]*obj{}
				want := map[string]int64{}     // identity -> sum of increments made on live objects
				optional := map[string]int64{} // identity -> sum of increments made on objects after their Close
				childWant := int64(0)
				next := int64(1)
				var closedLog []string
				// lifecycle events in order (object created, closed, dropped by a pass): what an implementation recycles
				// depends on their order, which the reference state alone does not show
				var life []string
				usedSpell := map[string]bool{}
				for _, op := range hist {
					var what, lbl string
					fmt.Sscanf(alphabet[op], "%s %s", &what, &lbl)
					steps++
					if what == "pass" {
						tally.VerifReportOnce(root)
						// a pass drops closed scopes from the registry
						for id, ob := range registered {
							if ob.closed {
								delete(registered, id)
								life = append(life, "P")
							}
						}
						continue
					}
					var sp spelling
					for _, x := range spells {
						if x.label == lbl {
							sp = x
						}
					}
					switch what {
					case "get":
						usedSpell[lbl] = true
						s := root.Tagged(cloneTags(sp.tags))
						if tally.VerifIsNoop(s) {
							return "obtained-scope-inert", fmt.Sprintf("%v: Tagged(%s) on a live root returned the inert scope", histLabels(alphabet, hist), tagString(sp.tags))
						}
						exp := registered[sp.ident]
						ob := byScope[s]
						switch {
						case exp != nil && !exp.closed:
							if ob != exp {
								return "live-scope-not-shared", fmt.Sprintf("%v: identity %s has a live registered scope but Tagged(%s) returned another object", histLabels(alphabet, hist), sp.ident, tagString(sp.tags))
							}
						default:
							if ob != nil && ob.closed {
								return "closed-scope-handed-out", fmt.Sprintf("%v: Tagged(%s) returned a scope that had been closed", histLabels(alphabet, hist), tagString(sp.tags))
							}
							if ob == nil {
								ob = &obj{s: s, ident: sp.ident}
								ob.c, ob.h = s.Counter("c"), s.Histogram("h", tally.ValueBuckets{1, 2})
								byScope[s] = ob
								life = append(life, "N"+lbl)
							}
							registered[sp.ident] = ob
						}
						handle[lbl] = ob
					case "inc":
						ob := handle[lbl]
						if ob == nil {
							continue
						}
						ob.c.Inc(next)
						ob.h.RecordValue(1.5)
						if !ob.closed {
							want[ob.ident] += next
							hwant[ob.ident]++
						} else {
							optional[ob.ident] += next // recorded after Close: not guaranteed either way
							hoptional[ob.ident]++
						}
						next *= 2
					case "close":
						ob := handle[lbl]
						if ob == nil {
							continue
						}
						closeScope(ob.s)
						if !ob.closed {
							life = append(life, "X"+lbl)
						}
						ob.closed = true
						closedLog = append(closedLog, lbl)
					case "same":
						ob := handle[lbl]
						if ob == nil {
							continue
						}
						for i, ch := range []tally.Scope{ob.s.Tagged(nil), ob.s.Tagged(map[string]string{}), ob.s.SubScope("")} {
							if ob.closed && !tally.VerifIsNoop(ch) {
								return "inertness-of-derived-scope", fmt.Sprintf("%v: derivation %d (0 Tagged(nil), 1 Tagged({}), 2 SubScope(\"\")) from a closed scope is not inert", histLabels(alphabet, hist), i)
							}
							ch.Counter("c").Inc(next)
							ch.Timer("late").Record(1)
							if !ob.closed {
								want[ob.ident] += next
							}
							next *= 2
						}
					case "child":
						ob := handle[lbl]
						if ob == nil {
							continue
						}
						ch := ob.s.Tagged(map[string]string{"child": "1"})
						if ob.closed != tally.VerifIsNoop(ch) {
							return "inertness-of-derived-scope", fmt.Sprintf("%v: scope derived from a scope with closed=%v: inert=%v", histLabels(alphabet, hist), ob.closed, tally.VerifIsNoop(ch))
						}
						ch.Counter("cc").Inc(1)
						if !ob.closed {
							childWant++
						}
					}
				}
				// canonical model state
				var ks []string
				for id, ob := range registered {
					ks = append(ks, fmt.Sprintf("%s:%v", id, ob.closed))
				}
				for l, ob := range handle {
					ks = append(ks, fmt.Sprintf("h%s:%v:%v", l, ob.closed, registered[ob.ident] == ob))
				}
				// the registry remembers raw keys: which spellings have been used matters to the implementation
				for l := range usedSpell {
					ks = append(ks, "used"+l)
				}
				sort.Strings(ks)
				key = fmt.Sprint(cached, shards, ks, want, childWant > 0, life)
				tally.VerifReportOnce(root)
				tally.VerifReportOnce(root)
				for i, e := range rec.Log {
					if e.Kind == "close" {
						return "subscope-close-closed-the-reporter", fmt.Sprintf("%v: log[%d]: the reporter - shared by every scope of the root - was closed although only subscopes were closed", histLabels(alphabet, hist), i)
					}
				}
				got := sumCounters(rec.Log, 0, len(rec.Log))
				ids := map[string]bool{}
				for id := range want {
					ids[id] = true
				}
				for id := range got {
					if len(id) > 1 && id[0] == 'c' && id[1] == '{' {
						ids[id[1:]] = true
					}
				}
				for id := range ids {
					g, w, o := got["c"+id], want[id], optional[id]
					if g < w || (g-w)&^o != 0 {
						return "recorded-before-close-not-delivered-exactly-once", fmt.Sprintf("%v: identity %s: %d recorded on live scopes (plus %d recorded after a Close), %d delivered", histLabels(alphabet, hist), id, w, o, g)
					}
				}
				// histogram samples: per identity at least what was recorded on live objects, at most that plus what
				// was recorded on objects of that identity after their Close - and all of it in the bucket (1,2]
				hgot := map[string]int64{}
				for _, e := range rec.Log {
					if e.Kind == "hvalue" && e.I != 0 {
						if e.HiF != 2 {
							return "histogram-sample-in-wrong-bucket", fmt.Sprintf("%v: %s", histLabels(alphabet, hist), e.String())
						}
						hgot[e.ID()] += e.I
					}
				}
				hids := map[string]bool{}
				for id := range hwant {
					hids["h"+id] = true
				}
				for id := range hgot {
					hids[id] = true
				}
				for hid := range hids {
					id := hid[1:]
					if g, w, o := hgot[hid], hwant[id], hoptional[id]; g < w || g > w+o {
						return "recorded-before-close-not-delivered-exactly-once", fmt.Sprintf("%v: identity %s: %d histogram samples recorded on live scopes (plus %d through handles of closed ones), %d delivered", histLabels(alphabet, hist), id, w, o, g)
					}
				}
				var gc int64
				for id, g := range got {
					if len(id) > 2 && id[:2] == "cc" {
						gc += g
					}
				}
				if gc != childWant {
					return "derived-scope-delivery", fmt.Sprintf("%v: %d recorded on scopes derived from live scopes, %d delivered", histLabels(alphabet, hist), childWant, gc)
				}
				return "", ""
			})
			return
		}
	}
	depth := tierInt(tier, 6, 7)
	// (run under the controlled scheduler's default schedule: sync.Pool is then a deterministic stack that is emptied
	// between executions, so that a history involving a recycled object replays exactly)
	plainExec := exec
	exec = func(cached bool, shards uint) func(hist []int) (string, string, string, int) {
		f := plainExec(cached, shards)
		return func(hist []int) (cl, det, key string, steps int) {
			ccl, cdet := controlledCase(0, func() { cl, det, key, steps = f(hist) })
			if ccl != "" {
				return ccl, fmt.Sprintf("%v: %s", histLabels(alphabet, hist), cdet), key, steps
			}
			return
		}
	}
	j := &SeqJob{Property: "C07", Name: "cycle-histories-two-spellings-one-identity", Shards: len(alphabet), Controlled: true}
	j.Run = func(ctx *SeqCtx) {
		bfs(ctx, alphabet, depth, exec(true, 1))
		if ctx.viol == nil && !ctx.st.TimedOut {
			bfs(ctx, alphabet, depth-1, exec(false, 1))
		}
	}
	j.Replay = func(ops []string) (string, string) {
		for _, c := range []struct {
			cached bool
			sh     uint
		}{{true, 1}, {false, 1}} {
			if cl, det, _, _ := exec(c.cached, c.sh)(opIndex(alphabet, ops)); cl != "" {
				return cl, det
			}
		}
		return "", ""
	}
	return j
}

// c07TaggedRootJob: cycles on a root that has tags of its own, with a subscope derived by NAME (it carries exactly
// its parent's tag set - an implementation may share the map) next to one derived by tags: obtain / record / Close /
// pass / re-obtain histories, recording on the root and on the sibling in between. Closing and dropping one scope
// changes nothing about the name and tags any other scope - the root included - is delivered under.
func c07TaggedRootJob(tier string) *SeqJob {
	alphabet := []string{"get D", "inc D", "close D", "get T", "inc T", "close T", "inc root", "get DD", "inc DD", "pass"}
	depth := tierInt(tier, 5, 6)
	exec := func(cached bool) func(hist []int) (string, string, string, int) {
		return func(hist []int) (cl, det, key string, steps int) {
			cl, det = guard(func() (string, string) {
				rec := &Recorder{NoPoints: true}
				o := scopeOpts(rec, cached, false)
				o.Tags = map[string]string{"r": "0"}
				o.Prefix = "p"
				root, _ := tally.VerifNewRootScope(o, 0, 1)
				type obj struct {
					s      tally.Scope
					closed bool
				}
				cur := map[string]*obj{}
				ids := map[string]string{"D": `p.d.c{"r":"0"}`, "T": `p.c{"k":"v","r":"0"}`, "DD": `p.d.e.c{"r":"0"}`, "root": `p.c{"r":"0"}`}
				want := map[string]int64{}
				optional := map[string]int64{}
				v := int64(1)
				for _, op := range hist {
					var what, lbl string
					fmt.Sscanf(alphabet[op], "%s %s", &what, &lbl)
					steps++
					switch what {
					case "pass":
						tally.VerifReportOnce(root)
					case "get":
						var s tally.Scope
						switch lbl {
						case "D":
							s = root.SubScope("d")
						case "T":
							s = root.Tagged(map[string]string{"k": "v"})
						case "DD":
							// derived from the current D object, whatever its state
							if cur["D"] == nil {
								continue
							}
							s = cur["D"].s.SubScope("e")
							if cur["D"].closed {
								if !tally.VerifIsNoop(s) {
									return "inertness-of-derived-scope", fmt.Sprintf("%v", histLabels(alphabet, hist))
								}
								continue
							}
						}
						if tally.VerifIsNoop(s) {
							return "obtained-scope-inert", fmt.Sprintf("%v", histLabels(alphabet, hist))
						}
						if ob := cur[lbl]; ob == nil || ob.s != s {
							cur[lbl] = &obj{s: s}
						}
					case "inc":
						if lbl == "root" {
							root.Counter("c").Inc(v)
							want[ids["root"]] += v
						} else if ob := cur[lbl]; ob != nil {
							ob.s.Counter("c").Inc(v)
							if ob.closed {
								optional[ids[lbl]] += v
							} else {
								want[ids[lbl]] += v
							}
						}
						v *= 2
					case "close":
						if ob := cur[lbl]; ob != nil {
							closeScope(ob.s)
							ob.closed = true
						}
					}
				}
				var ks []string
				for l, ob := range cur {
					ks = append(ks, fmt.Sprintf("%s:%v", l, ob.closed))
				}
				sort.Strings(ks)
				key = fmt.Sprint(cached, hist) // (what a dropped scope takes with it depends on the order of events: no merging)
				_ = ks
				tally.VerifReportOnce(root)
				tally.VerifReportOnce(root)
				got := sumCounters(rec.Log, 0, len(rec.Log))
				for id, g := range got {
					w, o := want[id], optional[id]
					if g < w || (g-w)&^o != 0 {
						return "delivered-under-wrong-name-or-tags-or-not-exactly-once", fmt.Sprintf("%v: %s: %d delivered, %d recorded on live scopes (plus %d after a Close); all deliveries %v", histLabels(alphabet, hist), id, g, w, o, got)
					}
				}
				for id, w := range want {
					if got[id] < w {
						return "delivered-under-wrong-name-or-tags-or-not-exactly-once", fmt.Sprintf("%v: %s: %d delivered, %d recorded on live scopes; all deliveries %v", histLabels(alphabet, hist), id, got[id], w, got)
					}
				}
				return "", ""
			})
			return
		}
	}
	j := &SeqJob{Property: "C07", Name: "cycles-under-a-tagged-root-subscope-by-name", Shards: 2}
	j.Run = func(ctx *SeqCtx) {
		for _, cached := range []bool{true, false} {
			ctx.OpsPrefix = []string{fmt.Sprint(cached)}
			ctx.ResetSeen()
			bfs(ctx, alphabet, depth, exec(cached))
			if ctx.viol != nil || ctx.st.TimedOut {
				return
			}
		}
	}
	j.Replay = func(ops []string) (string, string) {
		var cached bool
		fmt.Sscan(ops[0], &cached)
		cl, det, _, _ := exec(cached)(opIndex(alphabet, ops[1:]))
		return cl, det
	}
	return j
}
