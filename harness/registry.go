package main

import (
	"fmt"
	"strings"
	"time"

	rt "github.com/uber-go/tally/v4/verifrt"
)

// schedScenarios returns the sched scenarios of a property for a tier.
func schedScenarios(prop, tier string) []*Scenario {
	switch prop {
	case "C01":
		return c01Scenarios(tier)
	case "C08":
		return c08Scenarios(tier)
	case "C07":
		return c07Scenarios(tier)
	case "C02":
		return c02Scenarios(tier)
	case "C09":
		return c09Scenarios(tier)
	case "C06":
		return c06Scenarios(tier)
	case "C11":
		return c11Scenarios(tier)
	case "C20":
		return c20Scenarios(tier)
	case "C13":
		return c13Scenarios(tier)
	case "C14":
		return c14Scenarios(tier)
	case "C19":
		return c19Scenarios(tier)
	case "C17":
		return c17Scenarios(tier)
	case "C12":
		return c12Scenarios(tier)
	case "C15":
		return c15Scenarios(tier)
	case "C18":
		return c18Scenarios(tier)
	case "C16":
		// the size the calculator reports for a structure must be the size of THAT structure whatever other goroutines
		// have it measure at the same moment (the encoder's output for it does not depend on them): scenarios K and K2
		// of C12 - one reporter, two reporters allocating concurrently - judged here under this property
		var out []*Scenario
		for _, sc := range c12Scenarios(tier) {
			c := *sc
			c.Property = "C16"
			out = append(out, &c)
		}
		return out
	}
	return nil
}

// schedBound is the preemption bound per tier.
func schedBound(prop, tier string) int {
	if tier == "thorough" {
		return 3
	}
	return 2
}

func listItems(prop, tier string) []Item {
	var items []Item
	budget := 60
	if tier == "thorough" {
		budget = 600
	}
	for _, s := range schedScenarios(prop, tier) {
		sh := s.Shards
		if sh < 1 {
			sh = 1
		}
		b := schedBound(prop, tier)
		if s.BoundSet {
			b = s.Bound
		}
		mo := defaultMapOrder(s.Name)
		items = append(items, Item{Kind: "sched", Name: s.Name, Bound: b, Shards: sh, BudgetS: budget, MapOrder: mo})
		if tier == "thorough" {
			// the thorough tier explores every scenario under a second map iteration order
			items = append(items, Item{Kind: "sched", Name: s.Name, Bound: b, Shards: sh, BudgetS: budget, MapOrder: (mo + 1) % 3})
		}
	}
	if len(schedScenarios(prop, tier))+len(raceScenarios(prop, tier)) > 0 {
		items = append(items, Item{Kind: "race", Name: "race-pass", Shards: 1, BudgetS: budget, MapOrder: -1})
	}
	for _, j := range seqJobList(prop, tier) {
		n := j.Shards
		if n < 1 {
			n = 1
		}
		kind := "seq"
		if j.Controlled {
			kind = "seqc"
		}
		items = append(items, Item{Kind: kind, Name: j.Name, Shards: n, BudgetS: budget, MapOrder: -1})
	}
	return items
}

func seqJobList(prop, tier string) []*SeqJob {
	switch prop {
	case "C01":
		return append(c01SeqJobs(tier), metricsPerScopeSweep("C01", "size-sweep-counters-and-histograms-per-scope", tier, map[string]bool{"counter": true, "histogram": true}), bothReportersJob("C01", tier), c01PanicJob(tier),
			// (cycles of close / drop / re-obtain are part of C01's quantifier: the counters of the C07 cycle jobs add up here too)
			borrow("C01", c07TaggedRootJob(tier)), borrow("C01", scopesPerRegistrySweep(tier)))
	case "C07":
		return []*SeqJob{c07SeqJob(tier), scopesPerRegistrySweep(tier), bothReportersJob("C07", tier), c07TaggedRootJob(tier)}
	case "C08":
		return []*SeqJob{bothReportersJob("C08", tier), c08AllocFailureJob(tier)}
	case "C02":
		return append(c02SeqJobs(tier), metricsPerScopeSweep("C02", "size-sweep-gauges-per-scope", tier, map[string]bool{"gauge": true}), bothReportersJob("C02", tier))
	case "C03":
		// (a histogram that ends up with another set's bounds files its samples in the wrong buckets: the creation
		// sequences of C20 - every histogram followed by the sample sweep of C03 - run here too)
		return append(c03Jobs(tier), borrow("C03", c20Jobs(tier)[1]))
	case "C06":
		return c06Jobs(tier)
	case "C04":
		// (two derivations that end up sharing a scope deliver under tags one of them never had: the program pairs of
		// C05, all run against one root, are judged here as well)
		return append(c04Jobs(tier), tagChainSweep("C04", "size-sweep-tag-chain", tier, false), borrow("C04", c05Jobs(tier)[0]))
	case "C05":
		// (programs that share one sanitizing root: a derivation that is handed another identity's scope delivers under
		// that identity - the C04 job is judged here as well)
		return append(c05Jobs(tier), tagChainSweep("C05", "size-sweep-tag-chain", tier, false), borrow("C05", c04SharedRootJob(tier)), c05PokedJob(tier))
	case "C10":
		return append(c10Jobs(tier), bothReportersJob("C10", tier))
	case "C11":
		return append(c11Jobs(tier), tagChainSweep("C11", "size-sweep-tag-chain-on-a-test-scope", tier, true))
	case "C20":
		return append(c20Jobs(tier), bucketSetsPerRootSweep(tier))
	case "C19":
		return c19Jobs(tier)
	case "C18":
		return c18Jobs(tier)
	case "C17":
		return c17Jobs(tier)
	case "C16":
		// the reporter's use of the size calculator (what it charges per metric against what the encoder then writes
		// for it) is the "measured size is an upper bound" clause of C16 seen from the outside: the accounting lemmas
		// of C12 run here too, under this property
		// (... and the compositions of C12: a datagram longer than the limit is the sum of measured sizes that were no
		// upper bounds)
		return append(c16Jobs(tier), borrow("C16", c12LemmaJob(tier)), borrow("C16", c12BucketTagLengthJob(tier)), borrow("C16", c12Jobs(tier)[0]))
	case "C15":
		return c15Jobs(tier)
	case "C12":
		// (the many-tag-sets job of C13 measures every datagram against the limit: it runs here as well)
		return append(c12Jobs(tier), borrow("C12", c13ManyTagSetsJob(tier)))
	case "C13":
		return c13Jobs(tier)
	case "C14":
		// (... and, for panics and hangs only: the Allocate/Report/Flush histories of C13 on a queue of one and the
		// many-refused-messages histories of C15, each followed by Close)
		out := []*SeqJob{c13StringLengthJob("C14", tier)}
		for _, j := range c13Jobs(tier) {
			if strings.HasPrefix(j.Name, "allocate-report-flush-histories-") && strings.HasSuffix(j.Name, "queue1") {
				out = append(out, borrowCrashes("C14", j))
			}
		}
		for _, j := range c15ReporterJobs(tier) {
			if strings.HasPrefix(j.Name, "reporter-survives-many-refused-messages-") {
				out = append(out, borrowCrashes("C14", j))
			}
		}
		return out
	}
	return nil
}

func seqJobs(prop, tier string) []string {
	var out []string
	for _, j := range seqJobList(prop, tier) {
		out = append(out, j.Name)
	}
	return out
}

func findSeqJob(prop, tier, name string) *SeqJob {
	for _, t := range []string{tier, "thorough", "quick"} {
		if t == "" {
			continue
		}
		for _, j := range seqJobList(prop, t) {
			if j.Name == name {
				return j
			}
		}
	}
	return nil
}

func runSeq(prop, tier, name string, shard, nshards int, budget time.Duration) interface{} {
	j := findSeqJob(prop, tier, name)
	if j == nil {
		return &WorkerResult{Scenario: name, Infra: "no seq job " + prop + "/" + name}
	}
	return runSeqJob(j, shard, nshards, budget)
}

// raceScenarios are bodies that only make sense free-running under -race
// (the cooperative scheduler cannot interleave inside unsynchronised code).
func raceScenarios(prop, tier string) []*Scenario {
	switch prop {
	case "C14", "C13":
		// (C13: two goroutines reporting through one handle must each get their value out exactly once; a handle
		// that shares its value slot between callers is a data race before it is a lost value)
		return c14RaceScenarios(tier)
	case "C09":
		return c09RaceScenarios(tier)
	case "C10":
		return c10RaceScenarios(tier)
	case "C11":
		return c11RaceScenarios(tier)
	case "C15":
		return c15RaceScenarios(tier)
	case "C18":
		return c18RaceScenarios(tier)
	case "C20":
		return c20RaceScenarios(tier)
	}
	return nil
}

// runRace runs every scenario body of the property free-running (real
// goroutines, real sync primitives) in a binary built with -race. The race
// detector's report on stderr is the oracle; the check driver parses it.
func runRace(prop, tier, name string, budget time.Duration) *WorkerResult {
	rt.SetMode(rt.Free)
	// every body runs at least minRuns times, and then again and again until its share of the time budget is
	// used: whether two unsynchronised accesses are seen as a race depends on the goroutines really overlapping
	// (a later atomic or channel operation orders them for the detector), so more runs see more
	minRuns := tierInt(tier, 30, 300)
	st := &Stats{Outcomes: map[string]int64{}}
	start := time.Now()
	all := append(schedScenarios(prop, tier), raceScenarios(prop, tier)...)
	if budget <= 0 || budget > 40*time.Second {
		budget = 40 * time.Second
	}
	if tier != "thorough" && budget > 10*time.Second {
		budget = 10 * time.Second
	}
	share := budget / time.Duration(len(all)+1)
	var viol *Violation
	for _, sc := range all {
		t0 := time.Now()
		for i := 0; (i < minRuns || time.Since(t0) < share) && viol == nil; i++ {
			x := &Run{Vals: map[string]interface{}{}}
			done := make(chan struct{})
			go func() {
				defer func() { _ = recover(); close(done) }()
				sc.Body(x)
			}()
			if waitAlive(done, 30*time.Second) {
				// what a body finds wrong with its own results (failf) is a violation of the free-running pass too;
				// panics are left to the controlled exploration, where they come with a schedule
				x.mu.Lock()
				fail := x.Fail
				x.mu.Unlock()
				if ps := rt.TakeFreePanics(); len(ps) > 0 && fail == "" {
					first := ps[0]
					if i := strings.Index(first, "\n"); i > 0 {
						first = first[:i]
					}
					fail = "panic: " + first + "|" + ps[0]
				}
				if fail != "" {
					parts := strings.SplitN(fail, "|", 2)
					viol = &Violation{Property: prop, Scenario: "race-pass", Clause: "free-running " + sc.Name + ": " + parts[0], Detail: parts[1],
						Params: map[string]string{"engine": "race"}}
				}
			} else {
				// real goroutines, real locks: a body that does not come back is a hang (deadlock or lost wake-up)
				viol = &Violation{Property: prop, Scenario: "race-pass", Clause: "free-running " + sc.Name + ": hang",
					Detail: "the body did not finish within 30 s of running time on real goroutines (it takes milliseconds): a goroutine is blocked for good", Params: map[string]string{"engine": "race"}}
				st.Executions++
				st.Sample = append(st.Sample, sc.Name)
				st.WallS = time.Since(start).Seconds()
				return &WorkerResult{Scenario: "race-pass", Stats: st, Violation: viol}
			}
			x.cleanup()
			st.Executions++
			if i >= 20000 {
				break
			}
		}
		st.Sample = append(st.Sample, sc.Name)
	}
	st.WallS = time.Since(start).Seconds()
	return &WorkerResult{Scenario: "race-pass", Stats: st, Violation: viol}
}

func replaySeq(v *Violation) int {
	j := findSeqJob(v.Property, v.Params["tier"], v.Scenario)
	if j == nil || j.Replay == nil {
		fmt.Printf("no seq job %s/%s\n", v.Property, v.Scenario)
		return 2
	}
	fmt.Println("case:", strings.Join(v.Ops, " ; "))
	var cl, det string
	done := make(chan struct{})
	go func() { cl, det = j.Replay(v.Ops); close(done) }()
	if !waitAlive(done, seqHangLimit) {
		fmt.Printf("VIOLATION property=%s clause=%q\nthe case did not return within %v\n", v.Property, "hang", seqHangLimit)
		return 1
	}
	if cl == "" {
		fmt.Println("replay: no violation on this tree")
		return 0
	}
	fmt.Printf("VIOLATION property=%s clause=%q\n%s\n", v.Property, cl, det)
	return 1
}

// borrowCrashes registers a job of a sibling property under prop for what it shows about panics, hangs and deadlocks
// only (the "never panics, never hangs" clause of prop, on the sibling's histories).
func borrowCrashes(prop string, j *SeqJob) *SeqJob {
	c := *j
	c.Property = prop
	c.Only = func(clause string) bool {
		return strings.HasPrefix(clause, "panic") || clause == "hang" || clause == "deadlock" || clause == "livelock" || strings.HasPrefix(clause, "process-crash")
	}
	return &c
}

// borrow registers a job of a sibling property under prop as well (the clause it checks is part of both statements).
func borrow(prop string, j *SeqJob) *SeqJob {
	c := *j
	c.Property = prop
	return &c
}
