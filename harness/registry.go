package main

import "time"

// schedScenarios returns the sched scenarios of a property for a tier.
func schedScenarios(prop, tier string) []*Scenario {
	switch prop {
	case "C01":
		return c01Scenarios(tier)
	case "C08":
		return c08Scenarios(tier)
	case "C07":
		return c07Scenarios(tier)
	}
	return nil
}

// schedBound is the preemption bound per tier.
func schedBound(prop, tier string) int {
	if tier == "thorough" {
		return 3
	}
	return 2
}

func listItems(prop, tier string) []Item {
	var items []Item
	budget := 60
	if tier == "thorough" {
		budget = 600
	}
	for _, s := range schedScenarios(prop, tier) {
		items = append(items, Item{Kind: "sched", Name: s.Name, Bound: schedBound(prop, tier), Shards: 1, BudgetS: budget})
	}
	for _, n := range seqJobs(prop, tier) {
		items = append(items, Item{Kind: "seq", Name: n, Shards: 1, BudgetS: budget})
	}
	return items
}

func seqJobs(prop, tier string) []string { return nil }

func runSeq(prop, tier, name string, shard, nshards int, budget time.Duration) *WorkerResult {
	return &WorkerResult{Scenario: name, Infra: "no seq job " + prop + "/" + name}
}

func runRace(prop, tier, name string) *WorkerResult {
	return &WorkerResult{Scenario: name, Infra: "no race job " + prop + "/" + name}
}

func replaySeq(v *Violation) int { return 2 }
