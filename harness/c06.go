package main

import (
	"fmt"
	"strings"
	"unicode/utf8"

	tally "github.com/uber-go/tally/v4"
	"github.com/uber-go/tally/v4/m3"
	"github.com/uber-go/tally/v4/prometheus"
	rt "github.com/uber-go/tally/v4/verifrt"
)

// refSanitize is the reference sanitizer: decode rune by rune, test, append.
// An invalid byte is never allowed, whatever the configuration says about U+FFFD.
func refSanitize(vc tally.ValidCharacters, repl rune, s string) string {
	var b strings.Builder
	for i := 0; i < len(s); {
		r, w := utf8.DecodeRuneInString(s[i:])
		ok := false
		if !(r == utf8.RuneError && w == 1) {
			for _, rg := range vc.Ranges {
				if r >= rg[0] && r <= rg[1] {
					ok = true
				}
			}
			for _, c := range vc.Characters {
				if c == r {
					ok = true
				}
			}
		}
		if ok {
			b.WriteString(s[i : i+w])
		} else {
			b.WriteRune(repl) // an unencodable replacement becomes U+FFFD, as in any Go string conversion
		}
		i += w
	}
	return b.String()
}

func refAllowed(vc tally.ValidCharacters, r rune) bool {
	for _, rg := range vc.Ranges {
		if r >= rg[0] && r <= rg[1] {
			return true
		}
	}
	for _, c := range vc.Characters {
		if c == r {
			return true
		}
	}
	return false
}

type sanCfg struct {
	name string
	vc   tally.ValidCharacters
	repl rune
}

func c06Configs() []sanCfg {
	ranges := map[string][]tally.SanitizeRange{
		"none": nil, "a-z": {{'a', 'z'}}, "a-a": {{'a', 'a'}}, "z-a(inverted)": {{'z', 'a'}}, "alnum": tally.AlphanumericRange,
		"80-10FFFF": {{0x80, 0x10FFFF}}, "0-10FFFF": {{0, 0x10FFFF}},
	}
	rnames := []string{"none", "a-z", "a-a", "z-a(inverted)", "alnum", "80-10FFFF", "0-10FFFF"}
	extras := map[string][]rune{"none": nil, "_": {'_'}, "-_.": {'-', '_', '.'}, "é": {'é'}}
	enames := []string{"none", "_", "-_.", "é"}
	repls := []rune{'_', 'a', '!', 0, 'é', utf8.RuneError, 0xD800}
	var out []sanCfg
	for _, rn := range rnames {
		for _, en := range enames {
			for _, rp := range repls {
				out = append(out, sanCfg{fmt.Sprintf("ranges=%s extra=%s repl=%U", rn, en, rp), tally.ValidCharacters{Ranges: ranges[rn], Characters: extras[en]}, rp})
			}
		}
	}
	out = append(out,
		sanCfg{"m3-name", m3.DefaultSanitizerOpts.NameCharacters, m3.DefaultSanitizerOpts.ReplacementCharacter},
		sanCfg{"m3-key", m3.DefaultSanitizerOpts.KeyCharacters, m3.DefaultSanitizerOpts.ReplacementCharacter},
		sanCfg{"prometheus-name", prometheus.DefaultSanitizerOpts.NameCharacters, prometheus.DefaultSanitizerOpts.ReplacementCharacter},
	)
	return out
}

func c06Tokens() []string {
	return []string{"`", "a", "z", "{", "@", "A", "Z", "[", "/", "0", "9", ":", "_", "-", ".", " ", "é", "€", "😀", "�", "\xff", "\xe2\x82", "\xef", "\xef\xbf", "\xf0\x9f"}
}

// sanCheck compares one sanitizer call with the reference and the property's clauses.
func sanCheck(cfg sanCfg, fn tally.SanitizeFn, in string) (string, string) {
	out := fn(in)
	ref := refSanitize(cfg.vc, cfg.repl, in)
	repl := cfg.repl
	if !utf8.ValidRune(repl) {
		repl = utf8.RuneError
	}
	q := func(s string) string {
		if len(s) > 48 {
			return fmt.Sprintf("%q...(%d bytes)", s[:48], len(s))
		}
		return fmt.Sprintf("%q", s)
	}
	if !utf8.ValidString(out) {
		return "invalid-bytes-passed-through", fmt.Sprintf("[%s] sanitize(%s) = %s contains an invalid byte sequence", cfg.name, q(in), q(out))
	}
	for _, r := range out {
		if !refAllowed(cfg.vc, r) && r != repl {
			return "disallowed-rune-in-output", fmt.Sprintf("[%s] sanitize(%s) = %s contains %U which is neither allowed nor the replacement", cfg.name, q(in), q(out), r)
		}
	}
	if ref == in && out != in {
		return "valid-input-changed", fmt.Sprintf("[%s] sanitize(%s) = %s although the input is already valid", cfg.name, q(in), q(out))
	}
	if utf8.RuneCountInString(out) != utf8.RuneCountInString(in) {
		return "rune-count-changed", fmt.Sprintf("[%s] sanitize(%s) = %s: %d runes in, %d out", cfg.name, q(in), q(out), utf8.RuneCountInString(in), utf8.RuneCountInString(out))
	}
	// position by position: an allowed rune is kept, a disallowed one becomes the
	// replacement, an invalid byte becomes the replacement (or U+FFFD where the
	// configuration allows U+FFFD: it is then "replaced", and by an allowed rune)
	ir, or := []rune(in), []rune(out)
	pos := 0
	for i := 0; i < len(in); pos++ {
		r, w := utf8.DecodeRuneInString(in[i:])
		i += w
		invalidByte := r == utf8.RuneError && w == 1
		switch {
		case invalidByte:
			if or[pos] != repl && !(or[pos] == utf8.RuneError && refAllowed(cfg.vc, utf8.RuneError)) {
				return "invalid-byte-not-replaced", fmt.Sprintf("[%s] sanitize(%s) = %s: rune %d should be the replacement", cfg.name, q(in), q(out), pos)
			}
		case refAllowed(cfg.vc, r):
			if or[pos] != ir[pos] {
				return "allowed-rune-changed", fmt.Sprintf("[%s] sanitize(%s) = %s: allowed rune %d (%U) was changed", cfg.name, q(in), q(out), pos, r)
			}
		default:
			if or[pos] != repl {
				return "disallowed-rune-not-replaced", fmt.Sprintf("[%s] sanitize(%s) = %s: rune %d (%U) is not allowed and was not replaced by %U", cfg.name, q(in), q(out), pos, r, repl)
			}
		}
	}
	_ = ref
	if again := fn(out); again != out {
		return "not-idempotent", fmt.Sprintf("[%s] sanitize(sanitize(%s)) = %s != %s", cfg.name, q(in), q(again), q(out))
	}
	if second := fn(in); second != out {
		return "not-deterministic", fmt.Sprintf("[%s] two calls on %s gave %s and %s", cfg.name, q(in), q(out), q(second))
	}
	return "", ""
}

func c06Jobs(tier string) []*SeqJob {
	N := tierInt(tier, 3, 4)
	cfgs := c06Configs()
	toks := c06Tokens()
	build := func(idx []int) string {
		var b strings.Builder
		for _, i := range idx {
			b.WriteString(toks[i])
		}
		return b.String()
	}
	fnOf := func(c sanCfg) tally.SanitizeFn {
		s := tally.NewSanitizer(tally.SanitizeOptions{NameCharacters: c.vc, KeyCharacters: c.vc, ValueCharacters: c.vc, ReplacementCharacter: c.repl})
		return s.Name
	}
	job := &SeqJob{Property: "C06", Name: "sanitize-function-product", Shards: tierInt(tier, 4, 16)}
	job.Run = func(ctx *SeqCtx) {
		for _, t := range toks {
			ctx.Alphabet(fmt.Sprintf("token %q", t))
		}
		for _, c := range cfgs {
			ctx.Alphabet("config " + c.name)
		}
		fns := make([]tally.SanitizeFn, len(cfgs))
		for i, c := range cfgs {
			fns[i] = fnOf(c)
		}
		noop := tally.NewNoOpSanitizer()
		n := 0
		enumSeqs(len(toks), N, func(seq []int) bool {
			n++
			if !ctx.Mine(n) {
				return true
			}
			if ctx.Expired() {
				return false
			}
			in := build(seq)
			for ci, c := range cfgs {
				cl, det := guard(func() (string, string) { return sanCheck(c, fns[ci], in) })
				ctx.Case(4, len(seq) > 0, func() string { return fmt.Sprintf("%s on %q", c.name, in) })
				if cl != "" {
					ops := []string{fmt.Sprint(ci)}
					for _, k := range seq {
						ops = append(ops, fmt.Sprint(k))
					}
					ctx.Fail(cl, det, ops)
					if ctx.viol != nil {
						return false
					}
				}
			}
			if noop.Name(in) != in || noop.Key(in) != in || noop.Value(in) != in {
				ctx.Fail("noop-sanitizer-changed-input", fmt.Sprintf("%q", in), []string{"noop"})
				return false
			}
			return true
		})
		// long strings: every token repeated up to 4 KiB, alone and after a valid prefix
		if ctx.Mine(0) {
			for ti, t := range toks {
				for _, pre := range []string{"", "a", "€"} {
					in := pre + strings.Repeat(t, 4096/len(t))
					for ci, c := range cfgs {
						cl, det := guard(func() (string, string) { return sanCheck(c, fns[ci], in) })
						ctx.Case(4, true, func() string { return fmt.Sprintf("%s on 4KiB of %q", c.name, t) })
						if cl != "" {
							ctx.Fail(cl, det, []string{fmt.Sprint(ci), "long", fmt.Sprint(ti), pre})
							if ctx.viol != nil {
								return
							}
						}
					}
				}
			}
		}
		if !ctx.st.TimedOut && ctx.viol == nil {
			ctx.DepthDone(N)
		}
	}
	job.Replay = func(ops []string) (string, string) {
		if ops[0] == "noop" {
			return "noop-sanitizer-changed-input", ""
		}
		var ci int
		fmt.Sscanf(ops[0], "%d", &ci)
		var in string
		if len(ops) > 1 && ops[1] == "long" {
			var ti int
			fmt.Sscanf(ops[2], "%d", &ti)
			in = ops[3] + strings.Repeat(toks[ti], 4096/len(toks[ti]))
		} else {
			var idx []int
			for _, o := range ops[1:] {
				var k int
				fmt.Sscanf(o, "%d", &k)
				idx = append(idx, k)
			}
			in = build(idx)
		}
		return guard(func() (string, string) { return sanCheck(cfgs[ci], fnOf(cfgs[ci]), in) })
	}
	return []*SeqJob{job, c06E2EJob(tier), c06RolesJob(tier)}
}

// c06Scenarios: concurrent sanitising through the shared buffer pool.
func c06Scenarios(tier string) []*Scenario {
	vc := tally.ValidCharacters{Ranges: tally.AlphanumericRange, Characters: tally.UnderscoreCharacters}
	opts := tally.SanitizeOptions{NameCharacters: vc, KeyCharacters: vc, ValueCharacters: vc, ReplacementCharacter: '_'}
	// (each thread asks for its first string twice in a row: whatever a sanitize function remembers about the strings
	// it has rewritten - of this thread or of another - must not change the answer)
	inputs := [][]string{{"a b", "a b", "long-dirty-string!"}, {"é€", "é€", "x.y.z"}, {"q?", "q?", "ok"}}
	nth := tierInt(tier, 2, 3)
	var out []*Scenario
	for _, miss := range []bool{false, true} {
		miss := miss
		name := fmt.Sprintf("S-pooled-buffer-%d-threads", nth)
		inputs := inputs
		if miss {
			// a Get may hand out a fresh buffer although the pool holds one (a data choice at every Get): one input per thread
			name += "-pool-may-miss"
			inputs = [][]string{{"long-dirty-string!"}, {"é€"}, {"q?"}}
		}
		sc := &Scenario{Property: "C06", Name: name, PoolMiss: miss}
		sc.Body = func(x *Run) {
			s := tally.NewSanitizer(opts)
			outs := make([][]string, nth)
			var ths []*rt.Thread
			for i := 0; i < nth; i++ {
				i := i
				ths = append(ths, rt.GoNamed(fmt.Sprintf("san%d", i), func() {
					for _, in := range inputs[i] {
						outs[i] = append(outs[i], s.Name(in), s.Key(in), s.Value(in))
					}
				}))
			}
			for _, t := range ths {
				t.Join()
			}
			for i := 0; i < nth; i++ {
				k := 0
				for _, in := range inputs[i] {
					want := refSanitize(vc, '_', in)
					for j := 0; j < 3; j++ {
						if outs[i][k] != want {
							x.failf("concurrent-sanitize-differs", "thread %d: sanitize(%q) = %q, sequential reference %q", i, in, outs[i][k], want)
						}
						k++
					}
				}
			}
		}
		sc.Check = func(x *Run, o *rt.Outcome) (string, string, string) { return "", "", "ok" }
		out = append(out, sc)
	}
	return out
}
