package main

import (
	"fmt"
	"strings"

	tally "github.com/uber-go/tally/v4"
	"github.com/uber-go/tally/v4/m3"
)

func m3Proto(kind string) m3.Protocol {
	if kind == "binary" {
		return m3.Binary
	}
	return m3.Compact
}

// c15ReporterJobs: message-level fault sequences through the real reporter and generated client.
func c15ReporterJobs(tier string) []*SeqJob {
	alphabet := []string{"small a", "small b", "huge", "flush"}
	depth := tierInt(tier, 4, 5)
	exec := func(kind string, ndest int) func(hist []int) (string, string, string, int) {
		return func(hist []int) (cl, det, key string, steps int) {
			var sinks []*fastSink
			var addrs []string
			for i := 0; i < ndest; i++ {
				s := newFastSink()
				sinks = append(sinks, s)
				addrs = append(addrs, s.addr)
			}
			defer func() {
				for _, s := range sinks {
					s.close()
				}
			}()
			cl, det = guard(func() (string, string) {
				r, err := m3.NewReporter(m3.Options{HostPorts: addrs, Service: "svc", Env: "test", Protocol: m3Proto(kind), MaxQueueSize: 64, MaxPacketSizeBytes: 32768})
				if err != nil {
					return "new-reporter", err.Error()
				}
				a := r.AllocateCounter("u.a", map[string]string{"k": "v"})
				b := r.AllocateGauge("u.b", nil)
				huge := r.AllocateCounter("u.huge."+strings.Repeat("x", 70000), nil)
				want := map[string]int{}
				ndg := 0
				for i, op := range hist {
					steps++
					switch alphabet[op] {
					case "small a":
						a.ReportCount(int64(100 + i))
						want[fmt.Sprintf("u.a count=%d", 100+i)]++
						r.Flush()
						ndg++
					case "small b":
						b.ReportGauge(float64(200 + i))
						want[fmt.Sprintf("u.b gauge=%v", float64(200+i))]++
						r.Flush()
						ndg++
					case "huge":
						huge.ReportCount(1)
						r.Flush()
					case "flush":
						r.Flush()
					}
				}
				if err := r.Close(); err != nil {
					return "close-error", err.Error()
				}
				for d, s := range sinks {
					dgs := s.drain(ndg)
					got := map[string]int{}
					for i, dg := range dgs {
						msg, err := decodeMessage(kind, dg)
						if err != nil {
							return "corrupt-datagram-after-failed-message", fmt.Sprintf("%v [%s]: destination %d datagram %d (%d bytes) does not decode: %v", histLabels(alphabet, hist), kind, d, i, len(dg), err)
						}
						if msg.Left != 0 || msg.Name != "emitMetricBatchV2" {
							return "corrupt-datagram-after-failed-message", fmt.Sprintf("datagram %d: name %q, %d trailing bytes", i, msg.Name, msg.Left)
						}
						for _, m := range msg.Batch.Metrics {
							switch m.Name {
							case "u.a":
								got[fmt.Sprintf("u.a count=%d", m.Value.Count)]++
							case "u.b":
								got[fmt.Sprintf("u.b gauge=%v", m.Value.Gauge)]++
							default:
								if strings.HasPrefix(m.Name, "u.huge") {
									return "oversized-metric-sent", "the metric that cannot fit a datagram arrived"
								}
							}
						}
					}
					for k, n := range want {
						if got[k] != n {
							return "batch-lost-after-failed-message", fmt.Sprintf("%v [%s, %d destinations]: destination %d received %d of %d x %q (%d datagrams in all)", histLabels(alphabet, hist), kind, ndest, d, got[k], n, k, len(dgs))
						}
					}
					for k, n := range got {
						if want[k] != n {
							return "batch-duplicated", fmt.Sprintf("destination %d received %d x %q, reported %d", d, n, k, want[k])
						}
					}
				}
				return "", ""
			})
			key = fmt.Sprint(kind, ndest, hist) // the transport may remember: no merging
			return
		}
	}
	// dead first destination: destination 0 is a UDP port nobody listens on. On loopback the kernel answers every
	// datagram sent there with "port unreachable", which the *next* send on that socket reports as an error - a
	// transient send error at a destination that is not the last one, on every second flush. The healthy second
	// destination may miss the messages whose flush failed at destination 0; whatever it does receive must be one
	// complete batch per datagram, never the same batch twice, and it must go on receiving later batches.
	execDead := func(kind string) func(hist []int) (string, string, string, int) {
		return func(hist []int) (cl, det, key string, steps int) {
			good := newFastSink()
			defer good.close()
			dead := newFastSink()
			deadAddr := dead.addr
			dead.close()
			cl, det = guard(func() (string, string) {
				r, err := m3.NewReporter(m3.Options{HostPorts: []string{deadAddr, good.addr}, Service: "svc", Env: "test", Protocol: m3Proto(kind), MaxQueueSize: 64, MaxPacketSizeBytes: 32768})
				if err != nil {
					return "new-reporter", err.Error()
				}
				a := r.AllocateCounter("u.a", map[string]string{"k": "v"})
				b := r.AllocateGauge("u.b", nil)
				reported := map[string]bool{}
				n := 0
				for i, op := range hist {
					steps++
					switch alphabet[op] {
					case "small a":
						a.ReportCount(int64(100 + i))
						reported[fmt.Sprintf("u.a count=%d", 100+i)] = true
						n++
					case "small b":
						b.ReportGauge(float64(200 + i))
						reported[fmt.Sprintf("u.b gauge=%v", float64(200+i))] = true
						n++
					case "huge":
						continue
					}
					r.Flush()
				}
				if err := r.Close(); err != nil {
					return "close-error", err.Error()
				}
				seen := map[string]int{}
				dgs := good.readAvailable(nil)
				for i, dg := range dgs {
					msg, err := decodeMessage(kind, dg)
					if err != nil || msg.Left != 0 || msg.Name != "emitMetricBatchV2" {
						return "corrupt-datagram-after-failed-message", fmt.Sprintf("%v [%s, dead first destination]: datagram %d of the healthy destination (%d bytes) is not one complete message: %v", histLabels(alphabet, hist), kind, i, len(dg), err)
					}
					user := 0
					for _, m := range msg.Batch.Metrics {
						var k string
						switch m.Name {
						case "u.a":
							k = fmt.Sprintf("u.a count=%d", m.Value.Count)
						case "u.b":
							k = fmt.Sprintf("u.b gauge=%v", m.Value.Gauge)
						default:
							continue
						}
						user++
						seen[k]++
						if !reported[k] {
							return "unreported-value-arrived", k
						}
					}
					if user > 1 {
						return "message-not-transmitted-alone", fmt.Sprintf("%v [%s, dead first destination]: datagram %d of the healthy destination carries %d reported values; every flush here follows a single report", histLabels(alphabet, hist), kind, i, user)
					}
				}
				for k, c := range seen {
					if c > 1 {
						return "batch-duplicated", fmt.Sprintf("%v [%s, dead first destination]: the healthy destination received %q %d times", histLabels(alphabet, hist), kind, k, c)
					}
				}
				if n >= 3 && len(seen) == 0 {
					return "reporter-stopped-emitting", fmt.Sprintf("%v [%s, dead first destination]: %d batches reported, none reached the healthy destination", histLabels(alphabet, hist), kind, n)
				}
				return "", ""
			})
			key = fmt.Sprint(kind, "dead", hist)
			return
		}
	}
	var jobs []*SeqJob
	for _, kind := range []string{"compact", "binary"} {
		kind := kind
		jd := &SeqJob{Property: "C15", Name: fmt.Sprintf("reporter-message-faults-%s-dead-first-destination", kind), Shards: 4}
		jd.Run = func(ctx *SeqCtx) { bfs(ctx, alphabet[:2], depth, execDead(kind)) }
		jd.Replay = func(ops []string) (string, string) { c, d, _, _ := execDead(kind)(opIndex(alphabet[:2], ops)); return c, d }
		if kind == "compact" || tier == "thorough" {
			jobs = append(jobs, jd)
		}
	}
	for _, kind := range []string{"compact", "binary"} {
		for _, nd := range []int{1, 2} {
			kind, nd := kind, nd
			if nd == 2 && kind == "binary" && tier != "thorough" {
				continue
			}
			j := &SeqJob{Property: "C15", Name: fmt.Sprintf("reporter-message-faults-%s-%d-destinations", kind, nd), Shards: 4}
			j.Run = func(ctx *SeqCtx) { bfs(ctx, alphabet, depth, exec(kind, nd)) }
			j.Replay = func(ops []string) (string, string) { c, d, _, _ := exec(kind, nd)(opIndex(alphabet, ops)); return c, d }
			jobs = append(jobs, j)
		}
	}
	_ = tally.Version
	return jobs
}
