package main

import (
	"fmt"
	"net"
	"strings"

	tally "github.com/uber-go/tally/v4"
	"github.com/uber-go/tally/v4/m3"
)

func m3Proto(kind string) m3.Protocol {
	if kind == "binary" {
		return m3.Binary
	}
	return m3.Compact
}

// c15ReporterJobs: message-level fault sequences through the real reporter and generated client.
func c15ReporterJobs(tier string) []*SeqJob {
	alphabet := []string{"small a", "small b", "huge", "flush"}
	deadAlphabet := []string{"small a", "small b", "big"}
	depth := tierInt(tier, 4, 5)
	exec := func(kind string, ndest int) func(hist []int) (string, string, string, int) {
		return func(hist []int) (cl, det, key string, steps int) {
			var sinks []*fastSink
			var addrs []string
			for i := 0; i < ndest; i++ {
				s := newFastSink()
				sinks = append(sinks, s)
				addrs = append(addrs, s.addr)
			}
			defer func() {
				for _, s := range sinks {
					s.close()
				}
			}()
			var icl, idet string
			body := func() (string, string) {
				r, err := m3.NewReporter(m3.Options{HostPorts: addrs, Service: "svc", Env: "test", Protocol: m3Proto(kind), MaxQueueSize: 64, MaxPacketSizeBytes: 32768})
				if err != nil {
					return "new-reporter", err.Error()
				}
				a := r.AllocateCounter("u.a", map[string]string{"k": "v"})
				b := r.AllocateGauge("u.b", nil)
				huge := r.AllocateCounter("u.huge."+strings.Repeat("x", 70000), nil)
				want := map[string]int{}
				ndg := 0
				for i, op := range hist {
					steps++
					switch alphabet[op] {
					case "small a":
						a.ReportCount(int64(100 + i))
						want[fmt.Sprintf("u.a count=%d", 100+i)]++
						r.Flush()
						ndg++
					case "small b":
						b.ReportGauge(float64(200 + i))
						want[fmt.Sprintf("u.b gauge=%v", float64(200+i))]++
						r.Flush()
						ndg++
					case "huge":
						huge.ReportCount(1)
						r.Flush()
					case "flush":
						r.Flush()
					}
				}
				if err := r.Close(); err != nil {
					return "close-error", err.Error()
				}
				for d, s := range sinks {
					dgs := s.drain(ndg)
					got := map[string]int{}
					for i, dg := range dgs {
						msg, err := decodeMessage(kind, dg)
						if err != nil {
							return "corrupt-datagram-after-failed-message", fmt.Sprintf("%v [%s]: destination %d datagram %d (%d bytes) does not decode: %v", histLabels(alphabet, hist), kind, d, i, len(dg), err)
						}
						if msg.Left != 0 || msg.Name != "emitMetricBatchV2" {
							return "corrupt-datagram-after-failed-message", fmt.Sprintf("datagram %d: name %q, %d trailing bytes", i, msg.Name, msg.Left)
						}
						for _, m := range msg.Batch.Metrics {
							switch m.Name {
							case "u.a":
								got[fmt.Sprintf("u.a count=%d", m.Value.Count)]++
							case "u.b":
								got[fmt.Sprintf("u.b gauge=%v", m.Value.Gauge)]++
							default:
								if strings.HasPrefix(m.Name, "u.huge") {
									return "oversized-metric-sent", "the metric that cannot fit a datagram arrived"
								}
							}
						}
					}
					for k, n := range want {
						if got[k] != n {
							return "batch-lost-after-failed-message", fmt.Sprintf("%v [%s, %d destinations]: destination %d received %d of %d x %q (%d datagrams in all)", histLabels(alphabet, hist), kind, ndest, d, got[k], n, k, len(dgs))
						}
					}
					for k, n := range got {
						if want[k] != n {
							return "batch-duplicated", fmt.Sprintf("destination %d received %d x %q, reported %d", d, n, k, want[k])
						}
					}
				}
				return "", ""
			}
			// (under the controlled scheduler: a panic in the reporter's own goroutine is a violation, not a dead worker)
			ccl, cdet := controlledCase(0, func() { icl, idet = guard(body) })
			if ccl != "" {
				cl, det = ccl, fmt.Sprintf("%v [%s, %d destinations]: %s", histLabels(alphabet, hist), kind, ndest, cdet)
			} else {
				cl, det = icl, idet
			}
			key = fmt.Sprint(kind, ndest, hist) // the transport may remember: no merging
			return
		}
	}
	// dead first destination: destination 0 is a UDP port nobody listens on. On loopback the kernel answers every
	// datagram sent there with "port unreachable", which the *next* send on that socket reports as an error - a
	// transient send error at a destination that is not the last one, on every second flush. The healthy second
	// destination may miss the messages whose flush failed at destination 0; whatever it does receive must be one
	// complete batch per datagram, never the same batch twice, and it must go on receiving later batches.
	execDead := func(kind string) func(hist []int) (string, string, string, int) {
		return func(hist []int) (cl, det, key string, steps int) {
			good := newFastSink()
			defer good.close()
			// the dead port stays reserved for this execution: a UDP socket bound to it and connected to another peer
			// (port 1) receives nothing from our transport - the kernel finds no matching socket and answers "port
			// unreachable" - while no other worker process can be handed the port number for one of its sinks
			dead, derr := net.DialUDP("udp", &net.UDPAddr{IP: net.IPv4(127, 0, 0, 1)}, &net.UDPAddr{IP: net.IPv4(127, 0, 0, 1), Port: 1})
			if derr != nil {
				return "", "", fmt.Sprint(kind, "dead", hist), 0
			}
			defer dead.Close()
			deadAddr := dead.LocalAddr().String()
			// (under the controlled scheduler: a panic in the reporter's own goroutine is then a violation with a history
			// instead of a dead worker)
			var icl, idet string
			body := func() (string, string) {
				r, err := m3.NewReporter(m3.Options{HostPorts: []string{deadAddr, good.addr}, Service: "svc", Env: "test", Protocol: m3Proto(kind), MaxQueueSize: 64, MaxPacketSizeBytes: 65000})
				if err != nil {
					return "new-reporter", err.Error()
				}
				a := r.AllocateCounter("u.a", map[string]string{"k": "v"})
				b := r.AllocateGauge("u.b", nil)
				// a message of 40 KB (it fits a datagram; whatever a transport does with a buffer that has grown that far
				// must not matter to the messages after a refused send)
				big := r.AllocateCounter("u.big", map[string]string{"pad": strings.Repeat("p", 40000)})
				reported := map[string]bool{}
				n := 0
				for i, op := range hist {
					steps++
					switch deadAlphabet[op] {
					case "small a":
						a.ReportCount(int64(100 + i))
						reported[fmt.Sprintf("u.a count=%d", 100+i)] = true
						n++
					case "small b":
						b.ReportGauge(float64(200 + i))
						reported[fmt.Sprintf("u.b gauge=%v", float64(200+i))] = true
						n++
					case "big":
						big.ReportCount(int64(300 + i))
						reported[fmt.Sprintf("u.big count=%d", 300+i)] = true
						n++
					case "huge":
						continue
					}
					r.Flush()
				}
				if err := r.Close(); err != nil {
					return "close-error", err.Error()
				}
				seen := map[string]int{}
				dgs := good.readAvailable(nil)
				for i, dg := range dgs {
					msg, err := decodeMessage(kind, dg)
					if err != nil || msg.Left != 0 || msg.Name != "emitMetricBatchV2" {
						return "corrupt-datagram-after-failed-message", fmt.Sprintf("%v [%s, dead first destination]: datagram %d of the healthy destination (%d bytes) is not one complete message: %v", histLabels(deadAlphabet, hist), kind, i, len(dg), err)
					}
					user := 0
					for _, m := range msg.Batch.Metrics {
						var k string
						switch m.Name {
						case "u.a":
							k = fmt.Sprintf("u.a count=%d", m.Value.Count)
						case "u.b":
							k = fmt.Sprintf("u.b gauge=%v", m.Value.Gauge)
						case "u.big":
							k = fmt.Sprintf("u.big count=%d", m.Value.Count)
						default:
							continue
						}
						user++
						seen[k]++
						if !reported[k] {
							return "unreported-value-arrived", k
						}
					}
					if user > 1 {
						return "message-not-transmitted-alone", fmt.Sprintf("%v [%s, dead first destination]: datagram %d of the healthy destination carries %d reported values; every flush here follows a single report", histLabels(deadAlphabet, hist), kind, i, user)
					}
				}
				for k, c := range seen {
					if c > 1 {
						return "batch-duplicated", fmt.Sprintf("%v [%s, dead first destination]: the healthy destination received %q %d times", histLabels(deadAlphabet, hist), kind, k, c)
					}
				}
				if n >= 3 && len(seen) == 0 {
					return "reporter-stopped-emitting", fmt.Sprintf("%v [%s, dead first destination]: %d batches reported, none reached the healthy destination", histLabels(deadAlphabet, hist), kind, n)
				}
				return "", ""
			}
			ccl, cdet := controlledCase(0, func() { icl, idet = guard(body) })
			if ccl != "" {
				cl, det = ccl, fmt.Sprintf("%v [%s, dead first destination]: %s", histLabels(deadAlphabet, hist), kind, cdet)
			} else {
				cl, det = icl, idet
			}
			key = fmt.Sprint(kind, "dead", hist)
			return
		}
	}
	var jobs []*SeqJob
	// many refused messages in a row: after each oversized (abandoned) message a small one must arrive, up to
	// a number of rounds well above any nesting limit or stack a protocol object might keep between messages.
	// Run under the controlled scheduler, so that a panic in the reporter's own goroutine is a violation with a
	// history instead of a dead worker.
	for _, kind := range []string{"compact", "binary"} {
		kind := kind
		rounds := tierInt(tier, 48, 140)
		runLong := func(limit int32, hugeName bool) (string, string, int) {
			s := newFastSink()
			defer s.close()
			steps := 0
			var rcl, rdet string
			var dgsLong [][]byte
			caseHorizon = 20000000 // one long default schedule
			defer func() { caseHorizon = 0 }()
			ccl, cdet := controlledCase(0, func() {
				r, err := m3.NewReporter(m3.Options{HostPorts: []string{s.addr}, Service: "svc", Env: "test", Protocol: m3Proto(kind), MaxQueueSize: 256, MaxPacketSizeBytes: limit})
				if err != nil {
					rcl, rdet = "new-reporter", err.Error()
					return
				}
				small := r.AllocateCounter("u.small", map[string]string{"k": "v"})
				var huge tally.CachedCount
				var filler []tally.CachedCount
				if hugeName {
					huge = r.AllocateCounter("u.huge."+strings.Repeat("x", 70000), nil)
				} else {
					// a limit above the transport's maximum: a full batch is refused by the transport
					for i := 0; i < 40; i++ {
						filler = append(filler, r.AllocateCounter(fmt.Sprintf("u.fill%02d.", i)+strings.Repeat("y", 1700), nil))
					}
				}
				for i := 0; i < rounds; i++ {
					steps += 2
					if hugeName {
						huge.ReportCount(1)
					} else {
						for _, f := range filler {
							f.ReportCount(1)
						}
					}
					r.Flush()
					small.ReportCount(int64(1000 + i))
					r.Flush()
					// (the socket's receive queue is limited: take out what has arrived so far)
					dgsLong = s.readAvailable(dgsLong)
				}
				if err := r.Close(); err != nil {
					rcl, rdet = "close-error", err.Error()
				}
			})
			if ccl != "" {
				return ccl, fmt.Sprintf("[%s, limit %d] %d rounds of a refused message followed by a small one: %s", kind, limit, rounds, cdet), steps
			}
			if rcl != "" {
				return rcl, rdet, steps
			}
			seen := map[int64]int{}
			for i, dg := range s.readAvailable(dgsLong) {
				msg, err := decodeMessage(kind, dg)
				if err != nil || msg.Left != 0 {
					return "corrupt-datagram-after-failed-message", fmt.Sprintf("[%s, limit %d] datagram %d (%d bytes) is not one complete message: %v", kind, limit, i, len(dg), err), steps
				}
				for _, m := range msg.Batch.Metrics {
					if m.Name == "u.small" {
						seen[m.Value.Count]++
					}
				}
			}
			for i := 0; i < rounds; i++ {
				if seen[int64(1000+i)] != 1 {
					return "batch-lost-after-failed-message", fmt.Sprintf("[%s, limit %d] the small batch after refused message number %d arrived %d times (earlier ones arrived)", kind, limit, i+1, seen[int64(1000+i)]), steps
				}
			}
			return "", "", steps
		}
		jl := &SeqJob{Property: "C15", Name: fmt.Sprintf("reporter-survives-many-refused-messages-%s", kind), Controlled: true}
		jl.Run = func(ctx *SeqCtx) {
			for ci, c := range []struct {
				limit int32
				huge  bool
			}{{32768, true}, {65507, false}} {
				c := c
				steps := 0
				cl, det := guard(func() (string, string) { a, b, s := runLong(c.limit, c.huge); steps = s; return a, b })
				ops := []string{fmt.Sprint(ci)}
				ctx.Case(steps, true, func() string { return fmt.Sprintf("%s limit %d rounds %d", kind, c.limit, rounds) })
				ctx.State(fmt.Sprint(kind, ci))
				if cl != "" {
					ctx.Fail(cl, det, ops)
					if ctx.viol != nil {
						return
					}
				}
			}
			ctx.Alphabet(fmt.Sprintf("every number of consecutive refused messages from 1 to %d, each followed by a small batch", rounds), "a metric larger than a datagram; a packet limit above the transport's maximum")
			ctx.DepthDone(rounds)
		}
		jl.Replay = func(ops []string) (string, string) {
			if ops[0] == "0" {
				return guard(func() (string, string) { a, b, _ := runLong(32768, true); return a, b })
			}
			return guard(func() (string, string) { a, b, _ := runLong(65507, false); return a, b })
		}
		jobs = append(jobs, jl)
	}
	for _, kind := range []string{"compact", "binary"} {
		kind := kind
		jd := &SeqJob{Property: "C15", Name: fmt.Sprintf("reporter-message-faults-%s-dead-first-destination", kind), Shards: 4, Controlled: true}
		jd.Run = func(ctx *SeqCtx) { bfs(ctx, deadAlphabet, depth, execDead(kind)) }
		jd.Replay = func(ops []string) (string, string) {
			c, d, _, _ := execDead(kind)(opIndex(deadAlphabet, ops))
			return c, d
		}
		if kind == "compact" || tier == "thorough" {
			jobs = append(jobs, jd)
		}
	}
	for _, kind := range []string{"compact", "binary"} {
		for _, nd := range []int{1, 2} {
			kind, nd := kind, nd
			if nd == 2 && kind == "binary" && tier != "thorough" {
				continue
			}
			j := &SeqJob{Property: "C15", Name: fmt.Sprintf("reporter-message-faults-%s-%d-destinations", kind, nd), Shards: 4, Controlled: true}
			j.Run = func(ctx *SeqCtx) { bfs(ctx, alphabet, depth, exec(kind, nd)) }
			j.Replay = func(ops []string) (string, string) { c, d, _, _ := exec(kind, nd)(opIndex(alphabet, ops)); return c, d }
			jobs = append(jobs, j)
		}
	}
	_ = tally.Version
	return jobs
}
