package main

import (
	"encoding/json"
	"fmt"
	"os"
	"sort"
	"strings"
	"sync"
	"time"

	rt "github.com/uber-go/tally/v4/verifrt"
)

// Violation is one property violation found on one execution.
type Violation struct {
	Property string            `json:"property"`
	Scenario string            `json:"scenario"`
	Clause   string            `json:"clause"` // short, stable: part of the known-finding signature
	Detail   string            `json:"detail"`
	Choices  []int             `json:"choices,omitempty"`
	Ops      []string          `json:"ops,omitempty"` // seq explorer: the operation list
	Trace    []string          `json:"trace,omitempty"`
	Log      []string          `json:"log,omitempty"`
	Preempts int               `json:"preemptions"`
	Params   map[string]string `json:"params,omitempty"`
}

// Signature identifies the violation for the known-findings file.
func (v *Violation) Signature() string {
	return v.Property + "/" + v.Scenario + "/" + v.Clause
}

// Run is the per-execution state a scenario body and its oracle share.
type Run struct {
	Rec  *Recorder
	Vals map[string]interface{}
	Fail string // set by the body for violations it detects itself (clause|detail)
	// Cleanup functions run after the execution has been judged (also when it was pruned).
	Cleanup []func()
	mu      sync.Mutex
}

func (x *Run) cleanup() {
	for _, f := range x.Cleanup {
		f()
	}
	x.Cleanup = nil
}

func (x *Run) failf(clause, f string, a ...interface{}) {
	x.mu.Lock() // only contended in the free-running race pass
	defer x.mu.Unlock()
	if x.Fail == "" {
		x.Fail = clause + "|" + fmt.Sprintf(f, a...)
	}
}

// Scenario is one closed concurrent program explored by the sched explorer.
type Scenario struct {
	Property string
	Name     string
	Params   map[string]string
	Ticks    int
	WPref    bool
	// Body runs as thread 0.
	Body func(x *Run)
	// Check is the oracle, run after the execution reached quiescence. It
	// returns a violation clause/detail (empty = fine) and an outcome
	// signature used to count distinct observed outcomes.
	Check func(x *Run, o *rt.Outcome) (clause, detail, outcome string)
	// AllowLeak: library goroutines still parked at the end are not a violation.
	AllowLeak bool
	// Shards: number of worker processes the DFS is split over (second-level subtrees).
	Shards int
	// Bound overrides the tier's preemption bound when > 0 (BoundSet).
	Bound    int
	BoundSet bool
	// FreeBound bounds the number of non-default choices at non-preemptive
	// scheduling points (a thread blocked, yielded or exited and several others
	// are runnable); 0 = unbounded. Scenarios with many blocking points need it:
	// the set of non-preemptive schedules alone is exponential there.
	FreeBound int
	// PoolMiss: sync.Pool.Get may return a fresh object although the pool holds one (a data choice).
	PoolMiss bool
	// NoBonus: no bounds beyond the required one on the bonus time budget.
	NoBonus bool
}

// Stats of one exploration.
type Stats struct {
	Executions  int64            `json:"executions"`
	Pruned      int64            `json:"pruned"`
	Transitions int64            `json:"transitions"`
	States      int64            `json:"states"`
	MaxChoices  int              `json:"max_choice_points"`
	MaxSteps    int              `json:"max_steps"`
	Outcomes    map[string]int64 `json:"outcomes"`
	BoundDone   int              `json:"bound_completed"`
	Exhaustive  bool             `json:"exhaustive"`
	TimedOut    bool             `json:"timed_out"`
	MaxPreempts int              `json:"max_preemptions_seen"`
	FreeBound   int              `json:"free_deviation_bound"`
	Threads     int              `json:"threads"`
	Sample      []string         `json:"sample,omitempty"`
	WallS       float64          `json:"wall_s"`
	// BonusBound is the highest bound (sched) or depth (seq) attempted beyond the required one on the bonus
	// time budget; BonusTimedOut says that this attempt was cut short (the required bound is unaffected).
	BonusBound    int  `json:"bonus_bound_attempted,omitempty"`
	BonusTimedOut bool `json:"bonus_timed_out,omitempty"`
}

// BonusBudget is the time a worker may spend beyond the required bound or depth (set per tier by the worker).
var BonusBudget time.Duration

// knownSigs holds the signatures listed as status=known in known_findings.json
// (path in $VERIF_KNOWN). A violation with such a signature is recorded once
// and exploration continues, so that a different violation is still found.
var knownSigs = loadKnown()

func loadKnown() map[string]bool {
	m := map[string]bool{}
	p := os.Getenv("VERIF_KNOWN")
	if p == "" {
		return m
	}
	b, err := os.ReadFile(p)
	if err != nil {
		return m
	}
	var f struct {
		Findings []struct {
			Status    string `json:"status"`
			Signature string `json:"signature"`
		} `json:"findings"`
	}
	if json.Unmarshal(b, &f) == nil {
		for _, x := range f.Findings {
			if x.Status == "known" {
				m[x.Signature] = true
			}
		}
	}
	return m
}

// Explorer is the preemption-bounded DFS with happens-before state caching.
type Explorer struct {
	known    map[string]*Violation
	sc       *Scenario
	bound    int
	shard    int
	nshards  int
	deadline time.Time
	visited  map[uint64][2]int8
	st       Stats
	viol     *Violation
	infraErr string
	l2       int
	noCache  bool
}

func (e *Explorer) runOnce(prefix []int, trace bool, prune func(int, rt.PointInfo) bool) (*Run, *rt.Outcome) {
	x := &Run{Vals: map[string]interface{}{}}
	cfg := rt.Config{Prefix: prefix, Trace: trace, Ticks: e.sc.Ticks, WriterPref: e.sc.WPref, PruneAt: prune, PoolMiss: e.sc.PoolMiss}
	o := rt.Run(cfg, func() { e.sc.Body(x) })
	return x, o
}

// judge evaluates the generic and the scenario-specific oracle.
func (e *Explorer) judge(x *Run, o *rt.Outcome) (*Violation, string) {
	mk := func(clause, detail string) *Violation {
		v := &Violation{Property: e.sc.Property, Scenario: e.sc.Name, Clause: clause, Detail: detail, Choices: append([]int{}, o.Choices...), Params: e.sc.Params}
		for i, p := range o.Points {
			if o.Choices[i] > 0 && p.CurEnabled && !p.Data {
				v.Preempts++
			}
		}
		if x.Rec != nil {
			v.Log = x.Rec.Strings()
		}
		return v
	}
	if len(o.Panics) > 0 {
		first := o.Panics[0]
		msg := first
		if i := strings.Index(first, "\n"); i > 0 {
			msg = first[:i]
		}
		if i := strings.Index(msg, "): "); i > 0 {
			msg = msg[i+3:]
		}
		return mk("panic: "+msg, first), "panic"
	}
	if o.Deadlock {
		return mk("deadlock", "no thread enabled while the scenario's main thread is unfinished; blocked: "+strings.Join(o.Leaked, ", ")), "deadlock"
	}
	if o.Livelock {
		return mk("livelock", "only spinning threads are enabled"), "livelock"
	}
	if x.Fail != "" {
		parts := strings.SplitN(x.Fail, "|", 2)
		return mk(parts[0], parts[1]), "fail:" + parts[0]
	}
	if !e.sc.AllowLeak && len(o.Leaked) > 0 {
		return mk("goroutine-leak", "threads still blocked at quiescence: "+strings.Join(o.Leaked, ", ")), "leak"
	}
	clause, detail, outcome := e.sc.Check(x, o)
	if clause != "" {
		return mk(clause, detail), outcome
	}
	return nil, outcome
}

func (e *Explorer) explore(prefix []int, depth int) {
	if e.viol != nil || e.infraErr != "" {
		return
	}
	if !e.deadline.IsZero() && time.Now().After(e.deadline) {
		e.st.TimedOut = true
		return
	}
	cacheOn := !e.noCache && (e.nshards <= 1 || depth >= 2)
	var prune func(int, rt.PointInfo) bool
	if cacheOn {
		prune = func(idx int, p rt.PointInfo) bool {
			rem := [2]int8{int8(e.bound - p.Preempts), 127}
			if e.sc.FreeBound > 0 {
				rem[1] = int8(e.sc.FreeBound - p.FreeDevs)
			}
			if old, ok := e.visited[p.Key]; ok {
				if old[0] >= rem[0] && old[1] >= rem[1] {
					return true
				}
				if !(rem[0] >= old[0] && rem[1] >= old[1]) {
					return false // incomparable budgets: keep the old entry, explore
				}
			}
			e.visited[p.Key] = rem
			return false
		}
	}
	x, o := e.runOnce(prefix, false, prune)
	defer x.cleanup()
	count := e.nshards <= 1 || depth >= 2 || e.shard == 0
	if o.Diverged != "" {
		e.infraErr = "DIVERGENCE: " + o.Diverged + fmt.Sprintf(" prefix=%v", prefix)
		return
	}
	if o.Horizon {
		e.infraErr = fmt.Sprintf("HORIZON: execution exceeded the step horizon, prefix=%v", prefix)
		return
	}
	if count {
		e.st.Executions++
		e.st.Transitions += int64(o.Steps)
		if len(o.Choices) > e.st.MaxChoices {
			e.st.MaxChoices = len(o.Choices)
		}
		if o.Steps > e.st.MaxSteps {
			e.st.MaxSteps = o.Steps
		}
		if o.NThreads > e.st.Threads {
			e.st.Threads = o.NThreads
		}
	}
	if o.Pruned {
		if count {
			e.st.Pruned++
		}
	} else {
		v, outcome := e.judge(x, o)
		if count {
			e.st.Outcomes[outcome]++
			if len(e.st.Sample) < 3 {
				e.st.Sample = append(e.st.Sample, fmt.Sprintf("choices=%v outcome=%s", o.Choices, outcome))
			}
		}
		if v != nil {
			if knownSigs[v.Signature()] {
				if e.known == nil {
					e.known = map[string]*Violation{}
				}
				if e.known[v.Signature()] == nil {
					e.known[v.Signature()] = v
				}
			} else {
				e.viol = v
				return
			}
		}
	}
	for i := len(prefix); i < len(o.Points); i++ {
		p := o.Points[i]
		cost := p.Preempts
		if p.CurEnabled && !p.Data {
			cost++
		}
		if cost > e.bound {
			continue
		}
		if e.sc.FreeBound > 0 && !p.CurEnabled && !p.Data && p.FreeDevs+1 > e.sc.FreeBound {
			continue
		}
		if cost > e.st.MaxPreempts {
			e.st.MaxPreempts = cost
		}
		for alt := 1; alt < p.NEnabled; alt++ {
			if e.nshards > 1 && depth+1 == 2 {
				e.l2++
				if e.l2%e.nshards != e.shard {
					continue
				}
			}
			np := make([]int, i+1)
			copy(np, o.Choices[:i])
			np[i] = alt
			e.explore(np, depth+1)
			if e.viol != nil || e.infraErr != "" || e.st.TimedOut {
				return
			}
		}
	}
}

// Explore runs bounds 0..maxBound in turn (iterative context bounding).
func Explore(sc *Scenario, maxBound, shard, nshards int, budget time.Duration, noCache bool) (*Stats, *Violation, string, []*Violation) {
	e := &Explorer{sc: sc, shard: shard, nshards: nshards, visited: map[uint64][2]int8{}, noCache: noCache}
	e.st.Outcomes = map[string]int64{}
	e.st.BoundDone = -1
	start := time.Now()
	if budget > 0 {
		e.deadline = start.Add(budget)
	}
	for b := 0; b <= maxBound; b++ {
		e.bound = b
		e.l2 = 0
		e.explore(nil, 0)
		if e.viol != nil || e.infraErr != "" || e.st.TimedOut {
			break
		}
		e.st.BoundDone = b
	}
	e.st.Exhaustive = e.st.BoundDone == maxBound
	// bonus: when the required bound has been completed with time to spare, the next bounds are explored on a
	// separate, short time budget. A bound completed there raises bound_completed; one that is not leaves
	// everything as it was (the required bound stays completely explored). A violation found there counts.
	if e.st.Exhaustive && e.viol == nil && e.infraErr == "" && BonusBudget > 0 && sc.FreeBound == 0 && !sc.NoBonus {
		bd := time.Now().Add(BonusBudget)
		if !e.deadline.IsZero() && e.deadline.Before(bd) {
			bd = e.deadline
		}
		e.deadline = bd
		for b := maxBound + 1; b <= maxBound+2; b++ {
			e.bound = b
			e.l2 = 0
			e.st.BonusBound = b
			e.explore(nil, 0)
			if e.viol != nil || e.infraErr != "" {
				break
			}
			if e.st.TimedOut {
				e.st.TimedOut = false
				e.st.BonusTimedOut = true
				break
			}
			e.st.BoundDone = b
		}
	}
	e.st.States = int64(len(e.visited))
	if e.st.States == 0 {
		e.st.States = e.st.Executions
	}
	e.st.FreeBound = sc.FreeBound
	e.st.WallS = time.Since(start).Seconds()
	var kn []*Violation
	for _, v := range e.known {
		kn = append(kn, v)
	}
	return &e.st, e.viol, e.infraErr, kn
}

// Replay re-executes one recorded schedule and returns the violation it
// shows (nil if none), with a trace.
func Replay(sc *Scenario, choices []int) (*Violation, *rt.Outcome, string) {
	e := &Explorer{sc: sc}
	e.st.Outcomes = map[string]int64{}
	x, o := e.runOnce(choices, true, nil)
	defer x.cleanup()
	if o.Diverged != "" {
		return nil, o, "DIVERGENCE: " + o.Diverged
	}
	v, _ := e.judge(x, o)
	if v != nil {
		v.Trace = o.Trace
	}
	return v, o, ""
}

// WorkerResult is what one worker process prints as JSON.
type WorkerResult struct {
	Scenario  string            `json:"scenario"`
	Params    map[string]string `json:"params,omitempty"`
	Stats     *Stats            `json:"stats"`
	Violation *Violation        `json:"violation,omitempty"`
	Infra     string            `json:"infra,omitempty"`
	Confirmed int               `json:"confirmed"`
	Known     []*Violation      `json:"known_hits,omitempty"`
}

func mergeOutcomes(dst, src map[string]int64) {
	for k, v := range src {
		dst[k] += v
	}
}

func sortedKeys(m map[string]int64) []string {
	ks := make([]string, 0, len(m))
	for k := range m {
		ks = append(ks, k)
	}
	sort.Strings(ks)
	return ks
}

func writeJSON(path string, v interface{}) {
	b, err := json.MarshalIndent(v, "", " ")
	if err != nil {
		panic(err)
	}
	if path == "-" {
		os.Stdout.Write(append(b, '\n'))
		return
	}
	if err := os.WriteFile(path, append(b, '\n'), 0o644); err != nil {
		panic(err)
	}
}
