package main

import (
	"fmt"
	"sort"
	"strings"
	"time"

	tally "github.com/uber-go/tally/v4"
	rt "github.com/uber-go/tally/v4/verifrt"
)

type c11Model struct {
	counters map[string]int64
	gauges   map[string]float64
	timers   map[string][]time.Duration
	hvals    map[string]map[float64]int64
	hdurs    map[string]map[time.Duration]int64
	names    map[string]string
	tags     map[string]map[string]string
}

func newC11Model() *c11Model {
	return &c11Model{counters: map[string]int64{}, gauges: map[string]float64{}, timers: map[string][]time.Duration{},
		hvals: map[string]map[float64]int64{}, hdurs: map[string]map[time.Duration]int64{}, names: map[string]string{}, tags: map[string]map[string]string{}}
}

var (
	// one bucket set per scope of c11Scopes (root and "rootagain" are the same scope). Within each kind the sets
	// have equal length and equal identity in the root's bucket cache (the identity is a sum of bit patterns),
	// some are permutations of each other, some have duplicated bounds.
	c11VSpecs = [][]float64{{1, 1, 2}, {0.5, 2, 2}, {1, 2, 1}, {1, 1, 2}, {2, 0.5, 2}, {1}, {1}, {1}, {1}, {1}}
	c11DSpecs = [][]time.Duration{{5, 1}, {2, 4}, {3, 3}, {5, 1}, {4, 2}, {1}, {1}, {1}, {1}, {1}}
)

// snapshotSig renders a snapshot canonically (also used to detect later changes of an old snapshot).
func snapshotSig(s tally.Snapshot) string {
	var out []string
	for k, c := range s.Counters() {
		out = append(out, fmt.Sprintf("C %q %q %s %d", k, c.Name(), tagString(c.Tags()), c.Value()))
	}
	for k, g := range s.Gauges() {
		out = append(out, fmt.Sprintf("G %q %q %s %v", k, g.Name(), tagString(g.Tags()), g.Value()))
	}
	for k, t := range s.Timers() {
		out = append(out, fmt.Sprintf("T %q %q %s %v", k, t.Name(), tagString(t.Tags()), t.Values()))
	}
	for k, h := range s.Histograms() {
		var vs []string
		for u, c := range h.Values() {
			vs = append(vs, fmt.Sprintf("%v:%d", u, c))
		}
		for u, c := range h.Durations() {
			vs = append(vs, fmt.Sprintf("%d:%d", int64(u), c))
		}
		sort.Strings(vs)
		out = append(out, fmt.Sprintf("H %q %q %s %v", k, h.Name(), tagString(h.Tags()), vs))
	}
	sort.Strings(out)
	return fmt.Sprint(out)
}

func (m *c11Model) sig() string {
	var out []string
	for k, v := range m.counters {
		out = append(out, fmt.Sprintf("C %q %q %s %d", k, m.names[k], tagString(m.tags[k]), v))
	}
	for k, v := range m.gauges {
		out = append(out, fmt.Sprintf("G %q %q %s %v", k, m.names[k], tagString(m.tags[k]), v))
	}
	for k, v := range m.timers {
		out = append(out, fmt.Sprintf("T %q %q %s %v", k, m.names[k], tagString(m.tags[k]), v))
	}
	for k, h := range m.hvals {
		var vs []string
		for u, c := range h {
			vs = append(vs, fmt.Sprintf("%v:%d", u, c))
		}
		sort.Strings(vs)
		out = append(out, fmt.Sprintf("H %q %q %s %v", k, m.names[k], tagString(m.tags[k]), vs))
	}
	for k, h := range m.hdurs {
		var vs []string
		for u, c := range h {
			vs = append(vs, fmt.Sprintf("%d:%d", int64(u), c))
		}
		sort.Strings(vs)
		out = append(out, fmt.Sprintf("H %q %q %s %v", k, m.names[k], tagString(m.tags[k]), vs))
	}
	sort.Strings(out)
	return fmt.Sprint(out)
}

// mutateSnapshot vandalises everything a snapshot hands out.
func mutateSnapshot(s tally.Snapshot) {
	for k, c := range s.Counters() {
		for t := range c.Tags() {
			c.Tags()[t] = "vandal"
		}
		c.Tags()["vandal"] = "1"
		delete(s.Counters(), k)
	}
	for k, g := range s.Gauges() {
		g.Tags()["vandal"] = "1"
		delete(s.Gauges(), k)
	}
	for k, t := range s.Timers() {
		v := t.Values()
		for i := range v {
			v[i] = -777
		}
		t.Tags()["vandal"] = "1"
		delete(s.Timers(), k)
	}
	for k, h := range s.Histograms() {
		for u := range h.Values() {
			h.Values()[u] = -777
		}
		for u := range h.Durations() {
			h.Durations()[u] = -777
		}
		h.Tags()["vandal"] = "1"
		delete(s.Histograms(), k)
	}
}

type c11Scope struct {
	label  string
	prefix string
	tags   map[string]string
	get    func(root tally.Scope) tally.Scope
}

// c11RootTagged: whether the test scope has tags of its own ({"r":"0"}) or none at all (the second configuration:
// entries of untagged scopes are where an implementation is tempted to share one empty tag map).
var c11RootTagged = true

func c11Scopes() []c11Scope {
	base := func(extra map[string]string) map[string]string {
		m := map[string]string{}
		if c11RootTagged {
			m["r"] = "0"
		}
		for k, v := range extra {
			m[k] = v
		}
		return m
	}
	return []c11Scope{
		{"root", "p", base(nil), func(r tally.Scope) tally.Scope { return r }},
		{"sub", "p.a", base(nil), func(r tally.Scope) tally.Scope { return r.SubScope("a") }},
		{"tag", "p", base(map[string]string{"k": "1"}), func(r tally.Scope) tally.Scope { return r.Tagged(map[string]string{"k": "1"}) }},
		// a derivation that ends at the root's own prefix and tags: metrics recorded through it are the root's
		{"rootagain", "p", base(nil), func(r tally.Scope) tally.Scope { return r.Tagged(map[string]string{}) }},
		{"subtag", "p.a", base(map[string]string{"r": "1", "k": "2"}), func(r tally.Scope) tally.Scope {
			return r.SubScope("a").Tagged(map[string]string{"k": "2", "r": "1"})
		}},
		// two tag sets made of the same "name=value" text split at different places, and two that differ only in a byte
		// that is not valid UTF-8 next to a separator byte: four identities, four entries per metric in a snapshot
		// the identity of "subtag" reached by another derivation, whose steps restate and override tags differently
		{"subtag2", "p.a", base(map[string]string{"r": "1", "k": "2"}), func(r tally.Scope) tally.Scope {
			return r.Tagged(map[string]string{"r": "1", "k": "0"}).SubScope("a").Tagged(map[string]string{"k": "2"})
		}},
		{"eq1", "p", base(map[string]string{"q": "b=c"}), func(r tally.Scope) tally.Scope { return r.Tagged(map[string]string{"q": "b=c"}) }},
		{"eq2", "p", base(map[string]string{"q=b": "c"}), func(r tally.Scope) tally.Scope { return r.Tagged(map[string]string{"q=b": "c"}) }},
		{"bin1", "p", base(map[string]string{"z": "1=\xff"}), func(r tally.Scope) tally.Scope { return r.Tagged(map[string]string{"z": "1=\xff"}) }},
		{"bin2", "p", base(map[string]string{"z": "1=\xfe"}), func(r tally.Scope) tally.Scope { return r.Tagged(map[string]string{"z": "1=\xfe"}) }},
	}
}

func c11Alphabet() []string {
	var a []string
	for _, sc := range c11Scopes() {
		ms := []string{"inc 1", "inc -2", "upd 1.5", "upd -0.25", "rec 3", "hv 1", "hv 2.5", "hd 1", "hd 7"}
		if sc.label == "rootagain" {
			ms = []string{"inc 1", "rec 3", "hv 1"}
		}
		if sc.label == "eq1" || sc.label == "eq2" || sc.label == "bin1" || sc.label == "bin2" || sc.label == "subtag2" {
			ms = []string{"inc 1"}
		}
		if sc.label == "root" || sc.label == "sub" {
			// a histogram asked for with nil buckets: the test scope's configured defaults (value bounds, unsorted)
			ms = append(ms, "hn 5")
		}
		for _, m := range ms {
			a = append(a, sc.label+" "+m)
		}
	}
	a = append(a, "close sub", "close subtag")
	return a
}

func c11Exec(alphabet []string) func(hist []int) (string, string, string, int) {
	scopes := c11Scopes()
	return func(hist []int) (cl, det, key string, steps int) {
		cl, det = guard(func() (string, string) {
			var rootTags map[string]string
			if c11RootTagged {
				rootTags = map[string]string{"r": "0"}
			}
			// default buckets: configured value bounds (unsorted) on the tagged root, the built-in duration defaults on the untagged one
			var defaults tally.Buckets
			if c11RootTagged {
				defaults = tally.ValueBuckets{7, 3}
			}
			root := tally.VerifNewTestScopeOpts(tally.ScopeOptions{Prefix: "p", Tags: rootTags, DefaultBuckets: defaults}, 4)
			m := newC11Model()
			live := map[string]tally.Scope{}
			inert := map[string]bool{}
			subClosed := false
			var prev tally.Snapshot
			var prevSig string
			snapCheck := func(after string) (string, string) {
				if prev != nil {
					if s := snapshotSig(prev); s != prevSig {
						return "old-snapshot-changed-by-later-recording", fmt.Sprintf("after %q an earlier snapshot changed:\n was %s\n now %s", after, prevSig, s)
					}
					mutateSnapshot(prev)
				}
				snap := root.Snapshot()
				steps++
				got, want := snapshotSig(snap), m.sig()
				if got != want {
					cl := "snapshot-differs-from-recorded"
					return cl, fmt.Sprintf("after %q:\n snapshot %s\n recorded %s", after, got, want)
				}
				// a snapshot taken through any scope derived from the test scope shows the same tree
				for lbl, ls := range live {
					if inert[lbl] {
						continue
					}
					if ts, ok := ls.(tally.TestScope); ok {
						steps++
						if via := snapshotSig(ts.Snapshot()); via != got {
							return "snapshot-through-derived-scope-differs", fmt.Sprintf("after %q: the snapshot taken through scope %s differs from the one taken through the test scope itself:\n derived %s\n root    %s", after, lbl, via, got)
						}
					}
				}
				prev, prevSig = snap, got
				return "", ""
			}
			for _, op := range hist {
				name := alphabet[op]
				if name == "close sub" || name == "close subtag" {
					lbl := name[6:]
					if s, ok := live[lbl]; ok {
						closeScope(s)
						steps++
						delete(live, lbl) // next use re-obtains it
						if lbl == "sub" {
							subClosed = true
						}
					}
				} else {
					var lbl, what string
					var arg float64
					fmt.Sscanf(name, "%s %s %g", &lbl, &what, &arg)
					var sc c11Scope
					si := 0
					for i, x := range scopes {
						if x.label == lbl {
							sc, si = x, i
						}
					}
					vu, du := refValueUppers(c11VSpecs[si]), refDurationUppers(c11DSpecs[si])
					s, ok := live[lbl]
					if !ok {
						s = sc.get(root)
						live[lbl] = s
						steps++
						// a test scope stays registered when closed, so SubScope("a") keeps
						// returning the closed scope, and what is derived from a closed
						// scope is inert (C07)
						inert[lbl] = lbl == "subtag" && subClosed
						if inert[lbl] != tally.VerifIsNoop(s) {
							return "inertness-of-derived-scope", fmt.Sprintf("scope %s obtained with sub closed=%v: inert=%v", lbl, subClosed, tally.VerifIsNoop(s))
						}
					}
					if inert[lbl] {
						// recording on the inert scope must not show up anywhere
						switch what {
						case "inc":
							s.Counter("c").Inc(int64(arg))
						case "upd":
							s.Gauge("g").Update(arg)
						case "rec":
							s.Timer("t").Record(time.Duration(arg))
						}
						steps++
						if c, d := snapCheck(name); c != "" {
							return c, d
						}
						continue
					}
					var metric string
					switch what {
					case "inc":
						metric = "c"
					case "upd":
						metric = "g"
					case "rec":
						metric = "t"
					case "hv":
						metric = "hv"
					case "hd":
						metric = "hd"
					case "hn":
						metric = "hn"
					}
					full := sc.prefix + "." + metric
					k := tally.KeyForPrefixedStringMap(full, sc.tags)
					m.names[k], m.tags[k] = full, sc.tags
					switch what {
					case "inc":
						s.Counter(metric).Inc(int64(arg))
						m.counters[k] += int64(arg)
					case "upd":
						s.Gauge(metric).Update(arg)
						m.gauges[k] = arg
					case "rec":
						s.Timer(metric).Record(time.Duration(arg))
						m.timers[k] = append(m.timers[k], time.Duration(arg))
					case "hv":
						s.Histogram(metric, tally.ValueBuckets(append([]float64{}, c11VSpecs[si]...))).RecordValue(arg)
						if m.hvals[k] == nil {
							m.hvals[k] = map[float64]int64{}
							for _, u := range vu {
								m.hvals[k][u] = 0
							}
						}
						m.hvals[k][vu[refValueBucket(vu, arg)]]++
					case "hn":
						// both kinds are recorded: the one that does not match the kind of the defaults is ignored
						hn := s.Histogram(metric, nil)
						hn.RecordValue(arg)
						hn.RecordDuration(time.Duration(arg) * time.Millisecond)
						if c11RootTagged {
							nu := refValueUppers([]float64{7, 3})
							if m.hvals[k] == nil {
								m.hvals[k] = map[float64]int64{}
								for _, u := range nu {
									m.hvals[k][u] = 0
								}
							}
							m.hvals[k][nu[refValueBucket(nu, arg)]]++
						} else {
							nd := refDurationUppers(c11BuiltinDefaults)
							if m.hdurs[k] == nil {
								m.hdurs[k] = map[time.Duration]int64{}
								for _, u := range nd {
									m.hdurs[k][u] = 0
								}
							}
							m.hdurs[k][nd[refDurationBucket(nd, time.Duration(arg)*time.Millisecond)]]++
						}
					case "hd":
						s.Histogram(metric, tally.DurationBuckets(append([]time.Duration{}, c11DSpecs[si]...))).RecordDuration(time.Duration(arg))
						if m.hdurs[k] == nil {
							m.hdurs[k] = map[time.Duration]int64{}
							for _, u := range du {
								m.hdurs[k][u] = 0
							}
						}
						m.hdurs[k][du[refDurationBucket(du, time.Duration(arg))]]++
					}
					steps++
				}
				if c, d := snapCheck(name); c != "" {
					return c, d
				}
			}
			key = m.sig() + fmt.Sprint(len(live), subClosed, inert)
			return "", ""
		})
		return
	}
}

func c11Jobs(tier string) []*SeqJob {
	alphabet := c11Alphabet()
	depth := tierInt(tier, 3, 4)
	j := &SeqJob{Property: "C11", Name: "test-scope-histories", Shards: tierInt(tier, 8, 16)}
	j.Run = func(ctx *SeqCtx) {
		for _, tagged := range []bool{true, false} {
			c11RootTagged = tagged
			ctx.OpsPrefix = []string{fmt.Sprint("root-tagged=", tagged)}
			bfs(ctx, alphabet, depth, c11Exec(alphabet))
			if ctx.viol != nil {
				break
			}
			ctx.ResetSeen()
		}
		c11RootTagged = true
	}
	j.Replay = func(ops []string) (string, string) {
		if len(ops) > 0 && strings.HasPrefix(ops[0], "root-tagged=") {
			c11RootTagged = ops[0] == "root-tagged=true"
			ops = ops[1:]
			defer func() { c11RootTagged = true }()
		}
		cl, det, _, _ := c11Exec(alphabet)(opIndex(alphabet, ops))
		return cl, det
	}
	return []*SeqJob{j}
}

// c11Scenarios: snapshots taken concurrently with recording.
func c11Scenarios(tier string) []*Scenario {
	sc := &Scenario{Property: "C11", Name: "Q-snapshot-vs-recording"}
	sc.Body = func(x *Run) {
		root := tally.VerifNewTestScopeOpts(tally.ScopeOptions{Prefix: "p"}, 1)
		s := root.Tagged(map[string]string{"k": "1"})
		c, g, t := s.Counter("c"), s.Gauge("g"), s.Timer("t")
		h := s.Histogram("h", tally.ValueBuckets{1, 2})
		w := rt.GoNamed("rec", func() {
			c.Inc(1)
			g.Update(1.5)
			t.Record(3)
			h.RecordValue(1.5)
			c.Inc(2)
			t.Record(4)
			g.Update(2.5)
		})
		var snaps []tally.Snapshot
		r := rt.GoNamed("snap", func() {
			snaps = append(snaps, root.Snapshot())
			snaps = append(snaps, root.Snapshot())
		})
		w.Join()
		r.Join()
		snaps = append(snaps, root.Snapshot())
		tg := map[string]string{"k": "1"}
		last := int64(-1)
		for i, sn := range snaps {
			final := i == len(snaps)-1
			cv := sn.Counters()[tally.KeyForPrefixedStringMap("p.c", tg)].Value()
			if cv != 0 && cv != 1 && cv != 3 {
				x.failf("concurrent-counter-not-a-prefix-sum", "snapshot %d: counter value %d is not a prefix sum of the increments 1,2", i, cv)
			}
			if cv < last {
				x.failf("concurrent-counter-went-back", "snapshot %d: counter %d after %d", i, cv, last)
			}
			last = cv
			gv := sn.Gauges()[tally.KeyForPrefixedStringMap("p.g", tg)].Value()
			if gv != 0 && gv != 1.5 && gv != 2.5 {
				x.failf("concurrent-gauge-invented", "snapshot %d: gauge %v", i, gv)
			}
			tv := sn.Timers()[tally.KeyForPrefixedStringMap("p.t", tg)].Values()
			want := []time.Duration{3, 4}
			if len(tv) > 2 {
				x.failf("concurrent-timer-not-a-prefix", "snapshot %d: timer values %v", i, tv)
			}
			for j := range tv {
				if j < 2 && tv[j] != want[j] {
					x.failf("concurrent-timer-not-a-prefix", "snapshot %d: timer values %v", i, tv)
				}
			}
			hv := sn.Histograms()[tally.KeyForPrefixedStringMap("p.h", tg)].Values()
			var tot int64
			for _, n := range hv {
				tot += n
			}
			if tot > 1 || (tot == 1 && hv[2] != 1) {
				x.failf("concurrent-histogram-wrong", "snapshot %d: histogram %v", i, hv)
			}
			if final && (cv != 3 || gv != 2.5 || len(tv) != 2 || tot != 1) {
				x.failf("final-snapshot-incomplete", "counter %d gauge %v timers %v histogram %v", cv, gv, tv, hv)
			}
		}
		x.Vals["out"] = fmt.Sprint(snapshotSig(snaps[0]) == snapshotSig(snaps[2]), snapshotSig(snaps[1]) == snapshotSig(snaps[2]))
	}
	sc.Check = func(x *Run, o *rt.Outcome) (string, string, string) { return "", "", fmt.Sprint(x.Vals["out"]) }
	// Q2: two goroutines use the same metric of a test scope for the first time; a snapshot
	// taken concurrently and the final snapshot must account for everything recorded
	sc2 := &Scenario{Property: "C11", Name: "Q2-concurrent-first-use-on-test-scope"}
	sc2.Body = func(x *Run) {
		root := tally.VerifNewTestScopeOpts(tally.ScopeOptions{Prefix: "p"}, 1)
		s := root.SubScope("s")
		var ths []*rt.Thread
		for i := 0; i < 2; i++ {
			i := i
			ths = append(ths, rt.GoNamed(fmt.Sprintf("user%d", i), func() {
				s.Timer("t").Record(time.Duration(i + 1))
				s.Counter("c").Inc(int64(i + 1))
				s.Histogram("h", tally.ValueBuckets{1}).RecordValue(float64(i))
			}))
		}
		sn := rt.GoNamed("snap", func() { _ = root.Snapshot() })
		for _, t := range ths {
			t.Join()
		}
		sn.Join()
		snap := root.Snapshot()
		tv := snap.Timers()["p.s.t+"]
		if tv == nil || len(tv.Values()) != 2 {
			x.failf("recorded-timer-values-missing-from-snapshot", "2 durations recorded on timer p.s.t by two goroutines, snapshot shows %v", tv)
			return
		}
		if c := snap.Counters()["p.s.c+"]; c == nil || c.Value() != 3 {
			x.failf("recorded-increments-missing-from-snapshot", "counter p.s.c: %v", c)
			return
		}
		var tot int64
		if h := snap.Histograms()["p.s.h+"]; h != nil {
			for _, n := range h.Values() {
				tot += n
			}
		}
		if tot != 2 {
			x.failf("recorded-samples-missing-from-snapshot", "histogram p.s.h holds %d of 2 samples", tot)
		}
	}
	sc2.Check = func(x *Run, o *rt.Outcome) (string, string, string) { return "", "", "ok" }
	// Q3: one goroutine derives, records and closes a subscope while another derives the same one
	// and records: test scopes and what was recorded on them survive Close
	sc3 := &Scenario{Property: "C11", Name: "Q3-close-while-another-goroutine-derives"}
	sc3.Body = func(x *Run) {
		root := tally.VerifNewTestScopeOpts(tally.ScopeOptions{Prefix: "p"}, 1)
		a := rt.GoNamed("a", func() {
			s := root.Tagged(map[string]string{"k": "1"})
			s.Counter("c").Inc(1)
			closeScope(s)
		})
		b := rt.GoNamed("b", func() {
			s := root.Tagged(map[string]string{"k": "1"})
			s.Counter("c").Inc(2)
		})
		a.Join()
		b.Join()
		snap := root.Snapshot()
		c := snap.Counters()["p.c+k=1"]
		if c == nil || c.Value() != 3 {
			x.failf("closed-test-scope-lost-its-metrics", "1 and 2 were recorded on test scope p{k=1} (closed by one goroutine in between); snapshot shows %v", c)
		}
	}
	sc3.Check = func(x *Run, o *rt.Outcome) (string, string, string) { return "", "", "ok" }
	// Q4: the test scope itself (it sits in every shard of its registry: 3 here) is snapshotted while another goroutine
	// makes the first use of metric names on it - the slow path that needs the scope's write locks. Go's RWMutex lets a
	// waiting writer block new readers: the scenario runs with that preference, so that read locks a snapshot holds
	// on to while it takes the same lock again are a deadlock here as they are in production.
	sc4 := &Scenario{Property: "C11", Name: "Q4-snapshot-vs-first-use-on-the-test-scope-itself-3-shards", WPref: true}
	sc4.Body = func(x *Run) {
		root := tally.VerifNewTestScopeOpts(tally.ScopeOptions{Prefix: "p"}, 3)
		root.Counter("old").Inc(1)
		u := rt.GoNamed("user", func() {
			root.Counter("new").Inc(5)
			root.Gauge("g").Update(2)
			root.Timer("t").Record(3)
			root.Histogram("h", tally.ValueBuckets{1}).RecordValue(0.5)
		})
		sn := rt.GoNamed("snap", func() { _ = root.Snapshot() })
		u.Join()
		sn.Join()
		snap := root.Snapshot()
		cv := snap.Counters()[tally.KeyForPrefixedStringMap("p.new", nil)]
		if cv == nil || cv.Value() != 5 || snap.Counters()[tally.KeyForPrefixedStringMap("p.old", nil)].Value() != 1 {
			x.failf("final-snapshot-incomplete", "counters after the concurrent phase: %v", snapshotSig(snap))
		}
		if g := snap.Gauges()[tally.KeyForPrefixedStringMap("p.g", nil)]; g == nil || g.Value() != 2 {
			x.failf("final-snapshot-incomplete", "gauge missing: %v", snapshotSig(snap))
		}
	}
	sc4.Check = func(x *Run, o *rt.Outcome) (string, string, string) { return "", "", "ok" }

	return []*Scenario{sc, sc2, sc3, sc4}
}

// c11BuiltinDefaults: the library's default histogram buckets (documented in scope.go).
var c11BuiltinDefaults = []time.Duration{0, 10 * time.Millisecond, 25 * time.Millisecond, 50 * time.Millisecond, 75 * time.Millisecond, 100 * time.Millisecond, 200 * time.Millisecond,
	300 * time.Millisecond, 400 * time.Millisecond, 500 * time.Millisecond, 600 * time.Millisecond, 800 * time.Millisecond, time.Second, 2 * time.Second, 5 * time.Second}
