package main

import (
	"errors"
	"fmt"
	"math"
	"strconv"
	"time"

	cactus "github.com/cactus/go-statsd-client/v5/statsd"
	tally "github.com/uber-go/tally/v4"
	tstatsd "github.com/uber-go/tally/v4/statsd"
)

// statCall is one call received by the recording statsd client.
type statCall struct {
	method string
	name   string
	i      int64
	d      time.Duration
	s      string
	rate   float32
	ntags  int
}

type recStatter struct {
	calls     []statCall
	panicNext bool // the next client call is recorded and then panics (a client that fails by panicking), once
	errAlways bool // every client call is recorded (it took effect) and answered with an error
}

var errStatter = errors.New("statsd client: one of the backends is down")

type statterPanic struct{}

func (r *recStatter) add(c statCall) error {
	r.calls = append(r.calls, c)
	if r.panicNext {
		r.panicNext = false
		panic(statterPanic{})
	}
	if r.errAlways {
		return errStatter
	}
	return nil
}
func (r *recStatter) Inc(n string, v int64, rate float32, t ...cactus.Tag) error {
	return r.add(statCall{"Inc", n, v, 0, "", rate, len(t)})
}
func (r *recStatter) Dec(n string, v int64, rate float32, t ...cactus.Tag) error {
	return r.add(statCall{"Dec", n, v, 0, "", rate, len(t)})
}
func (r *recStatter) Gauge(n string, v int64, rate float32, t ...cactus.Tag) error {
	return r.add(statCall{"Gauge", n, v, 0, "", rate, len(t)})
}
func (r *recStatter) GaugeDelta(n string, v int64, rate float32, t ...cactus.Tag) error {
	return r.add(statCall{"GaugeDelta", n, v, 0, "", rate, len(t)})
}
func (r *recStatter) Timing(n string, v int64, rate float32, t ...cactus.Tag) error {
	return r.add(statCall{"Timing", n, v, 0, "", rate, len(t)})
}
func (r *recStatter) TimingDuration(n string, v time.Duration, rate float32, t ...cactus.Tag) error {
	return r.add(statCall{"TimingDuration", n, 0, v, "", rate, len(t)})
}
func (r *recStatter) Set(n string, v string, rate float32, t ...cactus.Tag) error {
	return r.add(statCall{"Set", n, 0, 0, v, rate, len(t)})
}
func (r *recStatter) SetInt(n string, v int64, rate float32, t ...cactus.Tag) error {
	return r.add(statCall{"SetInt", n, v, 0, "", rate, len(t)})
}
func (r *recStatter) Raw(n string, v string, rate float32, t ...cactus.Tag) error {
	return r.add(statCall{"Raw", n, 0, 0, v, rate, len(t)})
}
func (r *recStatter) NewSubStatter(string) cactus.SubStatter { return nil }
func (r *recStatter) SetPrefix(string)                       {}
func (r *recStatter) Close() error                           { return nil }

func refValueBound(v float64, prec int) string {
	if v == math.MaxFloat64 {
		return "infinity"
	}
	if v == -math.MaxFloat64 {
		return "-infinity"
	}
	return strconv.FormatFloat(v, 'f', prec, 64)
}

func refDurationBound(d time.Duration) string {
	if d == math.MaxInt64 {
		return "infinity"
	}
	if d == math.MinInt64 {
		return "-infinity"
	}
	return d.String()
}

func c18Jobs(tier string) []*SeqJob {
	names := []string{"a", "a.b", "", "disk.used%", "100%sure", "a%%b"}
	rates := []float32{0, 0.1, 0.5, 1}
	counters := varintAlphabet()
	gauges := []float64{0, 0.5, -0.5, 1.5, -1.5, 1e18, -1e18, 9223372036854774784, -9223372036854774784, 0.999999, -0.999999}
	durs := []time.Duration{math.MinInt64, -1, 0, 1, time.Second, math.MaxInt64}
	one := func(rate float32, prec uint, f func(r tally.StatsReporter), want statCall) (string, string) {
		// the environment deviates: a client that answers every call with an error after taking it (a sender with one
		// of several backends down) is still handed each value exactly once
		est := &recStatter{errAlways: true}
		f(tstatsd.NewReporter(est, tstatsd.Options{SampleRate: rate, HistogramBucketNamePrecision: prec}))
		if len(est.calls) != 1 {
			return "not-exactly-one-client-call", fmt.Sprintf("%d client calls for one report call when the client answers with an error: %+v", len(est.calls), est.calls)
		}
		st := &recStatter{}
		r := tstatsd.NewReporter(st, tstatsd.Options{SampleRate: rate, HistogramBucketNamePrecision: prec})
		f(r)
		wr := rate
		if rate == 0 {
			wr = 1
		}
		want.rate = wr
		if len(st.calls) != 1 {
			return "not-exactly-one-client-call", fmt.Sprintf("%d client calls for one report call: %+v", len(st.calls), st.calls)
		}
		if est.calls[0] != st.calls[0] {
			return "client-call-differs", fmt.Sprintf("client call %+v when the client answers with an error, %+v when it does not", est.calls[0], st.calls[0])
		}
		if st.calls[0] != want {
			return "client-call-differs", fmt.Sprintf("client call %+v, want %+v (configured rate %v)", st.calls[0], want, rate)
		}
		if c := r.Capabilities(); !c.Reporting() || c.Tagging() {
			return "capabilities", fmt.Sprintf("reporting=%v tagging=%v", c.Reporting(), c.Tagging())
		}
		return "", ""
	}
	tags := map[string]string{"ignored": "tag"}
	scalar := &SeqJob{Property: "C18", Name: "scalar-forwarding-product"}
	scalarCase := func(kind string, ni, ri, vi int) (string, string) {
		n, rate := names[ni], rates[ri]
		switch kind {
		case "counter":
			v := counters[vi]
			return one(rate, 0, func(r tally.StatsReporter) { r.ReportCounter(n, tags, v) }, statCall{method: "Inc", name: n, i: v})
		case "gauge":
			v := gauges[vi]
			return one(rate, 0, func(r tally.StatsReporter) { r.ReportGauge(n, tags, v) }, statCall{method: "Gauge", name: n, i: int64(v)})
		default:
			v := durs[vi]
			return one(rate, 0, func(r tally.StatsReporter) { r.ReportTimer(n, tags, v) }, statCall{method: "TimingDuration", name: n, d: v})
		}
	}
	scalar.Run = func(ctx *SeqCtx) {
		for _, k := range []struct {
			kind string
			n    int
		}{{"counter", len(counters)}, {"gauge", len(gauges)}, {"timer", len(durs)}} {
			for ni := range names {
				for ri := range rates {
					for vi := 0; vi < k.n; vi++ {
						kind, ni, ri, vi := k.kind, ni, ri, vi
						cl, det := guard(func() (string, string) { return scalarCase(kind, ni, ri, vi) })
						ops := []string{kind, fmt.Sprint(ni), fmt.Sprint(ri), fmt.Sprint(vi)}
						ctx.Case(1, true, func() string { return fmt.Sprint(ops) })
						ctx.State(fmt.Sprint(ops))
						if cl != "" {
							ctx.Fail(cl, det, ops)
							if ctx.viol != nil {
								return
							}
						}
					}
				}
			}
		}
		ctx.Alphabet("names a, a.b, empty", "rates unset 0.1 0.5 1", fmt.Sprintf("%d counter values (one per varint length class and sign)", len(counters)), fmt.Sprintf("gauges %v", gauges), fmt.Sprintf("durations %v", durs))
		ctx.DepthDone(1)
	}
	scalar.Replay = func(ops []string) (string, string) {
		var ni, ri, vi int
		fmt.Sscan(ops[1], &ni)
		fmt.Sscan(ops[2], &ri)
		fmt.Sscan(ops[3], &vi)
		return guard(func() (string, string) { return scalarCase(ops[0], ni, ri, vi) })
	}

	// bucket names: every spec of the C03 enumeration, precisions 1..12, directly and through a root scope
	L := tierInt(tier, 3, 5)
	va, da := c03ValueAlphabet(), c03DurationAlphabet()
	va = append(va, 16777217, 16777216, 0.1, 100.1, 1e9+1)
	hname := "h"
	bucketCase := func(kind string, prec uint, idx []int, viaScope bool) (string, string) {
		st := &recStatter{}
		rep := tstatsd.NewReporter(st, tstatsd.Options{HistogramBucketNamePrecision: prec})
		p := int(prec)
		if p == 0 {
			p = 6
		}
		type bk struct{ lo, hi string }
		var want []string
		var pairs []bk
		var buckets tally.Buckets
		if kind == "value" {
			spec := make([]float64, len(idx))
			for i, k := range idx {
				spec[i] = va[k]
			}
			buckets = tally.ValueBuckets(spec)
			ref := refValueUppers(spec)
			lo := -math.MaxFloat64
			for _, hi := range ref {
				pairs = append(pairs, bk{refValueBound(lo, p), refValueBound(hi, p)})
				lo = hi
			}
		} else {
			spec := make([]time.Duration, len(idx))
			for i, k := range idx {
				spec[i] = da[k]
			}
			buckets = tally.DurationBuckets(spec)
			ref := refDurationUppers(spec)
			lo := time.Duration(math.MinInt64)
			for _, hi := range ref {
				pairs = append(pairs, bk{refDurationBound(lo), refDurationBound(hi)})
				lo = hi
			}
		}
		for _, b := range pairs {
			want = append(want, hname+"."+b.lo+"-"+b.hi)
		}
		if viaScope {
			root, _ := tally.VerifNewRootScope(tally.ScopeOptions{Reporter: rep, OmitCardinalityMetrics: true}, 0, 1)
			h := root.Histogram(hname, buckets)
			// one sample per bucket, in bucket order: the upper bound of each bucket
			if kind == "value" {
				for _, u := range refValueUppers(buckets.(tally.ValueBuckets)) {
					h.RecordValue(u)
				}
			} else {
				for _, u := range refDurationUppers(buckets.(tally.DurationBuckets)) {
					h.RecordDuration(u)
				}
			}
			tally.VerifReportOnce(root)
			// duplicated bounds give empty buckets that are not delivered: compare as a sub-sequence check below
		} else {
			for _, pr := range tally.BucketPairs(buckets) {
				if kind == "value" {
					rep.ReportHistogramValueSamples(hname, tags, buckets, pr.LowerBoundValue(), pr.UpperBoundValue(), 3)
				} else {
					rep.ReportHistogramDurationSamples(hname, tags, buckets, pr.LowerBoundDuration(), pr.UpperBoundDuration(), 3)
				}
			}
		}
		got := map[string]bool{}
		for _, c := range st.calls {
			if c.method != "Inc" || c.rate != 1 || c.ntags != 0 {
				return "bucket-call-not-a-counter-increment", fmt.Sprintf("%+v", c)
			}
			got[c.name] = true
		}
		if !viaScope {
			if len(st.calls) != len(want) {
				return "not-exactly-one-client-call", fmt.Sprintf("%d calls for %d buckets", len(st.calls), len(want))
			}
			for i, c := range st.calls {
				if c.name != want[i] || c.i != 3 {
					return "bucket-stat-name", fmt.Sprintf("%s spec %v precision %d: bucket %d sent as %q (value %d), want %q", kind, idx, prec, i, c.name, c.i, want[i])
				}
			}
		} else {
			wantSet := map[string]bool{}
			for _, w := range want {
				wantSet[w] = true
			}
			for n := range got {
				if !wantSet[n] {
					return "bucket-stat-name", fmt.Sprintf("%s spec %v precision %d via scope: stat %q is not one of %v", kind, idx, prec, n, want)
				}
			}
		}
		// two buckets whose rendered bounds differ never share a stat name
		for i := range pairs {
			for j := i + 1; j < len(pairs); j++ {
				if pairs[i] != pairs[j] && !viaScope && st.calls[i].name == st.calls[j].name {
					return "distinct-buckets-share-stat-name", fmt.Sprintf("%s spec %v precision %d: buckets %d %v and %d %v are both sent as %q", kind, idx, prec, i, pairs[i], j, pairs[j], st.calls[i].name)
				}
			}
		}
		return "", ""
	}
	bucket := &SeqJob{Property: "C18", Name: "bucket-stat-names", Shards: tierInt(tier, 4, 16)}
	bucket.Run = func(ctx *SeqCtx) {
		n := 0
		for _, kind := range []string{"value", "duration"} {
			na := len(va)
			if kind == "duration" {
				na = len(da)
			}
			enumSeqs(na, L, func(seq []int) bool {
				n++
				if !ctx.Mine(n) {
					return true
				}
				if ctx.Expired() {
					return false
				}
				for prec := uint(0); prec <= 12; prec++ {
					if kind == "duration" && prec > 1 {
						break
					}
					// names with printf verbs for a few precisions only
					hname = "h"
					if prec == 3 {
						hname = "disk.used%"
					} else if prec == 4 {
						hname = "100%sure.%d"
					}
					for _, via := range []bool{false, true} {
						if via && prec != 0 && prec != 2 {
							continue
						}
						sq := append([]int{}, seq...)
						cl, det := guard(func() (string, string) { return bucketCase(kind, prec, sq, via) })
						ops := []string{kind, fmt.Sprint(prec), fmt.Sprint(via)}
						for _, k := range sq {
							ops = append(ops, fmt.Sprint(k))
						}
						ctx.Case(len(sq)+2, len(sq) > 0, func() string { return fmt.Sprint(ops) })
						ctx.State(fmt.Sprint(ops))
						if cl != "" {
							ctx.Fail(cl, det, ops)
							if ctx.viol != nil {
								return false
							}
						}
					}
				}
				return true
			})
		}
		for _, v := range va {
			ctx.Alphabet(fmt.Sprintf("value bound %v", v))
		}
		for _, d := range da {
			ctx.Alphabet(fmt.Sprintf("duration bound %d", int64(d)))
		}
		ctx.Alphabet("precisions unset,1..12")
		if !ctx.st.TimedOut && ctx.viol == nil {
			ctx.DepthDone(L)
		}
	}
	bucket.Replay = func(ops []string) (string, string) {
		var prec uint
		var via bool
		fmt.Sscan(ops[1], &prec)
		fmt.Sscan(ops[2], &via)
		hname = "h"
		if prec == 3 {
			hname = "disk.used%"
		} else if prec == 4 {
			hname = "100%sure.%d"
		}
		var idx []int
		for _, o := range ops[3:] {
			var k int
			fmt.Sscan(o, &k)
			idx = append(idx, k)
		}
		return guard(func() (string, string) { return bucketCase(ops[0], prec, idx, via) })
	}
	return []*SeqJob{scalar, bucket, c18SequenceJob(tier), c18SharedReporterJob(tier)}
}

// c18SequenceJob: histories over one reporter (a cached name must not leak between buckets/histograms).
func c18SequenceJob(tier string) *SeqJob {
	type call struct {
		name   string
		lo, hi float64
		dur    bool
	}
	calls := []call{{"h", 10, 20, false}, {"h", 5, 20, false}, {"h", 10, 30, false}, {"g", 10, 20, false},
		{"h", 10e6, 20e6, true}, {"h", 5e6, 20e6, true}, {"g", 10e6, 20e6, true}}
	var alphabet []string
	for _, c := range calls {
		alphabet = append(alphabet, fmt.Sprintf("bucket %s (%v,%v] dur=%v", c.name, c.lo, c.hi, c.dur))
	}
	// the environment deviates: the statsd client panics in the call it is handed (after taking it), the application
	// recovers; the bucket reports that follow go out under their own names all the same
	failing := map[int]int{len(calls): 0, len(calls) + 1: 4}
	alphabet = append(alphabet, alphabet[0]+" and the client panics", alphabet[4]+" and the client panics")
	// ... or it answers with an error after taking the call
	erring := map[int]int{len(calls) + 2: 0, len(calls) + 3: 4}
	alphabet = append(alphabet, alphabet[0]+" and the client answers with an error", alphabet[4]+" and the client answers with an error")
	depth := tierInt(tier, 3, 4)
	rate := float32(0)
	exec := func(hist []int) (cl, det, key string, steps int) {
		cl, det = guard(func() (string, string) {
			st := &recStatter{}
			rep := tstatsd.NewReporter(st, tstatsd.Options{SampleRate: rate})
			for i, op := range hist {
				fail := false
				if k, ok := failing[op]; ok {
					op, fail = k, true
					st.panicNext = true
				}
				if k, ok := erring[op]; ok {
					op = k
					st.errAlways = true
				}
				c := calls[op]
				var want string
				func() {
					defer func() {
						if r := recover(); r != nil {
							if _, ok := r.(statterPanic); !ok || !fail {
								panic(r)
							}
						}
					}()
					if c.dur {
						rep.ReportHistogramDurationSamples(c.name, nil, nil, time.Duration(c.lo), time.Duration(c.hi), 1)
					} else {
						rep.ReportHistogramValueSamples(c.name, nil, nil, c.lo, c.hi, 1)
					}
				}()
				st.panicNext, st.errAlways = false, false
				if c.dur {
					want = c.name + "." + refDurationBound(time.Duration(c.lo)) + "-" + refDurationBound(time.Duration(c.hi))
				} else {
					want = c.name + "." + refValueBound(c.lo, 6) + "-" + refValueBound(c.hi, 6)
				}
				steps++
				if len(st.calls) != i+1 {
					return "not-exactly-one-client-call", fmt.Sprintf("configured rate %v: %d client calls after %d bucket reports (the client does the sampling; the reporter forwards every report)", rate, len(st.calls), i+1)
				}
				if st.calls[i].name != want {
					return "bucket-stat-name-depends-on-history", fmt.Sprintf("call %d %s sent as %q, want %q", i, alphabet[op], st.calls[len(st.calls)-1].name, want)
				}
				if wr := map[bool]float32{true: 1, false: rate}[rate == 0]; st.calls[i].rate != wr {
					return "client-call-differs", fmt.Sprintf("bucket report forwarded with rate %v, configured %v", st.calls[i].rate, rate)
				}
			}
			return "", ""
		})
		key = fmt.Sprint(hist) // the reporter may cache: no merging
		return
	}
	j := &SeqJob{Property: "C18", Name: "bucket-call-histories"}
	j.Run = func(ctx *SeqCtx) {
		for _, r := range []float32{0, 0.1} {
			rate = r
			ctx.OpsPrefix = []string{fmt.Sprint(r)}
			bfs(ctx, alphabet, depth, exec)
			if ctx.viol != nil {
				return
			}
		}
	}
	j.Replay = func(ops []string) (string, string) {
		fmt.Sscan(ops[0], &rate)
		c, d, _, _ := exec(opIndex(alphabet, ops[1:]))
		return c, d
	}
	return j
}

// c18SharedReporterJob: two root scopes hand their values to ONE statsd reporter; histories of recording through
// either, closing the first and report passes of the second. Whatever an open scope hands over on its pass or on
// its Close results in exactly one client call - also after the other scope has been closed.
func c18SharedReporterJob(tier string) *SeqJob {
	alphabet := []string{"inc root1", "inc root2", "gauge root2", "timer root2", "hist root2", "close root1", "pass root2"}
	depth := tierInt(tier, 4, 5)
	exec := func(hist []int) (cl, det, key string, steps int) {
		cl, det = guard(func() (string, string) {
			st := &recStatter{}
			rep := tstatsd.NewReporter(st, tstatsd.Options{})
			r1, c1 := tally.NewRootScope(tally.ScopeOptions{Prefix: "one", Reporter: rep, OmitCardinalityMetrics: true}, 0)
			r2, c2 := tally.NewRootScope(tally.ScopeOptions{Prefix: "two", Reporter: rep, OmitCardinalityMetrics: true}, 0)
			want := map[string]int{}
			pend1, pend2 := map[string]int{}, map[string]int{}
			closed1 := false
			v := int64(1)
			flush := func(p map[string]int) {
				for k, n := range p {
					want[k] += n
					delete(p, k)
				}
			}
			for _, op := range hist {
				steps++
				v++
				switch alphabet[op] {
				case "inc root1":
					r1.Counter("c").Inc(v)
					if !closed1 {
						pend1[fmt.Sprintf("Inc one.c %d", v)]++
					}
				case "inc root2":
					r2.Counter("c").Inc(v)
					pend2[fmt.Sprintf("Inc two.c %d", v)]++
				case "gauge root2":
					r2.Gauge("g").Update(float64(v))
					for k := range pend2 {
						if len(k) > 10 && k[:11] == "Gauge two.g" {
							delete(pend2, k)
						}
					}
					pend2[fmt.Sprintf("Gauge two.g %d", v)] = 1
				case "timer root2":
					r2.Timer("t").Record(time.Duration(v))
					want[fmt.Sprintf("TimingDuration two.t %d", v)]++ // forwarded at once
				case "hist root2":
					r2.Histogram("h", tally.ValueBuckets{1000}).RecordValue(float64(v))
					pend2["Inc two.h.-infinity-1000.000000 1"]++
				case "close root1":
					_ = c1.Close()
					if !closed1 {
						flush(pend1)
					}
					closed1 = true
				case "pass root2":
					tally.VerifReportOnce(r2)
					// counter deltas of one metric are summed by the scope; the model keeps them apart, so fold
					foldCounters(pend2)
					flush(pend2)
				}
			}
			_ = c2.Close()
			foldCounters(pend2)
			flush(pend2)
			if !closed1 {
				_ = c1.Close()
				foldCounters(pend1)
				flush(pend1)
			}
			got := map[string]int{}
			for _, c := range st.calls {
				switch c.method {
				case "TimingDuration":
					got[fmt.Sprintf("%s %s %d", c.method, c.name, int64(c.d))]++
				default:
					got[fmt.Sprintf("%s %s %d", c.method, c.name, c.i)]++
				}
			}
			// (root1's counters recorded before its Close are folded as well)
			if fmt.Sprint(foldAll(got)) != fmt.Sprint(foldAll(want)) {
				return "values-of-a-second-scope-not-forwarded", fmt.Sprintf("%v: client calls %v, expected %v", histLabels(alphabet, hist), foldAll(got), foldAll(want))
			}
			return "", ""
		})
		key = fmt.Sprint(hist)
		return
	}
	j := &SeqJob{Property: "C18", Name: "two-scopes-one-reporter"}
	j.Run = func(ctx *SeqCtx) { bfs(ctx, alphabet, depth, exec) }
	j.Replay = func(ops []string) (string, string) { c, d, _, _ := exec(opIndex(alphabet, ops)); return c, d }
	return j
}

// foldCounters merges the pending increments of one counter into one expected delta (a scope sums them).
func foldCounters(p map[string]int) {
	sums := map[string]int64{}
	for k, n := range p {
		var name string
		var v int64
		if _, err := fmt.Sscanf(k, "Inc %s %d", &name, &v); err == nil && (name == "one.c" || name == "two.c") {
			sums[name] += v * int64(n)
			delete(p, k)
		}
	}
	for name, v := range sums {
		p[fmt.Sprintf("Inc %s %d", name, v)] = 1
	}
}

// foldAll sums the values per method and stat name (how deltas are split over passes is not the point here).
func foldAll(m map[string]int) map[string]int64 {
	out := map[string]int64{}
	for k, n := range m {
		var method, name string
		var v int64
		if _, err := fmt.Sscanf(k, "%s %s %d", &method, &name, &v); err == nil {
			if method == "Gauge" {
				continue // judged by C02; only what must arrive exactly (sums of counters, timers, buckets) is compared
			}
			out[method+" "+name] += v * int64(n)
		}
	}
	return out
}

// varintAlphabet: one int64 per encoded length and sign.
func varintAlphabet() []int64 {
	out := []int64{0, 1, -1, math.MaxInt64, math.MinInt64}
	for k := uint(6); k <= 62; k++ {
		if k%7 == 6 || k%7 == 0 || k == 31 || k == 32 {
			p := int64(1) << k
			out = append(out, p-1, p, -(p - 1), -p)
		}
	}
	return out
}
