package main

import (
	"fmt"
	"math"
	"net"
	"strings"
	"time"

	tally "github.com/uber-go/tally/v4"
	"github.com/uber-go/tally/v4/m3"
	rt "github.com/uber-go/tally/v4/verifrt"
)

type c12Shape struct {
	label string
	// report performs one report of this shape with value variant v and returns the key expected in the decoded output
	alloc func(r m3.Reporter) (charged int32, report func(variant int) string)
}

func c12Tags(n int) map[string]string {
	if n == 0 {
		return nil
	}
	t := map[string]string{}
	for i := 0; i < n; i++ {
		t[fmt.Sprintf("tagkey%02d", i)] = fmt.Sprintf("tagvalue%02d", i)
	}
	return t
}

func c12Shapes() []c12Shape {
	name40 := strings.Repeat("n", 40)
	name600 := strings.Repeat("N", 600)
	cnt := func(label, name string, ntags int) c12Shape {
		return c12Shape{label, func(r m3.Reporter) (int32, func(int) string) {
			h := r.AllocateCounter(name, c12Tags(ntags))
			vals := []int64{math.MinInt64, 0, math.MaxInt64}
			return m3.VerifChargedSize(h), func(v int) string {
				h.ReportCount(vals[v%3])
				return fmt.Sprintf("%s count=%d", name, vals[v%3])
			}
		}}
	}
	return []c12Shape{
		cnt("counter-1char-notags", "c", 0),
		cnt("counter-40char-3tags", name40, 3),
		cnt("counter-600char-8tags", name600, 8),
		{"gauge-1char-1tag", func(r m3.Reporter) (int32, func(int) string) {
			h := r.AllocateGauge("g", c12Tags(1))
			vals := []float64{math.NaN(), 0, -math.MaxFloat64}
			return m3.VerifChargedSize(h), func(v int) string {
				h.ReportGauge(vals[v%3])
				return fmt.Sprintf("g gauge=%#x", math.Float64bits(vals[v%3]))
			}
		}},
		{"timer-40char-3tags", func(r m3.Reporter) (int32, func(int) string) {
			h := r.AllocateTimer(name40+"t", c12Tags(3))
			vals := []time.Duration{math.MinInt64, 0, math.MaxInt64}
			return m3.VerifChargedSize(h), func(v int) string {
				h.ReportTimer(vals[v%3])
				return fmt.Sprintf("%s timer=%d", name40+"t", int64(vals[v%3]))
			}
		}},
		{"value-histogram-buckets-notags", func(r m3.Reporter) (int32, func(int) string) {
			h := r.AllocateHistogram("hv", nil, tally.ValueBuckets{1, 2, 3})
			sizes := m3.VerifBucketChargedSizes(h)
			uppers := []float64{1, 3, math.MaxFloat64}
			var max int32
			for _, s := range sizes {
				if s > max {
					max = s
				}
			}
			return max, func(v int) string {
				h.ValueBucket(0, uppers[v%3]).ReportSamples(math.MaxInt64)
				return fmt.Sprintf("hv count=%d bucket<=%v", int64(math.MaxInt64), uppers[v%3])
			}
		}},
		{"value-histogram-wide-later-bucket", func(r m3.Reporter) (int32, func(int) string) {
			// the label of the second bucket is much longer than the label of the first
			h := r.AllocateHistogram("hw", nil, tally.ValueBuckets{1, 1e12})
			sizes := m3.VerifBucketChargedSizes(h)
			var max int32
			for _, s := range sizes {
				if s > max {
					max = s
				}
			}
			return max, func(v int) string {
				h.ValueBucket(0, 1e12).ReportSamples(math.MaxInt64)
				return fmt.Sprintf("hw count=%d", int64(math.MaxInt64))
			}
		}},
		{"duration-histogram-odd-bounds", func(r m3.Reporter) (int32, func(int) string) {
			// bounds that print longer as a time.Duration ("11.390625ms") than as seconds ("0.011391")
			h := r.AllocateHistogram("ho", nil, tally.MustMakeExponentialDurationBuckets(time.Millisecond, 1.5, 16))
			sizes := m3.VerifBucketChargedSizes(h)
			var max int32
			for _, s := range sizes {
				if s > max {
					max = s
				}
			}
			ups := tally.MustMakeExponentialDurationBuckets(time.Millisecond, 1.5, 16)
			return max, func(v int) string {
				h.DurationBucket(0, ups[6+v%3]).ReportSamples(math.MaxInt64)
				return fmt.Sprintf("ho count=%d", int64(math.MaxInt64))
			}
		}},
		{"duration-histogram-buckets-3tags", func(r m3.Reporter) (int32, func(int) string) {
			h := r.AllocateHistogram("hd", c12Tags(3), tally.DurationBuckets{time.Millisecond, time.Second})
			sizes := m3.VerifBucketChargedSizes(h)
			uppers := []time.Duration{time.Millisecond, time.Second, math.MaxInt64}
			var max int32
			for _, s := range sizes {
				if s > max {
					max = s
				}
			}
			return max, func(v int) string {
				h.DurationBucket(0, uppers[v%3]).ReportSamples(1)
				return fmt.Sprintf("hd count=1 bucket<=%d", int64(uppers[v%3]))
			}
		}},
	}
}

// c12Run drives one composition through a real reporter with the given limit.
// limitSpec: "min+K" = smallest limit at which every single metric fits, plus K; or an absolute number.
func c12Run(kind string, ncommon int, limitSpec string, seq []int, reps int) (string, string, int) {
	shapes := c12Shapes()
	s := newFastSink()
	defer s.close()
	steps := 0
	common := map[string]string{}
	for i := 0; i < ncommon; i++ {
		common[fmt.Sprintf("common%d", i)] = fmt.Sprintf("cv%d", i)
	}
	// kind "binary<compact": a reporter with the Compact protocol is created first, in the same execution (one
	// process), and stays open; the reporter under test uses Binary (reporters must not share what depends on the protocol)
	first := ""
	if i := strings.Index(kind, "<"); i > 0 {
		kind, first = kind[:i], kind[i+1:]
	}
	var other *fastSink
	if first != "" {
		other = newFastSink()
		defer other.close()
	}
	mk := func(limit int32) (m3.Reporter, error) {
		rt.SetNow(math.MaxInt64 - 1e15) // timestamps with the longest encoding
		if first != "" {
			o, err := m3.NewReporter(m3.Options{HostPorts: []string{other.addr}, Service: "other", Env: "test", Protocol: m3Proto(first), MaxQueueSize: 16})
			if err != nil {
				return nil, err
			}
			o.AllocateCounter("warm", map[string]string{"a": "b"}).ReportCount(1)
			// (left open on purpose: its goroutines end with the execution)
		}
		return m3.NewReporter(m3.Options{HostPorts: []string{s.addr}, Service: "svc", Env: "test", CommonTags: common, Protocol: m3Proto(kind), MaxQueueSize: 1024, MaxPacketSizeBytes: limit,
			IncludeHost: ncommon == 5}) // (the middle configuration also asks for the host tag: one more common tag, found by the reporter itself)
	}
	// probe: learn overhead and the largest single metric, so that "each single metric fits on its own" holds
	var overhead, maxSingle int32
	sizesUnknown := false // the accessors could not find the charged sizes in this tree (types reshaped): only absolute limits are run
	used := map[int]bool{}
	for _, k := range seq {
		if k < len(shapes) {
			used[k] = true
		}
	}
	var perr error
	if cl, det := controlledCase(1, func() {
		probe, err := mk(65000)
		if err != nil {
			perr = err
			return
		}
		_, overhead = m3.VerifBudget(probe)
		for _, sz := range m3.VerifInternalChargedSizes(probe) {
			if sz > maxSingle {
				maxSingle = sz
			}
			if sz < 0 {
				sizesUnknown = true
			}
		}
		for k := range used {
			sz, _ := shapes[k].alloc(probe)
			if sz > maxSingle {
				maxSingle = sz
			}
			if sz < 0 {
				sizesUnknown = true
			}
		}
		_ = probe.Close()
	}); cl != "" {
		return cl, det, steps
	}
	if perr != nil {
		return "new-reporter", perr.Error(), steps
	}
	_ = s.drain(0)
	var limit int32
	if strings.HasPrefix(limitSpec, "min+") {
		if sizesUnknown {
			return "", "", steps
		}
		var k int32
		fmt.Sscanf(limitSpec, "min+%d", &k)
		limit = overhead + maxSingle + k
	} else {
		fmt.Sscan(limitSpec, &limit)
		if limit < overhead+maxSingle && !sizesUnknown {
			return "", "", steps // precondition of the property not met
		}
	}
	var want []string
	var rcl, rdet string
	ccl, cdet := controlledCase(1, func() {
		r, err := mk(limit)
		if err != nil {
			rcl, rdet = "new-reporter", fmt.Sprintf("limit %d: %v", limit, err)
			return
		}
		reporters := map[int]func(int) string{}
		for k := range used {
			_, rep := shapes[k].alloc(r)
			reporters[k] = rep
		}
		for i, k := range seq {
			steps++
			if k >= len(shapes) {
				r.Flush()
				continue
			}
			for j := 0; j < reps; j++ {
				want = append(want, reporters[k](i+j))
			}
		}
		if err := r.Close(); err != nil {
			rcl, rdet = "close-error", err.Error()
		}
	})
	if ccl != "" {
		return ccl, cdet, steps
	}
	if rcl != "" {
		return rcl, rdet, steps
	}
	countUser := func(dgs [][]byte) int {
		n := 0
		for _, dg := range dgs {
			if msg, err := decodeMessage(kind, dg); err == nil {
				for _, m := range msg.Batch.Metrics {
					if !strings.HasPrefix(m.Name, "tally.internal") {
						n++
					}
				}
			}
		}
		return n
	}
	dgs := s.drainUntil(func(d [][]byte) bool { return countUser(d) >= len(want) })
	var got []string
	for i, dg := range dgs {
		if int32(len(dg)) > limit {
			if msg, err := decodeMessage(kind, dg); err == nil && len(msg.Batch.Metrics) <= 1 {
				// the datagram holds a single metric: the property's precondition ("each single metric fits on
				// its own") does not hold for this limit, whatever the reporter believed when it accepted it
				continue
			}
			return "datagram-exceeds-max-packet-size", fmt.Sprintf("[%s, %d common tags, MaxPacketSizeBytes=%d (overhead allowance %d, largest single metric %d)] composition %v x%d: datagram %d has %d bytes", kind, c12NCommon(ncommon), limit, overhead, maxSingle, c12Labels(seq), reps, i, len(dg)), steps
		}
		msg, err := decodeMessage(kind, dg)
		if err != nil || msg.Left != 0 {
			return "datagram-does-not-decode", fmt.Sprintf("datagram %d: %v", i, err), steps
		}
		for _, m := range msg.Batch.Metrics {
			if strings.HasPrefix(m.Name, "tally.internal") {
				continue
			}
			var bucket string
			for _, t := range m.Tags {
				if t.Name == "bucket" {
					bucket = t.Value
				}
			}
			switch {
			case m.Name == "hv":
				up := bucket[strings.LastIndex(bucket, "-")+1:]
				u := math.MaxFloat64
				if up != "infinity" {
					fmt.Sscan(up, &u)
				}
				got = append(got, fmt.Sprintf("hv count=%d bucket<=%v", m.Value.Count, u))
			case m.Name == "ho":
				got = append(got, fmt.Sprintf("ho count=%d", m.Value.Count))
			case m.Name == "hw":
				got = append(got, fmt.Sprintf("hw count=%d", m.Value.Count))
			case m.Name == "hd":
				up := bucket[strings.LastIndex(bucket, "-")+1:]
				u := time.Duration(math.MaxInt64)
				if up != "infinity" {
					u, _ = time.ParseDuration(up)
				}
				got = append(got, fmt.Sprintf("hd count=%d bucket<=%d", m.Value.Count, int64(u)))
			case m.Value.MetricType == 1:
				got = append(got, fmt.Sprintf("%s count=%d", m.Name, m.Value.Count))
			case m.Value.MetricType == 2:
				got = append(got, fmt.Sprintf("%s gauge=%#x", m.Name, math.Float64bits(m.Value.Gauge)))
			case m.Value.MetricType == 3:
				got = append(got, fmt.Sprintf("%s timer=%d", m.Name, m.Value.Timer))
			}
		}
	}
	if len(got) != len(want) {
		return "metric-dropped-or-duplicated", fmt.Sprintf("[%s limit %d] composition %v x%d: %d metrics reported, %d arrived in %d datagrams", kind, limit, c12Labels(seq), reps, len(want), len(got), len(dgs)), steps
	}
	for i := range want {
		if got[i] != want[i] {
			return "metric-order-or-content", fmt.Sprintf("[%s limit %d] composition %v: arrival %d is %q, report %d was %q", kind, limit, c12Labels(seq), i, got[i], i, want[i]), steps
		}
	}
	return "", "", steps
}

func c12Labels(seq []int) []string {
	shapes := c12Shapes()
	out := make([]string, len(seq))
	for i, k := range seq {
		if k < len(shapes) {
			out[i] = shapes[k].label
		} else {
			out[i] = "flush"
		}
	}
	return out
}

func c12Jobs(tier string) []*SeqJob {
	nshapes := len(c12Shapes())
	N := tierInt(tier, 2, 3)
	limits := []string{"min+0", "min+1", "min+7", "min+40", "min+100", "min+250", "1440", "32768", "65000"}
	if tier == "thorough" {
		limits = nil
		for k := 0; k <= 300; k += 3 {
			limits = append(limits, fmt.Sprintf("min+%d", k))
		}
		limits = append(limits, "1440", "8192", "32768", "60000", "65000")
	}
	j := &SeqJob{Property: "C12", Name: "compositions-x-limits", Shards: 16, Controlled: true}
	j.Run = func(ctx *SeqCtx) {
		n := 0
		for _, kind := range []string{"compact", "binary", "binary<compact", "compact<binary"} {
			for _, ncommon := range []int{0, 5, 12} {
				if strings.Contains(kind, "<") && ncommon != 5 {
					continue
				}
				for _, lim := range limits {
					enumSeqs(nshapes+1, N, func(seq []int) bool {
						if len(seq) == 0 {
							return true
						}
						if strings.Contains(kind, "<") && len(seq) > 1 && tier != "thorough" {
							return true
						}
						if ncommon > 10 && len(seq) > 1 && tier != "thorough" {
							return true // 14 common tags (more than a pooled tag slice holds): single-letter compositions in the quick tier
						}
						n++
						if !ctx.Mine(n) {
							return true
						}
						if ctx.Expired() {
							return false
						}
						for _, reps := range []int{1, 16} {
							if reps > 1 && strings.HasPrefix(lim, "6") {
								reps = 120 // fill large packets as well
							}
							sq := append([]int{}, seq...)
							steps := 0
							cl, det := guard(func() (string, string) { c, d, s := c12Run(kind, ncommon, lim, sq, reps); steps = s; return c, d })
							ops := []string{kind, fmt.Sprint(ncommon), lim, fmt.Sprint(reps)}
							for _, k := range sq {
								ops = append(ops, fmt.Sprint(k))
							}
							ctx.Case(steps*reps, true, func() string { return fmt.Sprint(ops[:4], c12Labels(sq)) })
							ctx.State(fmt.Sprint(ops))
							if cl != "" {
								ctx.Fail(cl, det, ops)
								if ctx.viol != nil {
									return false
								}
							}
						}
						return true
					})
					if ctx.viol != nil || ctx.st.TimedOut {
						return
					}
				}
			}
		}
		for _, s := range c12Shapes() {
			ctx.Alphabet("shape " + s.label)
		}
		ctx.Alphabet("flush", fmt.Sprintf("limits %v", limits), "compact, binary", "common tags 2, 7 and 14", "each shape reported once or 16/120 times per letter, values at the extremes of their encodings")
		ctx.DepthDone(N)
	}
	j.Replay = func(ops []string) (string, string) {
		var ncommon, reps int
		fmt.Sscan(ops[1], &ncommon)
		fmt.Sscan(ops[3], &reps)
		var seq []int
		for _, o := range ops[4:] {
			var k int
			fmt.Sscan(o, &k)
			seq = append(seq, k)
		}
		return guard(func() (string, string) { c, d, _ := c12Run(ops[0], ncommon, ops[2], seq, reps); return c, d })
	}
	return []*SeqJob{j, c12LemmaJob(tier), c12BucketTagLengthJob(tier), c12DeadDestinationJob("C12", tier)}
}

// c12LemmaJob: per-metric accounting. For every shape of a larger alphabet, k copies of the
// metric (k around the compact list-header threshold and large), sent as ONE batch with the
// largest sequence id, must give a datagram no longer than what the reporter charges:
// envelope allowance + k x charged size. This implies the packet bound for compositions of any length.
func c12LemmaJob(tier string) *SeqJob {
	nameLens := []int{1, 127, 128, 600}
	tagCounts := []int{0, 1, 8, 13, 14, 15, 16}
	tagLens := []int{1, 127, 128}
	// (the last four: the measured metric is allocated AFTER a twin that an allocation-time memo could confuse it with -
	// a gauge with a name of the same length and the same tags; a counter whose tag set has the same "name=value"
	// strings split at another '=' and so the same key in the reporter's tag cache, with longer or shorter parts)
	kinds := []string{"counter", "gauge", "timer", "vbucket-first", "vbucket-wide", "dbucket", "dbucket-odd",
		"counter-after-gauge-twin", "timer-after-gauge-twin", "counter-after-colliding-tags-long-first", "counter-after-colliding-tags-short-first"}
	ks := []int{1, 14, 15, 16, 130}
	run := func(proto string, ncommon int, kind string, nameLen, nTags, tagLen int) (string, string, int) {
		s := newFastSink()
		defer s.close()
		steps := 0
		common := map[string]string{}
		for i := 0; i < ncommon; i++ {
			common[fmt.Sprintf("common%d", i)] = strings.Repeat("v", 20)
		}
		tags := map[string]string{}
		for i := 0; i < nTags; i++ {
			tags[fmt.Sprintf("%02d", i)+strings.Repeat("k", tagLen)] = strings.Repeat("v", tagLen)
		}
		if nTags == 0 {
			tags = nil
		}
		name := strings.Repeat("n", nameLen)
		for _, k := range ks {
			var charged, overhead int32
			var rcl, rdet string
			skipped := false
			k := k
			cl, det := controlledCase(0, func() {
				rt.SetNow(math.MaxInt64 - 1e15) // timestamps with the longest encoding
				r, err := m3.NewReporter(m3.Options{HostPorts: []string{s.addr}, Service: "svc", Env: "test", CommonTags: common, Protocol: m3Proto(proto), MaxQueueSize: 4096, MaxPacketSizeBytes: 65000, IncludeHost: ncommon == 5})
				if err != nil {
					rcl, rdet = "new-reporter", err.Error()
					return
				}
				_, overhead = m3.VerifBudget(r)
				// the sequence id is an int32 that wraps: the largest one for most batch sizes, negative ones as well
				seqID := int32(math.MaxInt32 - 1)
				if k == 14 {
					seqID = -3
				} else if k == 16 {
					seqID = math.MinInt32
				}
				m3.VerifSetSeqID(r, seqID)
				var report func()
				switch kind {
				case "counter":
					h := r.AllocateCounter(name, tags)
					charged = m3.VerifChargedSize(h)
					report = func() { h.ReportCount(math.MinInt64) }
				case "counter-after-gauge-twin", "timer-after-gauge-twin":
					twin := "g" + name[1:]
					_ = r.AllocateGauge(twin, tags) // allocated only: the batch holds copies of the measured metric and nothing else
					if kind == "counter-after-gauge-twin" {
						h := r.AllocateCounter(name, tags)
						charged = m3.VerifChargedSize(h)
						report = func() { h.ReportCount(math.MinInt64) }
					} else {
						h := r.AllocateTimer(name, tags)
						charged = m3.VerifChargedSize(h)
						report = func() { h.ReportTimer(math.MinInt64) }
					}
				case "counter-after-colliding-tags-long-first", "counter-after-colliding-tags-short-first":
					a, b, c := "a", strings.Repeat("b", 100), strings.Repeat("c", 100)
					long := map[string]string{a: b + "=" + c}  // a value of 201 bytes: a two-byte length prefix
					short := map[string]string{a + "=" + b: c} // 102 and 100 bytes: one-byte prefixes
					first, second := long, short
					if kind == "counter-after-colliding-tags-short-first" {
						first, second = short, long
					}
					_ = r.AllocateCounter(name, first)
					h := r.AllocateCounter(name, second)
					charged = m3.VerifChargedSize(h)
					report = func() { h.ReportCount(math.MinInt64) }
				case "gauge":
					h := r.AllocateGauge(name, tags)
					charged = m3.VerifChargedSize(h)
					report = func() { h.ReportGauge(math.NaN()) }
				case "timer":
					h := r.AllocateTimer(name, tags)
					charged = m3.VerifChargedSize(h)
					report = func() { h.ReportTimer(math.MinInt64) }
				case "vbucket-first":
					h := r.AllocateHistogram(name, tags, tally.ValueBuckets{1, 2})
					charged = chargedAt(m3.VerifBucketChargedSizes(h), 0)
					report = func() { h.ValueBucket(0, 1).ReportSamples(math.MinInt64) }
				case "vbucket-wide":
					h := r.AllocateHistogram(name, tags, tally.ValueBuckets{1, 1e15})
					charged = chargedAt(m3.VerifBucketChargedSizes(h), 1)
					report = func() { h.ValueBucket(0, 1e15).ReportSamples(math.MinInt64) }
				case "dbucket-odd":
					ups := tally.MustMakeExponentialDurationBuckets(time.Millisecond, 1.5, 16)
					h := r.AllocateHistogram(name, tags, ups)
					charged = chargedAt(m3.VerifBucketChargedSizes(h), 7)
					report = func() { h.DurationBucket(0, ups[7]).ReportSamples(math.MinInt64) }
				case "dbucket":
					h := r.AllocateHistogram(name, tags, tally.DurationBuckets{time.Millisecond, 1001*time.Hour + time.Millisecond})
					charged = chargedAt(m3.VerifBucketChargedSizes(h), 1)
					report = func() { h.DurationBucket(0, 1001*time.Hour+time.Millisecond).ReportSamples(math.MinInt64) }
				}
				free, _ := m3.VerifBudget(r)
				if charged <= 0 {
					// the charged size could not be read in this tree (handle types reshaped): the lemma cannot be stated
					_ = r.Close()
					skipped = true
					return
				}
				if int64(k)*int64(charged) > int64(free) {
					k = int(free / charged) // as many as the reporter itself puts into one batch
				}
				for i := 0; i < k; i++ {
					report()
					steps++
				}
				if err := r.Close(); err != nil {
					rcl, rdet = "close-error", err.Error()
				}
			})
			if cl != "" {
				return cl, det, steps
			}
			if rcl != "" {
				return rcl, rdet, steps
			}
			if skipped {
				_ = s.readAvailable(nil)
				continue
			}
			if k == 0 {
				continue
			}
			dgs := s.drain(1)
			if len(dgs) != 1 {
				return "lemma-not-one-batch", fmt.Sprintf("%d datagrams for %d copies", len(dgs), k), steps
			}
			if allowed := int(overhead) + k*int(charged); len(dgs[0]) > allowed {
				return "charged-size-below-actual-size", fmt.Sprintf("[%s, %d common tags] %s name %d bytes, %d tags of %d bytes: a batch of %d copies is a %d-byte datagram, the reporter charges %d (envelope allowance) + %d x %d = %d",
					proto, c12NCommon(ncommon), kind, nameLen, nTags, tagLen, k, len(dgs[0]), overhead, k, charged, allowed), steps
			}
		}
		return "", "", steps
	}
	j := &SeqJob{Property: "C12", Name: "accounting-lemma", Shards: 8, Controlled: true}
	j.Run = func(ctx *SeqCtx) {
		n := 0
		for _, proto := range []string{"compact", "binary"} {
			for _, ncommon := range []int{0, 5, 12} {
				for _, kind := range kinds {
					for _, nl := range nameLens {
						for _, nt := range tagCounts {
							for _, tl := range tagLens {
								if tl > 1 && nt > 8 && tier != "thorough" {
									continue
								}
								if ncommon > 10 && (tl > 1 || nl > 127) && tier != "thorough" {
									continue
								}
								n++
								if !ctx.Mine(n) {
									continue
								}
								if ctx.Expired() {
									return
								}
								proto, ncommon, kind, nl, nt, tl := proto, ncommon, kind, nl, nt, tl
								steps := 0
								cl, det := guard(func() (string, string) { c, d, s := run(proto, ncommon, kind, nl, nt, tl); steps = s; return c, d })
								ops := []string{proto, fmt.Sprint(ncommon), kind, fmt.Sprint(nl), fmt.Sprint(nt), fmt.Sprint(tl)}
								ctx.Case(steps, true, func() string { return fmt.Sprint(ops) })
								ctx.State(fmt.Sprint(ops))
								if cl != "" {
									ctx.Fail(cl, det, ops)
									if ctx.viol != nil {
										return
									}
								}
							}
						}
					}
				}
			}
		}
		ctx.Alphabet(fmt.Sprintf("kinds %v", kinds), fmt.Sprintf("name lengths %v", nameLens), fmt.Sprintf("tag counts %v", tagCounts), fmt.Sprintf("tag string lengths %v", tagLens),
			fmt.Sprintf("copies per batch %v", ks), "compact, binary", "common tags 2, 7 and 14", "values at the extremes of their encodings, sequence id MaxInt32")
		ctx.DepthDone(1)
	}
	j.Replay = func(ops []string) (string, string) {
		var nc, nl, nt, tl int
		fmt.Sscan(ops[1], &nc)
		fmt.Sscan(ops[3], &nl)
		fmt.Sscan(ops[4], &nt)
		fmt.Sscan(ops[5], &tl)
		return guard(func() (string, string) { c, d, _ := run(ops[0], nc, ops[2], nl, nt, tl); return c, d })
	}
	return j
}

// c12Scenarios: the size the reporter charges for a metric must not depend on what other
// goroutines allocate at the same time (the size calculator is shared).
func c12Scenarios(tier string) []*Scenario {
	sc := &Scenario{Property: "C12", Name: "K-concurrent-allocation-sizes", Ticks: 0, AllowLeak: true, BoundSet: true, Bound: tierInt(tier, 1, 2), FreeBound: tierInt(tier, 2, 3), Shards: 4}
	sc.Body = func(x *Run) {
		s := newFastSink()
		x.Cleanup = append(x.Cleanup, s.close)
		rt.SetNow(math.MaxInt64 - 1e15) // timestamps with the longest encoding
		r, err := m3.NewReporter(m3.Options{HostPorts: []string{s.addr}, Service: "svc", Env: "test", MaxQueueSize: 8})
		if err != nil {
			x.failf("new-reporter", "%v", err)
			return
		}
		names := []string{strings.Repeat("a", 40), strings.Repeat("b", 300)}
		tags := []map[string]string{{"k": "v"}, c12Tags(6)}
		got := make([]int32, 2)
		// two histograms with the SAME tag map (one cached tag slice) and bucket labels of different lengths
		wide := tally.ValueBuckets{1e15, 1e17}
		var bsizes, bsizes2 []int32
		t1 := rt.GoNamed("alloc1", func() {
			got[0] = m3.VerifChargedSize(r.AllocateCounter(names[0], tags[0]))
			bsizes2 = m3.VerifBucketChargedSizes(r.AllocateHistogram("hw", tags[0], wide))
		})
		t2 := rt.GoNamed("alloc2", func() {
			got[1] = m3.VerifChargedSize(r.AllocateGauge(names[1], tags[1]))
			bsizes = m3.VerifBucketChargedSizes(r.AllocateHistogram("h", tags[0], tally.ValueBuckets{1}))
		})
		t1.Join()
		t2.Join()
		// reference: the same allocations made one after the other
		want := []int32{m3.VerifChargedSize(r.AllocateCounter(names[0], tags[0])), m3.VerifChargedSize(r.AllocateGauge(names[1], tags[1]))}
		wb := m3.VerifBucketChargedSizes(r.AllocateHistogram("h", tags[0], tally.ValueBuckets{1}))
		wb2 := m3.VerifBucketChargedSizes(r.AllocateHistogram("hw", tags[0], wide))
		for i := range want {
			if got[i] != want[i] {
				x.failf("charged-size-depends-on-concurrent-allocation", "metric %d: charged %d bytes when allocated concurrently, %d when allocated alone", i, got[i], want[i])
			}
		}
		for i := range wb {
			if i < len(bsizes) && bsizes[i] != wb[i] {
				x.failf("charged-size-depends-on-concurrent-allocation", "histogram h bucket %d: charged %d bytes when allocated concurrently, %d when allocated alone", i, bsizes[i], wb[i])
			}
		}
		for i := range wb2 {
			if i < len(bsizes2) && bsizes2[i] != wb2[i] {
				x.failf("charged-size-depends-on-concurrent-allocation", "histogram hw bucket %d: charged %d bytes when allocated concurrently, %d when allocated alone", i, bsizes2[i], wb2[i])
			}
		}
		_ = r.Close()
	}
	sc.Check = func(x *Run, o *rt.Outcome) (string, string, string) { return "", "", "ok" }
	// K2: two reporters of one process (same protocol) allocate at the same time: what one charges must not depend
	// on the other (nothing the size measurement uses may be shared between reporters under a per-reporter lock)
	sc2 := &Scenario{Property: "C12", Name: "K2-two-reporters-allocate-concurrently", Ticks: 0, AllowLeak: true, BoundSet: true, Bound: tierInt(tier, 1, 2), FreeBound: tierInt(tier, 1, 2), Shards: 4}
	sc2.Body = func(x *Run) {
		var rs []m3.Reporter
		for i := 0; i < 2; i++ {
			s := newFastSink()
			x.Cleanup = append(x.Cleanup, s.close)
			rt.SetNow(math.MaxInt64 - 1e15) // timestamps with the longest encoding
			r, err := m3.NewReporter(m3.Options{HostPorts: []string{s.addr}, Service: "svc", Env: "test", MaxQueueSize: 8})
			if err != nil {
				x.failf("new-reporter", "%v", err)
				return
			}
			rs = append(rs, r)
			// let the new reporter's goroutines run up to their first wait (otherwise every step of the next
			// constructor is a point at which they could be scheduled, to no effect on the allocations)
			rt.GoNamed("idle", func() {}).Join()
		}
		names := []string{strings.Repeat("a", 40), strings.Repeat("b", 300)}
		tags := []map[string]string{{"k": "v"}, c12Tags(6)}
		got := make([]int32, 2)
		var ths []*rt.Thread
		for i := range rs {
			i := i
			ths = append(ths, rt.GoNamed(fmt.Sprintf("alloc%d", i), func() {
				got[i] = m3.VerifChargedSize(rs[i].AllocateCounter(names[i], tags[i]))
			}))
		}
		for _, t := range ths {
			t.Join()
		}
		for i := range rs {
			if want := m3.VerifChargedSize(rs[i].AllocateCounter(names[i], tags[i])); got[i] != want {
				x.failf("charged-size-depends-on-concurrent-allocation", "reporter %d of two: charged %d bytes while the other reporter was allocating, %d when allocating alone", i, got[i], want)
			}
		}
		// (the reporters are left open: their goroutines end with the execution)
	}
	sc2.Check = func(x *Run, o *rt.Outcome) (string, string, string) { return "", "", "ok" }
	return []*Scenario{sc, sc2}
}

func chargedAt(sizes []int32, i int) int32 {
	if i < len(sizes) {
		return sizes[i]
	}
	return -1
}

// c12BucketTagLengthJob: the accounting lemma for every bucket of a histogram at every length of the bucket tag
// value: HistogramBucketTagPrecision 1..130 makes the values "-infinity-<bound>", "<bound>-<bound>" and
// "<bound>-infinity" run through every length up to ~270 bytes (the compact protocol's string length prefix grows at
// 128 bytes, and the buckets of one histogram straddle that point at different precisions). k copies of a sample
// in bucket i, sent as one batch, must not be longer than the envelope allowance + k x the size charged for bucket i.
func c12BucketTagLengthJob(tier string) *SeqJob {
	maxP := tierInt(tier, 130, 300)
	run := func(proto string, prec, bi, k int) (string, string, int) {
		s := newFastSink()
		defer s.close()
		var charged, overhead int32
		var rcl, rdet string
		skipped := false
		steps := 0
		cl, det := controlledCase(0, func() {
			rt.SetNow(math.MaxInt64 - 1e15) // timestamps with the longest encoding
			r, err := m3.NewReporter(m3.Options{HostPorts: []string{s.addr}, Service: "svc", Env: "test", Protocol: m3Proto(proto), MaxQueueSize: 4096, MaxPacketSizeBytes: 65000,
				HistogramBucketTagPrecision: uint(prec)})
			if err != nil {
				rcl, rdet = "new-reporter", err.Error()
				return
			}
			_, overhead = m3.VerifBudget(r)
			m3.VerifSetSeqID(r, math.MaxInt32-1)
			h := r.AllocateHistogram("h", map[string]string{"t": "v"}, tally.ValueBuckets{1, 2, 3})
			charged = chargedAt(m3.VerifBucketChargedSizes(h), bi)
			bounds := []float64{-math.MaxFloat64, 1, 2, 3, math.MaxFloat64}
			b := h.ValueBucket(bounds[bi], bounds[bi+1])
			free, _ := m3.VerifBudget(r)
			if charged <= 0 {
				_ = r.Close()
				skipped = true
				return
			}
			if int64(k)*int64(charged) > int64(free) {
				k = int(free / charged)
			}
			for i := 0; i < k; i++ {
				b.ReportSamples(math.MinInt64)
				steps++
			}
			if err := r.Close(); err != nil {
				rcl, rdet = "close-error", err.Error()
			}
		})
		if cl != "" {
			return cl, det, steps
		}
		if rcl != "" {
			return rcl, rdet, steps
		}
		if skipped || k == 0 {
			_ = s.readAvailable(nil)
			return "", "", steps
		}
		dgs := s.drain(1)
		if len(dgs) != 1 {
			return "lemma-not-one-batch", fmt.Sprintf("%d datagrams for %d copies", len(dgs), k), steps
		}
		if allowed := int(overhead) + k*int(charged); len(dgs[0]) > allowed {
			return "charged-size-below-actual-size", fmt.Sprintf("[%s, bucket tag precision %d] bucket %d of ValueBuckets{1,2,3}: a batch of %d samples-metrics is a %d-byte datagram, the reporter charges %d (envelope allowance) + %d x %d = %d",
				proto, prec, bi, k, len(dgs[0]), overhead, k, charged, allowed), steps
		}
		return "", "", steps
	}
	j := &SeqJob{Property: "C12", Name: "accounting-lemma-every-bucket-tag-length", Shards: tierInt(tier, 4, 8), Controlled: true, NoBonus: true}
	j.Run = func(ctx *SeqCtx) {
		n := 0
		for _, proto := range []string{"compact", "binary"} {
			for prec := 1; prec <= maxP; prec++ {
				for bi := 0; bi < 4; bi++ {
					for _, k := range []int{1, 16} {
						n++
						if !ctx.Mine(n) {
							continue
						}
						if ctx.Expired() {
							return
						}
						proto, prec, bi, k := proto, prec, bi, k
						steps := 0
						cl, det := guard(func() (string, string) { c, d, s := run(proto, prec, bi, k); steps = s; return c, d })
						ops := []string{proto, fmt.Sprint(prec), fmt.Sprint(bi), fmt.Sprint(k)}
						ctx.Case(steps, true, func() string { return fmt.Sprint(ops) })
						ctx.State(fmt.Sprint(ops))
						if cl != "" {
							ctx.Fail(cl, det, ops)
							if ctx.viol != nil {
								return
							}
						}
					}
				}
			}
		}
		ctx.Alphabet(fmt.Sprintf("HistogramBucketTagPrecision 1..%d", maxP), "each of the four buckets of ValueBuckets{1,2,3}", "1 and 16 copies per batch", "compact, binary")
		ctx.DepthDone(1)
	}
	j.Replay = func(ops []string) (string, string) {
		var prec, bi, k int
		fmt.Sscan(ops[1], &prec)
		fmt.Sscan(ops[2], &bi)
		fmt.Sscan(ops[3], &k)
		return guard(func() (string, string) { c, d, _ := run(ops[0], prec, bi, k); return c, d })
	}
	return j
}

// c12DeadDestinationJob: one of two destinations is a port nobody listens on (every second send to it fails with
// "connection refused", see the C15 job of the same name): whatever the reporter does with a batch whose send
// failed, no datagram that reaches the healthy destination is longer than the limit, and none of the values arrives
// there twice. Dead destination first and last, N metrics for N around one, two and several full packets.
func c12DeadDestinationJob(prop, tier string) *SeqJob {
	const limit = 1440
	run := func(kind string, deadFirst bool, n int, flushEvery int) (string, string, int) {
		good := newFastSink()
		defer good.close()
		dead, derr := net.DialUDP("udp", &net.UDPAddr{IP: net.IPv4(127, 0, 0, 1)}, &net.UDPAddr{IP: net.IPv4(127, 0, 0, 1), Port: 1})
		if derr != nil {
			return "", "", 0
		}
		defer dead.Close()
		addrs := []string{dead.LocalAddr().String(), good.addr}
		if !deadFirst {
			addrs = []string{good.addr, dead.LocalAddr().String()}
		}
		var dgs [][]byte
		var rcl, rdet string
		caseHorizon = 20000000
		defer func() { caseHorizon = 0 }()
		// (under the controlled scheduler: a panic in the reporter's own goroutine is a violation, not a dead worker)
		ccl, cdet := controlledCase(0, func() {
			r, err := m3.NewReporter(m3.Options{HostPorts: addrs, Service: "svc", Env: "test", Protocol: m3Proto(kind), MaxQueueSize: 64, MaxPacketSizeBytes: limit})
			if err != nil {
				rcl, rdet = "new-reporter", err.Error()
				return
			}
			for i := 0; i < n; i++ {
				r.AllocateCounter(fmt.Sprintf("u.metric.%04d", i), map[string]string{"k": "some-value"}).ReportCount(int64(i + 1))
				if flushEvery > 0 && i%flushEvery == flushEvery-1 {
					r.Flush()
				}
				if i%64 == 63 {
					dgs = good.readAvailable(dgs)
				}
			}
			if err := r.Close(); err != nil {
				rcl, rdet = "close-error", err.Error()
			}
		})
		if ccl != "" {
			return ccl, fmt.Sprintf("[%s, dead destination first=%v, %d metrics, flush every %d] %s", kind, deadFirst, n, flushEvery, cdet), n
		}
		if rcl != "" {
			return rcl, rdet, n
		}
		where := fmt.Sprintf("[%s, dead destination %s, %d metrics, flush every %d]", kind, map[bool]string{true: "first", false: "last"}[deadFirst], n, flushEvery)
		seen := map[int64]int{}
		for i, dg := range good.readAvailable(dgs) {
			if len(dg) > limit {
				return "datagram-exceeds-max-packet-size", fmt.Sprintf("%s datagram %d at the healthy destination has %d bytes, limit %d", where, i, len(dg), limit), n
			}
			msg, err := decodeMessage(kind, dg)
			if err != nil {
				return "datagram-does-not-decode", fmt.Sprintf("%s datagram %d: %v", where, i, err), n
			}
			for _, m := range msg.Batch.Metrics {
				if strings.HasPrefix(m.Name, "u.metric.") {
					seen[m.Value.Count]++
					if seen[m.Value.Count] > 1 {
						return "value-arrived-twice", fmt.Sprintf("%s %s arrived %d times at the healthy destination", where, m.Name, seen[m.Value.Count]), n
					}
				}
			}
		}
		return "", "", n
	}
	sizes := []int{1, 20, 40, 41, 80, 200}
	if tier == "thorough" {
		sizes = append(sizes, 400, 1000)
	}
	j := &SeqJob{Property: prop, Name: "packet-limit-with-a-dead-destination", NoBonus: true, Controlled: true}
	j.Run = func(ctx *SeqCtx) {
		for _, kind := range []string{"compact", "binary"} {
			for _, df := range []bool{true, false} {
				for _, n := range sizes {
					for _, fe := range []int{0, 1, 7} {
						if ctx.Expired() {
							return
						}
						kind, df, n, fe := kind, df, n, fe
						steps := 0
						cl, det := guard(func() (string, string) { a, b, s := run(kind, df, n, fe); steps = s; return a, b })
						ops := []string{kind, fmt.Sprint(df), fmt.Sprint(n), fmt.Sprint(fe)}
						ctx.Case(steps, true, func() string { return fmt.Sprint(ops) })
						ctx.State(fmt.Sprint(ops))
						if cl != "" {
							ctx.Fail(cl, det, ops)
							if ctx.viol != nil {
								return
							}
						}
					}
				}
			}
		}
		ctx.Alphabet(fmt.Sprintf("metrics per run %v", sizes), "dead destination first / last", "no explicit flush, a flush after every metric, after every 7th", "compact, binary")
		ctx.DepthDone(1)
	}
	j.Replay = func(ops []string) (string, string) {
		var df bool
		var n, fe int
		fmt.Sscan(ops[1], &df)
		fmt.Sscan(ops[2], &n)
		fmt.Sscan(ops[3], &fe)
		return guard(func() (string, string) { a, b, _ := run(ops[0], df, n, fe); return a, b })
	}
	return j
}

// c12NCommon: the common tags on the wire - the configured ones, service and env, and the host tag in the
// configuration that asks for it.
func c12NCommon(ncommon int) int {
	if ncommon == 5 {
		return ncommon + 3
	}
	return ncommon + 2
}
