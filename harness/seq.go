package main

import (
	"crypto/md5"
	"fmt"
	"runtime/debug"
	"sort"
	"strings"
	"sync/atomic"
	"time"

	rt "github.com/uber-go/tally/v4/verifrt"
)

// SeqStats is the coverage of one seq job.
type SeqStats = Stats

// SeqJob is one explicit-state / exhaustive-enumeration job on the real code.
type SeqJob struct {
	Property string
	Name     string
	Shards   int
	// Controlled: the job runs in the instrumented binary and executes every
	// case under the controlled scheduler with the default (deterministic)
	// schedule, so that goroutine timing inside the code under test cannot
	// vary between a run and its replay.
	Controlled bool
	// NoBonus: no extra depth on the bonus time budget (jobs whose required depth already uses the quick tier's time)
	NoBonus bool
	// Run enumerates; it must honour ctx.Expired() and report through ctx.
	Run func(ctx *SeqCtx)
	// Replay re-executes one recorded case (Violation.Ops) and returns clause/detail.
	Replay func(ops []string) (string, string)
	// Only, when set, says which clauses of the job this property's statement speaks of (a job borrowed from a sibling
	// for part of what it observes); the others are the sibling's business and are not reported here.
	Only func(clause string) bool
}

// SeqCtx collects coverage and the first violation of a seq job.
type SeqCtx struct {
	job       *SeqJob
	shard     int
	nshards   int
	deadline  time.Time
	st        Stats
	viol      *Violation
	seen      map[string]struct{}
	nontriv   int64
	alphabet  []string
	depthDone int
	caseNo    int64
	known     map[string]*Violation
	seenBase  int64        // states counted before the last ResetSeen
	cur       atomic.Value // the case being executed (curCase), for the hang watchdog
	// cases that violated during the search but not on their own (see Fail)
	unreproduced int
	// OpsPrefix is put in front of the operations of a violation (the parameters a job loops over outside bfs),
	// before the case is replayed on its own and recorded.
	OpsPrefix         []string
	firstUnreproduced string
}

// Mine reports whether the i-th top-level case belongs to this shard.
func (c *SeqCtx) Mine(i int) bool { return c.nshards <= 1 || i%c.nshards == c.shard }

// Expired reports whether the time budget is used up (the job then stops and
// the evidence says exhaustive:false).
func (c *SeqCtx) Expired() bool {
	if c.viol != nil {
		return true
	}
	if !c.deadline.IsZero() && time.Now().After(c.deadline) {
		c.st.TimedOut = true
		return true
	}
	return false
}

// Alphabet records the alphabet for the evidence file.
func (c *SeqCtx) Alphabet(a ...string) { c.alphabet = append(c.alphabet, a...) }

// Case counts one executed case (= one trace validated against the
// implementation); steps is its number of real API calls (transitions).
func (c *SeqCtx) Case(steps int, nontrivial bool, sample func() string) {
	c.st.Executions++
	c.st.Transitions += int64(steps)
	if nontrivial {
		c.nontriv++
	}
	if len(c.st.Sample) < 4 && (c.st.Executions == 1 || c.st.Executions%9973 == 0) {
		c.st.Sample = append(c.st.Sample, sample())
	}
}

// State records a canonical state; it returns true when the state is new.
func (c *SeqCtx) State(key string) bool {
	if len(key) > 32 {
		// long keys (whole reference states, histories) are kept as 128-bit digests: a job of 10^8 states then fits
		// into a worker's memory limit; two different keys with one digest have probability ~10^-22 at that size
		d := md5.Sum([]byte(key))
		key = string(d[:])
	}
	if _, ok := c.seen[key]; ok {
		return false
	}
	c.seen[key] = struct{}{}
	return true
}

type curCase struct {
	ops []string
	at  time.Duration // aliveNow() when the case began
}

// The hang watchdogs do not read the wall clock: a machine that stands still for a while (a snapshot of the virtual
// machine being taken, a disk that does not answer, a process that is not given a processor) makes every wall-clock
// limit expire although nothing is blocked. aliveNow() is time during which this process demonstrably ran: a
// goroutine wakes up every 100 ms and credits what has passed since its last wake-up, but never more than 200 ms - a
// stall of minutes adds 200 ms. A case "hangs" when it has not returned after the limit in THAT time.
var aliveNanos int64

func init() {
	go func() {
		last := time.Now()
		for {
			time.Sleep(100 * time.Millisecond)
			now := time.Now()
			d := now.Sub(last)
			if d > 200*time.Millisecond {
				d = 200 * time.Millisecond
			}
			atomic.AddInt64(&aliveNanos, int64(d))
			last = now
		}
	}()
}

func aliveNow() time.Duration { return time.Duration(atomic.LoadInt64(&aliveNanos)) }

// waitAlive waits for done for at most limit of alive time; false means the limit passed and done is still not ready.
func waitAlive(done <-chan struct{}, limit time.Duration) bool {
	start := aliveNow()
	for {
		select {
		case <-done:
			return true
		case <-time.After(250 * time.Millisecond):
		}
		if aliveNow()-start >= limit {
			select {
			case <-done:
				return true
			default:
				return false
			}
		}
	}
}

// Begin / End bracket the execution of one case, so that a case that never returns (a lock left behind, a wait for
// something that cannot happen, in a build without the controlled scheduler) is reported as a violation with its
// history instead of being killed with the worker.
func (c *SeqCtx) Begin(ops []string) {
	if len(c.OpsPrefix) > 0 {
		ops = append(append([]string{}, c.OpsPrefix...), ops...)
	}
	c.cur.Store(curCase{ops: ops, at: aliveNow()})
}

// End marks the current case as finished.
func (c *SeqCtx) End() { c.cur.Store(curCase{}) }

// seqHangLimit: a single case takes milliseconds (the longest - 20000 tag sets on one reporter, 140 refused
// messages - a few seconds).
const seqHangLimit = 60 * time.Second

// seqHangHook writes the result of a job whose current case hangs and ends the worker (set by main).
var seqHangHook func(res *seqResult)

func (c *SeqCtx) watchHangs(start time.Time) {
	for {
		time.Sleep(time.Second)
		cc, _ := c.cur.Load().(curCase)
		if cc.ops == nil || aliveNow()-cc.at < seqHangLimit || seqHangHook == nil {
			continue
		}
		// (once more after a moment: the case may be returning just now)
		time.Sleep(time.Second)
		if again, _ := c.cur.Load().(curCase); again.ops == nil || again.at != cc.at {
			continue
		}
		c.st.WallS = time.Since(start).Seconds()
		res := &seqResult{Scenario: c.job.Name, Confirmed: 1}
		res.Stats = &seqStatsOut{Stats: c.st}
		res.Violation = &Violation{Property: c.job.Property, Scenario: c.job.Name, Clause: "hang",
			Detail: fmt.Sprintf("the case did not return within %v of running time (cases take milliseconds): some call is waiting for good - a lock that was never released, a channel nobody serves", seqHangLimit),
			Ops:    cc.ops, Params: map[string]string{"engine": "seq", "job": c.job.Name}}
		seqHangHook(res)
		return
	}
}

// ResetSeen forgets the states seen so far (a job that runs several independent searches whose keys cannot meet)
// and keeps their number for the statistics.
func (c *SeqCtx) ResetSeen() {
	c.seenBase += int64(len(c.seen))
	c.seen = map[string]struct{}{}
}

// Outcome counts an observed outcome class.
func (c *SeqCtx) Outcome(o string) { c.st.Outcomes[o]++ }

// Fail records the first violation.
func (c *SeqCtx) Fail(clause, detail string, ops []string) {
	if c.viol != nil {
		return
	}
	if c.job.Only != nil && !c.job.Only(clause) {
		return
	}
	if sig := c.job.Property + "/" + c.job.Name + "/" + clause; knownSigs[sig] {
		if c.known == nil {
			c.known = map[string]*Violation{}
		}
		if c.known[sig] == nil {
			c.known[sig] = &Violation{Property: c.job.Property, Scenario: c.job.Name, Clause: clause, Detail: detail, Ops: ops,
				Params: map[string]string{"engine": "seq", "job": c.job.Name}}
		}
		return
	}
	// a case that violates only in the middle of the search and not when it is executed on its own depends on
	// something an earlier case left behind in the process (a package-level pool or cache). It is set aside and the
	// search goes on, so that a case that violates on its own - if there is one - is still found and reported.
	if len(c.OpsPrefix) > 0 {
		ops = append(append([]string{}, c.OpsPrefix...), ops...)
	}
	if c.job.Replay != nil && c.unreproduced < 50 {
		again := false
		for i := 0; i < 3 && !again; i++ {
			cl, _ := c.job.Replay(ops)
			again = cl != ""
		}
		if !again {
			c.unreproduced++
			if c.firstUnreproduced == "" {
				d := detail
				if len(d) > 600 {
					d = d[:600]
				}
				c.firstUnreproduced = fmt.Sprintf("clause %q, case %v: %s", clause, ops, d)
			}
			return
		}
	}
	c.viol = &Violation{Property: c.job.Property, Scenario: c.job.Name, Clause: clause, Detail: detail, Ops: ops,
		Params: map[string]string{"engine": "seq", "job": c.job.Name}}
}

// DepthDone records the largest completely enumerated depth / size class.
func (c *SeqCtx) DepthDone(d int) {
	if d > c.depthDone {
		c.depthDone = d
	}
}

// guard runs f and converts a panic into a clause/detail pair.
func guard(f func() (string, string)) (clause, detail string) {
	defer func() {
		if r := recover(); r != nil {
			msg := fmt.Sprint(r)
			clause = "panic: " + msg
			st := string(debug.Stack())
			if i := strings.Index(st, "panic("); i >= 0 {
				st = st[i:]
			}
			if len(st) > 1500 {
				st = st[:1500]
			}
			detail = msg + "\n" + st
		}
	}()
	return f()
}

type seqStatsOut struct {
	Stats
	DistinctNontrivial int64    `json:"distinct_nontrivial"`
	DepthCompleted     int      `json:"depth_completed"`
	Alphabet           []string `json:"alphabet,omitempty"`
}

type seqResult struct {
	Scenario  string            `json:"scenario"`
	Params    map[string]string `json:"params,omitempty"`
	Stats     *seqStatsOut      `json:"stats"`
	Violation *Violation        `json:"violation,omitempty"`
	Infra     string            `json:"infra,omitempty"`
	Confirmed int               `json:"confirmed"`
	Known     []*Violation      `json:"known_hits,omitempty"`
}

func runSeqJob(job *SeqJob, shard, nshards int, budget time.Duration) *seqResult {
	ctx := &SeqCtx{job: job, shard: shard, nshards: nshards, seen: map[string]struct{}{}}
	ctx.st.Outcomes = map[string]int64{}
	start := time.Now()
	if budget > 0 {
		ctx.deadline = start.Add(budget)
	}
	go ctx.watchHangs(start)
	job.Run(ctx)
	ctx.End()
	ctx.st.States = int64(len(ctx.seen)) + ctx.seenBase
	if ctx.st.States == 0 {
		ctx.st.States = ctx.st.Executions
	}
	ctx.st.Exhaustive = !ctx.st.TimedOut && ctx.viol == nil
	ctx.st.WallS = time.Since(start).Seconds()
	res := &seqResult{Scenario: job.Name, Violation: ctx.viol}
	for _, v := range ctx.known {
		res.Known = append(res.Known, v)
	}
	nt := ctx.nontriv
	if nt > ctx.st.States {
		nt = ctx.st.States
	}
	sort.Strings(ctx.alphabet)
	res.Stats = &seqStatsOut{Stats: ctx.st, DistinctNontrivial: nt, DepthCompleted: ctx.depthDone, Alphabet: ctx.alphabet}
	if ctx.viol == nil && ctx.unreproduced > 0 {
		res.Infra = fmt.Sprintf("NONDETERMINISM: %d case(s) violated during the search but not when executed on their own (first: %s): the outcome depends on state left in the process by earlier cases", ctx.unreproduced, ctx.firstUnreproduced)
	}
	if ctx.viol != nil && job.Replay != nil {
		// confirmation: the recorded case is re-executed without the search. Five identical outcomes are the
		// normal case. Plain (uninstrumented) builds leave Go's map iteration order to the runtime, so a case may
		// show the violation only for some orders, or under another clause: it is then replayed 20 times and
		// reported when it reproduces at least twice; a case that never reproduces is an infrastructure error.
		same, any, n := 0, 0, 0
		for n = 0; n < 5; n++ {
			cl, _ := job.Replay(ctx.viol.Ops)
			if cl == ctx.viol.Clause {
				same++
			}
			if cl != "" {
				any++
			}
		}
		if same < 5 {
			for ; n < 20; n++ {
				if cl, _ := job.Replay(ctx.viol.Ops); cl != "" {
					any++
				}
			}
			if any < 2 {
				res.Infra = fmt.Sprintf("NONDETERMINISM: the violating case (clause %q) reproduced in %d of %d replays", ctx.viol.Clause, any, n)
			} else {
				ctx.viol.Detail += fmt.Sprintf("\n(reproduced in %d of %d replays, %d with the same clause: the outcome depends on Go's map iteration order)", any, n, same)
			}
		}
		res.Confirmed = any
	}
	return res
}

// bfs is the generic explicit-state search: exec runs a whole history on a
// fresh real object next to the reference model and returns a violation
// (clause, detail) or the canonical key of the state reached.
func bfs(ctx *SeqCtx, alphabet []string, depth int, exec func(hist []int) (clause, detail, key string, steps int)) {
	ctx.Alphabet(alphabet...)
	// a panic that escapes a history is an observation about that history (clause "panic: ..."), not the end of the worker
	unguarded := exec
	exec = func(h []int) (cl, det, key string, steps int) {
		cl, det = guard(func() (string, string) {
			var c, d string
			c, d, key, steps = unguarded(h)
			return c, d
		})
		return
	}
	frontier := [][]int{{}}
	names := func(h []int) []string {
		out := make([]string, len(h))
		for i, o := range h {
			out[i] = alphabet[o]
		}
		return out
	}
	bonus := false
	bonusPossible := BonusBudget > 0 && !ctx.job.NoBonus
	var saved time.Time
	defer func() {
		if bonus {
			ctx.deadline = saved
			if ctx.st.TimedOut && ctx.viol == nil {
				ctx.st.TimedOut = false
				ctx.st.BonusTimedOut = true
			}
		}
	}()
	for d := 1; d <= depth; d++ {
		var next [][]int
		for _, h := range frontier {
			for op := range alphabet {
				if d == 1 && !ctx.Mine(op) {
					continue
				}
				if ctx.Expired() {
					return
				}
				nh := append(append(make([]int, 0, len(h)+1), h...), op)
				ctx.Begin(names(nh))
				cl, det, key, steps := exec(nh)
				ctx.End()
				ctx.Case(steps, true, func() string { return strings.Join(names(nh), " ; ") })
				if cl != "" {
					ctx.Fail(cl, det, names(nh))
					if ctx.viol != nil {
						return
					}
					continue // a listed known finding: do not expand this state
				}
				if ctx.State(key) && (d < depth || (d == depth && !bonus && bonusPossible)) {
					next = append(next, nh) // (the last level that is searched is not expanded: no frontier is kept for it)
				}
			}
		}
		ctx.DepthDone(d)
		frontier = next
		if len(frontier) == 0 {
			break
		}
		// bonus: one more level on a separate, short time budget once the required depth is complete; a level
		// that is not finished leaves depth_completed (and the verdict for the required depth) as it is
		if d == depth && !bonus && BonusBudget > 0 && !ctx.job.NoBonus && ctx.viol == nil && !ctx.st.TimedOut {
			bonus = true
			saved = ctx.deadline
			bd := time.Now().Add(BonusBudget)
			if !saved.IsZero() && saved.Before(bd) {
				bd = saved
			}
			ctx.deadline = bd
			ctx.st.BonusBound = d + 1
			depth++
		}
	}
}

func opIndex(alphabet []string, ops []string) []int {
	out := make([]int, 0, len(ops))
	for _, o := range ops {
		found := -1
		for i, a := range alphabet {
			if a == o {
				found = i
			}
		}
		out = append(out, found)
	}
	return out
}

// controlledCase runs f as one execution under the controlled scheduler with
// the default schedule (no exploration) when the binary is instrumented, and
// directly otherwise. It returns a clause/detail for deadlocks and panics.
func controlledCase(ticks int, f func()) (string, string) {
	cl, det, _ := controlledCaseLeaks(ticks, f)
	return cl, det
}

// controlledCaseLeaks additionally returns the threads still alive at the end.
// caseHorizon overrides the step horizon of controlledCase executions (0: the runtime's default); long
// single-schedule runs set it for their duration.
var caseHorizon int

func controlledCaseLeaks(ticks int, f func()) (string, string, []string) {
	if !rt.IsControlled() {
		f()
		return "", "", nil
	}
	o := rt.Run(rt.Config{Ticks: ticks, Horizon: caseHorizon}, f)
	cl, det := outcomeClause(o)
	return cl, det, o.Leaked
}

func outcomeClause(o *rt.Outcome) (string, string) {
	switch {
	case len(o.Panics) > 0:
		return "panic: " + firstLine(o.Panics[0]), o.Panics[0]
	case o.Deadlock:
		return "deadlock", "blocked: " + strings.Join(o.Leaked, ", ")
	case o.Livelock:
		return "livelock", ""
	case o.Horizon:
		return "horizon", "step horizon exceeded"
	}
	return "", ""
}

func firstLine(s string) string {
	if i := strings.Index(s, "\n"); i > 0 {
		s = s[:i]
	}
	if i := strings.Index(s, "): "); i > 0 {
		s = s[i+3:]
	}
	return s
}
