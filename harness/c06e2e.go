package main

import (
	"fmt"
	"strings"

	tally "github.com/uber-go/tally/v4"
	"github.com/uber-go/tally/v4/m3"
)

func allAllowed(vc tally.ValidCharacters, repl rune, s string) (rune, bool) {
	for _, r := range s {
		if !refAllowed(vc, r) && r != repl {
			return r, false
		}
	}
	return 0, true
}

var sharedSanitizeOptions tally.SanitizeOptions

// c06E2EJob: everything handed to a reporter is sanitized, including the
// library's own cardinality metrics.
func c06E2EJob(tier string) *SeqJob {
	alnum := tally.ValidCharacters{Ranges: tally.AlphanumericRange, Characters: tally.UnderscoreCharacters}
	cfgs := []struct {
		name string
		o    tally.SanitizeOptions
	}{
		{"alnum_", tally.SanitizeOptions{NameCharacters: alnum, KeyCharacters: alnum, ValueCharacters: alnum, ReplacementCharacter: '_'}},
		{"m3-default", m3.DefaultSanitizerOpts},
		{"letters-only repl x", tally.SanitizeOptions{
			NameCharacters:  tally.ValidCharacters{Ranges: []tally.SanitizeRange{{'a', 'z'}}},
			KeyCharacters:   tally.ValidCharacters{Ranges: []tally.SanitizeRange{{'a', 'z'}}},
			ValueCharacters: tally.ValidCharacters{Ranges: []tally.SanitizeRange{{'a', 'z'}}}, ReplacementCharacter: 'x'}},
		// three different sets, none contained in another: '-' only in keys, '.' only in values, ':' only in names
		{"disjoint extras", tally.SanitizeOptions{
			NameCharacters:  tally.ValidCharacters{Ranges: []tally.SanitizeRange{{'a', 'z'}}, Characters: []rune{':'}},
			KeyCharacters:   tally.ValidCharacters{Ranges: []tally.SanitizeRange{{'a', 'z'}}, Characters: []rune{'-'}},
			ValueCharacters: tally.ValidCharacters{Ranges: []tally.SanitizeRange{{'a', 'z'}}, Characters: []rune{'.'}}, ReplacementCharacter: 'q'}},
	}
	alpha := []progOp{
		{sub: "s.s"}, {sub: "é!"}, {sub: "ok"},
		{tag: true, tags: map[string]string{"k!": "v?"}},
		{tag: true, tags: map[string]string{"ok": "1.5"}},
		{tag: true, tags: map[string]string{"\xff": "€"}},
		{tag: true, tags: map[string]string{"s.s": "s.s"}},    // one raw string as subscope name, tag key and tag value
		{tag: true, tags: map[string]string{"fine": "clean"}}, // nothing to rewrite: the library must still not keep the caller's map
		{tag: true, tags: map[string]string{"a-b": "c.d"}},    // valid as it is under "disjoint extras" (key with '-', value with '.'): passes unchanged at any depth
	}
	depth := tierInt(tier, 2, 3)
	// every map handed to the library is edited afterwards (dirty strings put in): nothing of that may reach a reporter
	spoil := func(m map[string]string) {
		for k := range m {
			m[k] = "late!edit?"
		}
		m["late key!"] = "late.value?"
	}
	// reporter variants: 0 plain, 1 cached, 2 plain and 3 cached with a reporter that says it neither reports nor tags
	// (what a multi reporter with such a child says of itself) and is handed every call all the same
	run := func(ci int, variant int, seq []int) (string, string, int) {
		c := cfgs[ci]
		cached := variant%2 == 1
		rec := &Recorder{NoPoints: true, NoCaps: variant >= 2}
		rootTags, cardTags := map[string]string{"root key": "root.val"}, map[string]string{"c!": "d?"}
		if cached {
			rootTags, cardTags = map[string]string{"rootkey": "rootval"}, map[string]string{"c": "d"}
		}
		// the application keeps ONE options variable and assigns the configuration of the day to it (a table-driven
		// set-up, a struct field reused across reconfiguration): what counts is its contents at the time of the call
		sharedSanitizeOptions = c.o
		o := tally.ScopeOptions{Prefix: "p!x", Separator: "/", Tags: rootTags, SanitizeOptions: &sharedSanitizeOptions,
			CardinalityMetricsTags: cardTags}
		if cached {
			o.CachedReporter = cachedRec{rec}
		} else {
			o.Reporter = plainRec{rec}
		}
		root, _ := tally.VerifNewRootScope(o, 0, 1)
		spoil(rootTags)
		spoil(cardTags)
		s := tally.Scope(root)
		prev := s
		steps := 1
		for _, k := range seq {
			prev = s
			if alpha[k].tag {
				m := cloneTags(alpha[k].tags)
				s = s.Tagged(m)
				spoil(m)
			} else {
				s = s.SubScope(alpha[k].sub)
			}
			steps++
		}
		// (a handler that looks its metrics up by their raw spelling on every request, not once at start-up)
		for i := 0; i < 3; i++ {
			s.Counter("m-1").Inc(1)
			s.Gauge("g 2").Update(1)
			s.Timer("t:3").Record(1)
			s.Histogram("h€", tally.ValueBuckets{1}).RecordValue(1)
		}
		if len(seq) > 0 && s != prev {
			// the scope is closed and the same derivation is made again from its parent before any report pass: the
			// scope handed out now is a new one, and what it delivers is sanitized like everything else
			closeScope(s)
			k := seq[len(seq)-1]
			if alpha[k].tag {
				m := cloneTags(alpha[k].tags)
				s = prev.Tagged(m)
				spoil(m)
			} else {
				s = prev.SubScope(alpha[k].sub)
			}
			s.Counter("again-1").Inc(1)
			s.Gauge("again 2").Update(1)
			steps += 4
		}
		tally.VerifReportOnce(root)
		steps += 5
		delivered := 0
		validTag := false // the tag that is valid as it is has been applied (later Tagged calls in the alphabet use other keys)
		for _, k := range seq {
			validTag = validTag || (alpha[k].tag && alpha[k].tags["a-b"] != "")
		}
		for i, e := range rec.Log {
			if e.Name == "" && e.Tags == nil {
				continue
			}
			delivered++
			if validTag && c.name == "disjoint extras" && !strings.HasPrefix(e.Name, "tally") && e.Tags["a-b"] != "c.d" {
				return "valid-input-not-passed-unchanged", fmt.Sprintf("[%s] log[%d] %s: the tag a-b=c.d is valid as it is and must arrive unchanged", c.name, i, e.String()), steps
			}
			if r, ok := allAllowed(c.o.NameCharacters, c.o.ReplacementCharacter, e.Name); !ok {
				return "unsanitized-name", fmt.Sprintf("[%s] log[%d] %s: name contains %U", c.name, i, e.String(), r), steps
			}
			for _, k := range sortedTagKeys(e.Tags) {
				v := e.Tags[k]
				if r, ok := allAllowed(c.o.KeyCharacters, c.o.ReplacementCharacter, k); !ok {
					cl := "unsanitized-tag-key"
					return cl, fmt.Sprintf("[%s] log[%d] %s: tag key %q contains %U", c.name, i, e.String(), k, r), steps
				}
				if r, ok := allAllowed(c.o.ValueCharacters, c.o.ReplacementCharacter, v); !ok {
					cl := "unsanitized-tag-value"
					if len(e.Name) > 14 && e.Name[:14] == "tally_internal" || e.Tags["version"] != "" {
						cl = "unsanitized-tag-value-of-cardinality-metric"
					}
					return cl, fmt.Sprintf("[%s] log[%d] %s: tag value %q of key %q contains %U", c.name, i, e.String(), v, k, r), steps
				}
			}
		}
		if delivered < 8 {
			return "too-few-deliveries", fmt.Sprintf("%d", delivered), steps
		}
		return "", "", steps
	}
	j := &SeqJob{Property: "C06", Name: "end-to-end-every-string-sanitized"}
	j.Run = func(ctx *SeqCtx) {
		for _, a := range alpha {
			ctx.Alphabet(a.String())
		}
		for _, c := range cfgs {
			ctx.Alphabet("sanitizer " + c.name)
		}
		enumSeqs(len(alpha), depth, func(seq []int) bool {
			if ctx.Expired() {
				return false
			}
			for ci := range cfgs {
				for variant := 0; variant < 4; variant++ {
					sq := append([]int{}, seq...)
					steps := 0
					cl, det := guard(func() (string, string) { a, b, s := run(ci, variant, sq); steps = s; return a, b })
					ops := []string{fmt.Sprint(ci), fmt.Sprint(variant)}
					for _, k := range sq {
						ops = append(ops, fmt.Sprint(k))
					}
					ctx.Case(steps, true, func() string { return fmt.Sprint(cfgs[ci].name, variant, progOps(alpha, sq)) })
					ctx.State(fmt.Sprint(ops))
					if cl != "" {
						ctx.Fail(cl, det, ops)
						if ctx.viol != nil {
							return false
						}
					}
				}
			}
			return true
		})
		if !ctx.st.TimedOut && ctx.viol == nil {
			ctx.DepthDone(depth)
		}
	}
	j.Replay = func(ops []string) (string, string) {
		var ci int
		var variant int
		fmt.Sscan(ops[0], &ci)
		fmt.Sscan(ops[1], &variant)
		var seq []int
		for _, o := range ops[2:] {
			var k int
			fmt.Sscan(o, &k)
			seq = append(seq, k)
		}
		return guard(func() (string, string) { a, b, _ := run(ci, variant, seq); return a, b })
	}
	return j
}

// c06RolesJob: Name, Key and Value have their own character sets; every call
// history up to a depth over (role, string) pairs on ONE sanitizer is compared
// with the per-role reference (a sanitizer must not remember across roles or calls).
func c06RolesJob(tier string) *SeqJob {
	cfgs := []struct {
		name string
		o    tally.SanitizeOptions
	}{
		{"m3-default", m3.DefaultSanitizerOpts},
		{"name a-z / key 0-9 / value A-Z repl _", tally.SanitizeOptions{
			NameCharacters:  tally.ValidCharacters{Ranges: []tally.SanitizeRange{{'a', 'z'}}},
			KeyCharacters:   tally.ValidCharacters{Ranges: []tally.SanitizeRange{{'0', '9'}}},
			ValueCharacters: tally.ValidCharacters{Ranges: []tally.SanitizeRange{{'A', 'Z'}}}, ReplacementCharacter: '_'}},
	}
	// one Ranges slice with spare capacity shared by the three classes, which differ in their extra characters;
	// the application appends to that slice after the sanitizer has been built
	shared := make([]tally.SanitizeRange, 0, 8)
	shared = append(shared, tally.SanitizeRange{'a', 'z'}, tally.SanitizeRange{'0', '9'})
	cfgs = append(cfgs, struct {
		name string
		o    tally.SanitizeOptions
	}{"shared ranges a-z0-9 (cap 8) / name +.- / key +_ / value +.:", tally.SanitizeOptions{
		NameCharacters:  tally.ValidCharacters{Ranges: shared, Characters: []rune{'.', '-'}},
		KeyCharacters:   tally.ValidCharacters{Ranges: shared, Characters: []rune{'_'}},
		ValueCharacters: tally.ValidCharacters{Ranges: shared, Characters: []rune{'.', ':'}}, ReplacementCharacter: '!'}})
	// the library's exported character sets, as an application uses them: in options, and as a base to append to.
	// The reference for this configuration is written out literally (it must not be read back from library variables).
	stockRef := tally.SanitizeOptions{
		NameCharacters:  tally.ValidCharacters{Ranges: []tally.SanitizeRange{{'a', 'z'}, {'A', 'Z'}, {'0', '9'}}, Characters: []rune{'.', '-', '_'}},
		KeyCharacters:   tally.ValidCharacters{Ranges: []tally.SanitizeRange{{'a', 'z'}, {'A', 'Z'}, {'0', '9'}}, Characters: []rune{'-', '_'}},
		ValueCharacters: tally.ValidCharacters{Ranges: []tally.SanitizeRange{{'a', 'z'}, {'A', 'Z'}, {'0', '9'}}, Characters: []rune{'_'}}, ReplacementCharacter: '!'}
	cfgs = append(cfgs, struct {
		name string
		o    tally.SanitizeOptions
	}{"stock sets: name +UnderscoreDashDot / key +UnderscoreDash / value +Underscore", tally.SanitizeOptions{
		NameCharacters:  tally.ValidCharacters{Ranges: tally.AlphanumericRange, Characters: tally.UnderscoreDashDotCharacters},
		KeyCharacters:   tally.ValidCharacters{Ranges: tally.AlphanumericRange, Characters: tally.UnderscoreDashCharacters},
		ValueCharacters: tally.ValidCharacters{Ranges: tally.AlphanumericRange, Characters: tally.UnderscoreCharacters}, ReplacementCharacter: '!'}})
	stockIdx := len(cfgs) - 1
	// the extra characters of the three classes are prefixes of ONE array {'.', '-', '_', ':'} (an application that
	// writes its character sets as sub-slices of one list): each prefix has spare capacity that belongs to the longer
	// ones. The next configuration (the companion of the last one is the first) has another replacement character.
	// The reference is written out literally, with slices of its own.
	mkPrefixOpts := func() tally.SanitizeOptions {
		allChars := []rune{'.', '-', '_', ':'} // a fresh array for every execution
		return tally.SanitizeOptions{
			NameCharacters:  tally.ValidCharacters{Ranges: tally.AlphanumericRange, Characters: allChars[:3]},
			KeyCharacters:   tally.ValidCharacters{Ranges: tally.AlphanumericRange, Characters: allChars[:2]},
			ValueCharacters: tally.ValidCharacters{Ranges: tally.AlphanumericRange, Characters: allChars[:1]}, ReplacementCharacter: '#'}
	}
	prefixRef := tally.SanitizeOptions{
		NameCharacters:  tally.ValidCharacters{Ranges: []tally.SanitizeRange{{'a', 'z'}, {'A', 'Z'}, {'0', '9'}}, Characters: []rune{'.', '-', '_'}},
		KeyCharacters:   tally.ValidCharacters{Ranges: []tally.SanitizeRange{{'a', 'z'}, {'A', 'Z'}, {'0', '9'}}, Characters: []rune{'.', '-'}},
		ValueCharacters: tally.ValidCharacters{Ranges: []tally.SanitizeRange{{'a', 'z'}, {'A', 'Z'}, {'0', '9'}}, Characters: []rune{'.'}}, ReplacementCharacter: '#'}
	cfgs = append(cfgs, struct {
		name string
		o    tally.SanitizeOptions
	}{"extra characters as prefixes of one array: name .-_ / key .- / value .  repl #", mkPrefixOpts()})
	prefixIdx := len(cfgs) - 1
	refOf := func(ci int) tally.SanitizeOptions {
		if ci == stockIdx {
			return stockRef
		}
		if ci == prefixIdx {
			return prefixRef
		}
		return cfgs[ci].o
	}
	strs := []string{"a.b", "a_b", "aZ9", "é.", "", "a-b:%"}
	roles := []string{"Name", "Key", "Value"}
	// every call goes to one of TWO sanitizers living in the process: the one under test, or a companion built
	// from the next configuration (what one sanitizer has seen must not change what another one answers)
	var alphabet []string
	for _, who := range []string{"", "companion "} {
		for _, r := range roles {
			for _, s := range strs {
				alphabet = append(alphabet, fmt.Sprintf("%s%s %q", who, r, s))
			}
		}
	}
	depth := tierInt(tier, 3, 4)
	exec := func(ci int) func(hist []int) (string, string, string, int) {
		return func(hist []int) (cl, det, key string, steps int) {
			cl, det = guard(func() (string, string) {
				c := cfgs[ci]
				// an application that builds its own set on top of an exported one
				_ = append(tally.UnderscoreCharacters, ':')
				_ = append(tally.UnderscoreDashCharacters, '%')
				cj := (ci + 1) % len(cfgs)
				co := cfgs[cj].o
				if ci == prefixIdx {
					c.o = mkPrefixOpts()
				}
				if cj == prefixIdx {
					co = mkPrefixOpts()
				}
				sans := []tally.Sanitizer{tally.NewSanitizer(c.o), tally.NewSanitizer(co)}
				refs := []tally.SanitizeOptions{refOf(ci), refOf(cj)}
				if cap(c.o.NameCharacters.Ranges) > len(c.o.NameCharacters.Ranges) {
					// the application goes on using its slice: this writes into the spare capacity
					_ = append(c.o.NameCharacters.Ranges, tally.SanitizeRange{'A', 'Z'})
				}
				for _, op := range hist {
					who := op / (len(roles) * len(strs))
					op2 := op % (len(roles) * len(strs))
					role, str := roles[op2/len(strs)], strs[op2%len(strs)]
					san, ro := sans[who], refs[who]
					var got, want string
					switch role {
					case "Name":
						got, want = san.Name(str), refSanitize(ro.NameCharacters, ro.ReplacementCharacter, str)
					case "Key":
						got, want = san.Key(str), refSanitize(ro.KeyCharacters, ro.ReplacementCharacter, str)
					default:
						got, want = san.Value(str), refSanitize(ro.ValueCharacters, ro.ReplacementCharacter, str)
					}
					steps++
					if got != want {
						return "role-result-depends-on-history", fmt.Sprintf("[%s; companion %s] after %v: %s(%q) = %q, want %q", c.name, cfgs[cj].name, histLabels(alphabet, hist), role, str, got, want)
					}
				}
				return "", ""
			})
			key = fmt.Sprint(ci, hist) // a sanitizer may remember: no merging
			return
		}
	}
	j := &SeqJob{Property: "C06", Name: "name-key-value-call-histories", Shards: tierInt(tier, 2, 8)}
	j.Run = func(ctx *SeqCtx) {
		for ci := range cfgs {
			ctx.OpsPrefix = []string{fmt.Sprint(ci)}
			ctx.ResetSeen() // the keys of different configurations cannot meet
			bfs(ctx, alphabet, depth, exec(ci))
			if ctx.viol != nil {
				return
			}
		}
	}
	j.Replay = func(ops []string) (string, string) {
		var ci int
		fmt.Sscan(ops[0], &ci)
		c, d, _, _ := exec(ci)(opIndex(alphabet, ops[1:]))
		return c, d
	}
	return j
}

func sortedTagKeys(m map[string]string) []string {
	ks := make([]string, 0, len(m))
	for k := range m {
		ks = append(ks, k)
	}
	sortStrings(ks)
	return ks
}
