package main

import (
	"bytes"
	"fmt"
	"math"
	"strings"

	customtransport "github.com/uber-go/tally/v4/m3/customtransports"
	m3thrift "github.com/uber-go/tally/v4/m3/thrift/v2"
	"github.com/uber-go/tally/v4/thirdparty/github.com/apache/thrift/lib/go/thrift"
)

func protoFactory(kind string) thrift.TProtocolFactory {
	if kind == "compact" {
		return thrift.NewTCompactProtocolFactory()
	}
	return thrift.NewTBinaryProtocolFactoryDefault()
}

type thriftWriter interface {
	Write(thrift.TProtocol) error
}

// codec is one reusable encoder + one reusable size calculator (as the reporter keeps them).
type codec struct {
	kind  string
	buf   *failBuf
	enc   thrift.TProtocol
	calcT *customtransport.TCalcTransport
	calc  thrift.TProtocol
}

func newCodec(kind string) *codec {
	c := &codec{kind: kind, buf: &failBuf{failAfter: -1}, calcT: &customtransport.TCalcTransport{}}
	c.enc = protoFactory(kind).GetProtocol(c.buf)
	c.calc = protoFactory(kind).GetProtocol(c.calcT)
	return c
}

func (c *codec) encode(w thriftWriter) ([]byte, error) {
	c.buf.b.Reset()
	c.buf.failAfter = -1
	if err := w.Write(c.enc); err != nil {
		return nil, err
	}
	_ = c.enc.Flush()
	return append([]byte{}, c.buf.b.Bytes()...), nil
}

// abandon writes w through the reused encoder into a transport that starts
// refusing writes after a few bytes; the writer gives up at the first error.
func (c *codec) abandon(w thriftWriter, after int) {
	c.buf.b.Reset()
	c.buf.failAfter = after
	_ = w.Write(c.enc)
	c.buf.failAfter = -1
	c.buf.b.Reset()
}

// failBuf is a byte-buffer transport that can be made to refuse writes.
type failBuf struct {
	b         bytes.Buffer
	failAfter int
}

func (f *failBuf) Write(p []byte) (int, error) {
	if f.failAfter >= 0 && f.b.Len()+len(p) > f.failAfter {
		return 0, fmt.Errorf("transport full")
	}
	return f.b.Write(p)
}
func (f *failBuf) Read(p []byte) (int, error) { return f.b.Read(p) }
func (f *failBuf) Close() error               { return nil }
func (f *failBuf) Flush() error               { return nil }
func (f *failBuf) Open() error                { return nil }
func (f *failBuf) IsOpen() bool               { return true }
func (f *failBuf) RemainingBytes() uint64     { return ^uint64(0) }

func (c *codec) size(w thriftWriter) int32 {
	c.calcT.ResetCount()
	_ = w.Write(c.calc)
	return c.calcT.GetCount()
}

func decodeBatch(kind string, b []byte) (*m3thrift.MetricBatch, int, error) {
	buf := thrift.NewTMemoryBuffer()
	buf.Write(b)
	p := protoFactory(kind).GetProtocol(buf)
	var out m3thrift.MetricBatch
	err := out.Read(p)
	return &out, buf.Len(), err
}

func tagsEq(a, b []m3thrift.MetricTag) string {
	if (a == nil) != (b == nil) {
		return fmt.Sprintf("nil-ness differs: %v vs %v", a == nil, b == nil)
	}
	if len(a) != len(b) {
		return fmt.Sprintf("length %d vs %d", len(a), len(b))
	}
	for i := range a {
		if a[i] != b[i] {
			return fmt.Sprintf("tag %d: %q=%q vs %q=%q", i, a[i].Name, a[i].Value, b[i].Name, b[i].Value)
		}
	}
	return ""
}

func batchEq(a, b *m3thrift.MetricBatch) string {
	if len(a.Metrics) != len(b.Metrics) {
		return fmt.Sprintf("metric count %d vs %d", len(a.Metrics), len(b.Metrics))
	}
	if d := tagsEq(a.CommonTags, b.CommonTags); d != "" {
		return "common tags: " + d
	}
	for i := range a.Metrics {
		x, y := a.Metrics[i], b.Metrics[i]
		if x.Name != y.Name || x.Timestamp != y.Timestamp || x.Value.MetricType != y.Value.MetricType || x.Value.Count != y.Value.Count ||
			x.Value.Timer != y.Value.Timer || math.Float64bits(x.Value.Gauge) != math.Float64bits(y.Value.Gauge) {
			return fmt.Sprintf("metric %d: %+v vs %+v", i, x, y)
		}
		if d := tagsEq(x.Tags, y.Tags); d != "" {
			return fmt.Sprintf("metric %d tags: %s", i, d)
		}
	}
	return ""
}

// c16Shape describes a batch; fields are varied one at a time around base shapes.
type c16Shape struct {
	nMetrics, nTags, nCommon int // -1 = nil slice
	nameLen                  int
	tagLen                   int
	strKind                  int // 0 ASCII, 1 leading invalid byte, 2 multi-byte runes (2, 3 and 4 bytes), 3 every byte value incl. NUL and lone continuation bytes
	i64                      int64
	f64                      float64
	mtype                    m3thrift.MetricType
}

func (s c16Shape) String() string {
	return fmt.Sprintf("metrics=%d tags=%d common=%d nameLen=%d tagLen=%d strKind=%v i64=%d f64bits=%#x type=%d", s.nMetrics, s.nTags, s.nCommon, s.nameLen, s.tagLen, s.strKind, s.i64, math.Float64bits(s.f64), int(s.mtype))
}

func mkStr(n int, kind int, salt int) string {
	if n <= 0 {
		return ""
	}
	var b strings.Builder
	switch kind {
	case 2:
		runes := []string{"\u00e9", "\u20ac", "\U0001F600", "z"}
		for i := 0; b.Len() < n; i++ {
			r := runes[(i+salt)%len(runes)]
			if b.Len()+len(r) > n {
				r = "q"
			}
			b.WriteString(r)
		}
		return b.String()
	case 3:
		for i := 0; i < n; i++ {
			b.WriteByte(byte((i*37 + salt*11) % 256))
		}
		return b.String()
	}
	for i := 0; i < n; i++ {
		b.WriteByte(byte('a' + (i+salt)%26))
	}
	s := b.String()
	if kind == 1 {
		s = "\xff" + s[1:]
	}
	return s
}

func mkTags(n, l int, invalid int) []m3thrift.MetricTag {
	if n < 0 {
		return nil
	}
	t := make([]m3thrift.MetricTag, n)
	for i := range t {
		t[i] = m3thrift.MetricTag{Name: mkStr(l, invalid, i), Value: mkStr(l+1, invalid, i+3)}
	}
	return t
}

func (s c16Shape) build() *m3thrift.MetricBatch {
	b := &m3thrift.MetricBatch{CommonTags: mkTags(s.nCommon, s.tagLen, s.strKind)}
	if s.nMetrics >= 0 {
		b.Metrics = make([]m3thrift.Metric, s.nMetrics)
	}
	for i := range b.Metrics {
		m := m3thrift.Metric{Name: mkStr(s.nameLen, s.strKind, i), Timestamp: s.i64 ^ int64(i), Tags: mkTags(s.nTags, s.tagLen, s.strKind)}
		m.Value.MetricType = s.mtype
		switch s.mtype {
		case m3thrift.MetricType_COUNTER:
			m.Value.Count = s.i64
		case m3thrift.MetricType_TIMER:
			m.Value.Timer = s.i64
		case m3thrift.MetricType_GAUGE:
			m.Value.Gauge = s.f64
		default:
			m.Value.Count, m.Value.Timer, m.Value.Gauge = s.i64, -s.i64, s.f64
		}
		b.Metrics[i] = m
	}
	return b
}

func c16Doubles() []float64 {
	return []float64{0, math.Copysign(0, -1), 1, nan1, nan2, math.Inf(1), math.Inf(-1), math.MaxFloat64, -math.MaxFloat64, 5e-324}
}

func c16Check(c *codec, s c16Shape) (string, string) { return c16CheckBatch(c, s.build(), s) }

func c16CheckBatch(c *codec, b *m3thrift.MetricBatch, s fmt.Stringer) (string, string) {
	enc, err := c.encode(b)
	if err != nil {
		return "encode-error", fmt.Sprintf("[%s] %s: %v", c.kind, s, err)
	}
	if sz := c.size(b); int(sz) != len(enc) {
		return "calculator-disagrees-with-encoder", fmt.Sprintf("[%s] %s: calculator says %d bytes, encoder produced %d", c.kind, s, sz, len(enc))
	}
	dec, left, err := decodeBatch(c.kind, enc)
	if err != nil {
		return "decode-error", fmt.Sprintf("[%s] %s: %v", c.kind, s, err)
	}
	if left != 0 {
		return "trailing-bytes", fmt.Sprintf("[%s] %s: %d bytes left after decoding", c.kind, s, left)
	}
	want := *b
	if want.Metrics == nil {
		want.Metrics = []m3thrift.Metric{} // required list: nil is written as an empty list
	}
	if d := batchEq(&want, dec); d != "" {
		return "round-trip-differs", fmt.Sprintf("[%s] %s: %s", c.kind, s, d)
	}
	// a fresh codec must give the same bytes (no state carried over in the reused protocol objects)
	if fresh, _ := newCodec(c.kind).encode(b); !bytes.Equal(fresh, enc) {
		return "reused-protocol-differs-from-fresh", fmt.Sprintf("[%s] %s: %d bytes via the reused protocol, %d via a fresh one", c.kind, s, len(enc), len(fresh))
	}
	return "", ""
}

func c16Jobs(tier string) []*SeqJob {
	counts := []int{-1, 0, 1, 14, 15, 16, 17, 500}
	tagCounts := []int{-1, 0, 1, 14, 15, 16, 17}
	commons := []int{-1, 0, 2, 15}
	types := []m3thrift.MetricType{0, 1, 2, 3}
	maxLen := tierInt(tier, 300, 1100)
	var shapes []c16Shape
	base := c16Shape{nMetrics: 2, nTags: 2, nCommon: 2, nameLen: 5, tagLen: 3, i64: 7, f64: 1.5, mtype: 1}
	// pairwise (metric count, tag count), crossed with common tags and types
	for _, n := range counts {
		for _, t := range tagCounts {
			for _, cm := range commons {
				for _, ty := range types {
					if n == 500 && (t > 1 || cm > 2) {
						continue
					}
					s := base
					s.nMetrics, s.nTags, s.nCommon, s.mtype = n, t, cm, ty
					shapes = append(shapes, s)
				}
			}
		}
	}
	// every string length (names, and tag names/values) one at a time
	for l := 0; l <= maxLen; l++ {
		s := base
		s.nameLen = l
		shapes = append(shapes, s)
		s = base
		s.tagLen = l
		shapes = append(shapes, s)
	}
	for _, l := range []int{1024, 4096, 70000} {
		s := base
		s.nameLen = l
		shapes = append(shapes, s)
	}
	for kind := 1; kind <= 3; kind++ {
		for _, l := range []int{5, 61, 127, 128, 300} {
			s := base
			s.strKind, s.nameLen, s.tagLen = kind, l, l
			shapes = append(shapes, s)
		}
	}
	// a metric whose value struct is entirely zero (kind INVALID, all numbers 0), and zero values of every kind
	for _, ty := range types {
		z := base
		z.mtype, z.i64, z.f64 = ty, 0, 0
		shapes = append(shapes, z)
		z.f64 = math.Copysign(0, -1)
		shapes = append(shapes, z)
	}
	// every int64 length class, for every field that carries one
	for _, v := range varintAlphabet() {
		for _, ty := range types {
			s := base
			s.i64, s.mtype = v, ty
			shapes = append(shapes, s)
		}
	}
	for _, f := range c16Doubles() {
		for _, ty := range []m3thrift.MetricType{0, 2} {
			s := base
			s.f64, s.mtype = f, ty
			shapes = append(shapes, s)
		}
	}
	kinds := []string{"compact", "binary"}
	one := &SeqJob{Property: "C16", Name: "batch-shapes-round-trip-and-size", Shards: 4}
	one.Run = func(ctx *SeqCtx) {
		for _, k := range kinds {
			c := newCodec(k) // ONE reused encoder and calculator for the whole sweep
			for i, s := range shapes {
				if !ctx.Mine(i) {
					continue
				}
				if ctx.Expired() {
					return
				}
				s := s
				cl, det := guard(func() (string, string) { return c16Check(c, s) })
				ctx.Case(3, true, func() string { return k + " " + s.String() })
				ctx.State(k + s.String())
				if cl != "" {
					ctx.Fail(cl, det, []string{k, fmt.Sprint(i)})
					if ctx.viol != nil {
						return
					}
				}
			}
		}
		ctx.Alphabet(fmt.Sprintf("metric counts %v", counts), fmt.Sprintf("tags per metric %v", tagCounts), fmt.Sprintf("common tags %v", commons),
			fmt.Sprintf("every string length 0..%d, 1024, 4096, 70000; strings with an invalid byte, with 2/3/4-byte runes and with every byte value", maxLen), fmt.Sprintf("%d int64 values (one per varint length class and sign)", len(varintAlphabet())),
			fmt.Sprintf("doubles %v", c16Doubles()), "metric types 0..3", "compact, binary")
		if !ctx.st.TimedOut && ctx.viol == nil {
			ctx.DepthDone(1)
		}
	}
	one.Replay = func(ops []string) (string, string) {
		var i int
		fmt.Sscan(ops[1], &i)
		c := newCodec(ops[0])
		return guard(func() (string, string) { return c16Check(c, shapes[i]) })
	}

	// heterogeneous batches: every sequence of per-metric descriptors up to a depth (what one list element
	// leaves behind in an encoder or decoder must not reach the next element)
	type elem struct {
		tags int // -1 nil
		ty   m3thrift.MetricType
	}
	var elems []elem
	for _, t := range []int{-1, 0, 1, 2, 16} {
		for _, ty := range types {
			elems = append(elems, elem{t, ty})
		}
	}
	var halpha []string
	for _, e := range elems {
		halpha = append(halpha, fmt.Sprintf("metric(tags=%d,type=%d)", e.tags, int(e.ty)))
	}
	hdepth := tierInt(tier, 3, 4)
	hbuild := func(hist []int, ncommon int) *m3thrift.MetricBatch {
		b := &m3thrift.MetricBatch{CommonTags: mkTags(ncommon, 3, 0), Metrics: []m3thrift.Metric{}}
		for i, op := range hist {
			e := elems[op]
			m := m3thrift.Metric{Name: mkStr(4+i, 0, i), Timestamp: int64(1000 + i), Tags: mkTags(e.tags, 2+i, 0)}
			for j := range m.Tags {
				m.Tags[j].Name += fmt.Sprint(i) // tags of different metrics differ
			}
			m.Value.MetricType = e.ty
			switch e.ty {
			case m3thrift.MetricType_COUNTER:
				m.Value.Count = int64(i + 1)
			case m3thrift.MetricType_TIMER:
				m.Value.Timer = int64(-i - 1)
			case m3thrift.MetricType_GAUGE:
				m.Value.Gauge = float64(i) + 0.5
			default:
				m.Value.Count, m.Value.Timer, m.Value.Gauge = int64(i+1), int64(-i-1), 0.25
			}
			b.Metrics = append(b.Metrics, m)
		}
		return b
	}
	hexec := func(kind string, ncommon int) func(hist []int) (string, string, string, int) {
		c := newCodec(kind) // one reused codec per configuration
		return func(hist []int) (cl, det, key string, steps int) {
			cl, det = guard(func() (string, string) {
				return c16CheckBatch(c, hbuild(hist, ncommon), stringer(fmt.Sprintf("common=%d %v", ncommon, histLabels(halpha, hist))))
			})
			steps = len(hist) + 2
			key = fmt.Sprint(kind, ncommon, hist)
			return
		}
	}
	hetero := &SeqJob{Property: "C16", Name: "heterogeneous-batches", Shards: 4}
	hetero.Run = func(ctx *SeqCtx) {
		for _, k := range kinds {
			for _, nc := range []int{-1, 1} {
				ctx.OpsPrefix = []string{k, fmt.Sprint(nc)}
				bfs(ctx, halpha, hdepth, hexec(k, nc))
				if ctx.viol != nil {
					return
				}
			}
		}
	}
	hetero.Replay = func(ops []string) (string, string) {
		var nc int
		fmt.Sscan(ops[1], &nc)
		c, d, _, _ := hexec(ops[0], nc)(opIndex(halpha, ops[2:]))
		return c, d
	}

	// reuse: every ordered pair / triple of a few base shapes through ONE codec, with an abandoned write in between
	reuseShapes := []c16Shape{
		{nMetrics: 0, nTags: -1, nCommon: -1, nameLen: 1, tagLen: 1, mtype: 1},
		{nMetrics: 1, nTags: 0, nCommon: 0, nameLen: 3, tagLen: 2, i64: -1, mtype: 3},
		{nMetrics: 15, nTags: 15, nCommon: 2, nameLen: 130, tagLen: 128, i64: math.MaxInt64, mtype: 1},
		{nMetrics: 2, nTags: 1, nCommon: 15, nameLen: 0, tagLen: 0, f64: nan1, mtype: 2},
		{nMetrics: 16, nTags: 14, nCommon: 1, nameLen: 61, tagLen: 62, i64: math.MinInt64, mtype: 0},
	}
	depth := tierInt(tier, 3, 4)
	var ralpha []string
	for i := range reuseShapes {
		ralpha = append(ralpha, fmt.Sprintf("write shape%d", i))
	}
	for i := range reuseShapes {
		ralpha = append(ralpha, fmt.Sprintf("abandon shape%d", i))
	}
	rexec := func(kind string) func(hist []int) (string, string, string, int) {
		return func(hist []int) (cl, det, key string, steps int) {
			cl, det = guard(func() (string, string) {
				c := newCodec(kind)
				for _, op := range hist {
					s := reuseShapes[op%len(reuseShapes)]
					steps++
					if op >= len(reuseShapes) {
						// a writer that gives up in the middle of a structure (as the generated client does on a transport error)
						b := s.build()
						c.abandon(b, 9)
						c.abandon(b, 40)
						continue
					}
					if cl, det := c16Check(c, s); cl != "" {
						return cl, det + " after " + fmt.Sprint(histLabels(ralpha, hist))
					}
				}
				return "", ""
			})
			key = fmt.Sprint(kind, hist)
			return
		}
	}
	longAbandon := func(kind string, n int) (string, string) {
		c := newCodec(kind)
		b := reuseShapes[2].build()
		for i := 0; i < n; i++ {
			c.abandon(b, 9+i%7)
			c.abandon(b, 40+i%11)
		}
		if cl, det := c16Check(c, reuseShapes[1]); cl != "" {
			return cl, fmt.Sprintf("after %d abandoned writes on the same protocol object: %s", n, det)
		}
		return "", ""
	}
	reuse := &SeqJob{Property: "C16", Name: "reused-protocol-sequences"}
	reuse.Run = func(ctx *SeqCtx) {
		for _, k := range kinds {
			ctx.OpsPrefix = []string{k}
			bfs(ctx, ralpha, depth, rexec(k))
			if ctx.viol != nil {
				return
			}
		}
	}
	reuse.Replay = func(ops []string) (string, string) {
		if len(ops) == 3 && ops[1] == "abandoned-writes" {
			var k int
			fmt.Sscan(ops[2], &k)
			return longAbandon(ops[0], k)
		}
		c, d, _, _ := rexec(ops[0])(opIndex(ralpha, ops[1:]))
		return c, d
	}
	inner := reuse.Run
	reuse.Run = func(ctx *SeqCtx) {
		inner(ctx)
		// every number of abandoned writes from 1 to N on one protocol object, then a complete one
		maxK := tierInt(tier, 90, 300)
		for _, k := range kinds {
			for n := 1; n <= maxK && ctx.viol == nil && !ctx.Expired(); n++ {
				k, n := k, n
				cl, det := guard(func() (string, string) { return longAbandon(k, n) })
				ctx.Case(n+1, true, func() string { return fmt.Sprintf("%s: %d abandoned writes, then a complete one", k, n) })
				ctx.State(fmt.Sprint(k, "abandon", n))
				if cl != "" {
					ctx.Fail(cl, det, []string{k, "abandoned-writes", fmt.Sprint(n)})
				}
			}
		}
	}

	// upper bound: the size measured with the reporter's maximal placeholders bounds the size with any value
	ub := &SeqJob{Property: "C16", Name: "placeholder-size-is-an-upper-bound"}
	ubCheck := func(kind string, ty m3thrift.MetricType, nameLen, nTags int, vi int) (string, string) {
		c := newCodec(kind)
		mk := func(i64 int64, f64 float64, ts int64) *m3thrift.Metric {
			m := &m3thrift.Metric{Name: mkStr(nameLen, 0, 0), Timestamp: ts, Tags: mkTags(nTags, 4, 0)}
			if nTags == 0 {
				m.Tags = nil
			}
			m.Value.MetricType = ty
			switch ty {
			case m3thrift.MetricType_COUNTER:
				m.Value.Count = i64
			case m3thrift.MetricType_TIMER:
				m.Value.Timer = i64
			case m3thrift.MetricType_GAUGE:
				m.Value.Gauge = f64
			}
			return m
		}
		maxSize := c.size(mk(math.MaxInt64, math.MaxFloat64, math.MaxInt64))
		vals := varintAlphabet()
		dbl := c16Doubles()
		v, f := vals[vi%len(vals)], dbl[vi%len(dbl)]
		for _, ts := range []int64{0, v, math.MaxInt64, math.MinInt64} {
			enc, err := c.encode(mk(v, f, ts))
			if err != nil {
				return "encode-error", err.Error()
			}
			if len(enc) > int(maxSize) {
				return "placeholder-size-not-an-upper-bound", fmt.Sprintf("[%s] type %d name %d tags %d: size with maximal placeholder values %d, encoded size with value %d/%v timestamp %d is %d", kind, int(ty), nameLen, nTags, maxSize, v, f, ts, len(enc))
			}
		}
		return "", ""
	}
	ub.Run = func(ctx *SeqCtx) {
		n := len(varintAlphabet())
		for _, k := range kinds {
			for _, ty := range []m3thrift.MetricType{1, 2, 3} {
				for _, nl := range []int{1, 127, 128, 600} {
					for _, nt := range []int{0, 1, 8, 15} {
						for vi := 0; vi < n; vi++ {
							k, ty, nl, nt, vi := k, ty, nl, nt, vi
							cl, det := guard(func() (string, string) { return ubCheck(k, ty, nl, nt, vi) })
							ops := []string{k, fmt.Sprint(int(ty)), fmt.Sprint(nl), fmt.Sprint(nt), fmt.Sprint(vi)}
							ctx.Case(5, true, func() string { return fmt.Sprint(ops) })
							ctx.State(fmt.Sprint(ops))
							if cl != "" {
								ctx.Fail(cl, det, ops)
								if ctx.viol != nil {
									return
								}
							}
						}
					}
				}
			}
		}
		ctx.DepthDone(1)
	}
	ub.Replay = func(ops []string) (string, string) {
		var ty, nl, nt, vi int
		fmt.Sscan(ops[1], &ty)
		fmt.Sscan(ops[2], &nl)
		fmt.Sscan(ops[3], &nt)
		fmt.Sscan(ops[4], &vi)
		return guard(func() (string, string) { return ubCheck(ops[0], m3thrift.MetricType(ty), nl, nt, vi) })
	}
	return []*SeqJob{one, hetero, reuse, ub, c16ReadTransportJob(tier)}
}

type stringer string

func (s stringer) String() string { return string(s) }

// c16ReadTransportJob: decoding goes through ONE reused TBufferedReadTransport and protocol object, the way a udp
// listener uses them: Write(packet), then read the batch. Histories of packets: two good batches, a packet in the
// other wire protocol, a truncated packet, a packet with trailing bytes, an empty packet. Every good packet decodes
// to exactly the batch that was encoded, whatever packets - accepted or refused part-way - came before it.
func c16ReadTransportJob(tier string) *SeqJob {
	alphabet := []string{"good A", "good B", "other protocol", "truncated", "trailing bytes", "empty"}
	depth := tierInt(tier, 4, 5)
	shapeA := c16Shape{nMetrics: 2, nTags: 2, nCommon: 2, nameLen: 5, tagLen: 3, i64: 7, f64: 1.5, mtype: 1}
	shapeB := c16Shape{nMetrics: 17, nTags: 1, nCommon: 0, nameLen: 130, tagLen: 1, i64: -9, f64: 2.5, mtype: 2}
	other := map[string]string{"compact": "binary", "binary": "compact"}
	exec := func(kind string) func(hist []int) (string, string, string, int) {
		encA, _ := newCodec(kind).encode(shapeA.build())
		encB, _ := newCodec(kind).encode(shapeB.build())
		encO, _ := newCodec(other[kind]).encode(shapeA.build())
		return func(hist []int) (cl, det, key string, steps int) {
			cl, det = guard(func() (string, string) {
				tr, err := customtransport.NewTBufferedReadTransport(bytes.NewBuffer(nil))
				if err != nil {
					return "new-transport", err.Error()
				}
				p := protoFactory(kind).GetProtocol(tr)
				for i, op := range hist {
					steps++
					var pkt []byte
					var want *m3thrift.MetricBatch
					switch alphabet[op] {
					case "good A":
						pkt, want = append([]byte{}, encA...), shapeA.build()
					case "good B":
						pkt, want = append([]byte{}, encB...), shapeB.build()
					case "other protocol":
						pkt = append([]byte{}, encO...)
					case "truncated":
						pkt = append([]byte{}, encB[:len(encB)/2]...)
					case "trailing bytes":
						pkt = append(append([]byte{}, encA...), 0x7f, 0x7f, 0x7f)
					case "empty":
						pkt = []byte{}
					}
					if n, werr := tr.Write(pkt); werr != nil || n != len(pkt) {
						return "read-transport-write", fmt.Sprintf("[%s] %v: Write of packet %d (%d bytes) returned %d, %v", kind, histLabels(alphabet, hist), i, len(pkt), n, werr)
					}
					var got m3thrift.MetricBatch
					rerr := got.Read(p)
					if want == nil {
						continue // a packet that is not a good batch: whatever the decoder says about it
					}
					if rerr != nil {
						return "good-packet-does-not-decode", fmt.Sprintf("[%s] %v: packet %d (%s): %v", kind, histLabels(alphabet, hist), i, alphabet[op], rerr)
					}
					if d := batchEq(&got, want); d != "" {
						return "round-trip-differs", fmt.Sprintf("[%s] %v: packet %d (%s) decoded through the reused read transport: %s", kind, histLabels(alphabet, hist), i, alphabet[op], d)
					}
				}
				key = fmt.Sprint(kind, hist) // the transport and the protocol may remember: no merging
				return "", ""
			})
			return
		}
	}
	j := &SeqJob{Property: "C16", Name: "decode-histories-through-one-read-transport"}
	j.Run = func(ctx *SeqCtx) {
		for _, kind := range []string{"compact", "binary"} {
			ctx.OpsPrefix = []string{kind}
			ctx.ResetSeen()
			bfs(ctx, alphabet, depth, exec(kind))
			if ctx.viol != nil || ctx.st.TimedOut {
				return
			}
		}
	}
	j.Replay = func(ops []string) (string, string) {
		c, d, _, _ := exec(ops[0])(opIndex(alphabet, ops[1:]))
		return c, d
	}
	return j
}
