package main

import (
	"errors"
	"fmt"

	tally "github.com/uber-go/tally/v4"
	rt "github.com/uber-go/tally/v4/verifrt"
)

var errSentinel = errors.New("sentinel reporter close error")

func isDelivery(k string) bool {
	switch k {
	case "counter", "gauge", "timer", "hvalue", "hduration":
		return true
	}
	return false
}

// closeOracle checks the C08 clauses on the ordered log.
// loser: the marked Close call lost the race against a concurrent Close call; the
// winner may then still be closing the reporter when the marked call returns.
func closeOracle(x *Run, closable, loser bool, want map[string]int64, gaugeID string, gaugeBits uint64) (string, string) {
	log := x.Rec.Log
	m1 := -1
	for i, e := range log {
		if e.Kind == "mark" && e.Note == "close-returned" {
			m1 = i
			break
		}
	}
	if m1 < 0 {
		return "no-close-marker", "Close did not return"
	}
	got := sumCounters(log, 0, m1)
	for id, w := range want {
		if got[id] != w {
			return "not-delivered-before-close-returned", fmt.Sprintf("counter %s: %d delivered before Close returned, %d recorded before Close was called", id, got[id], w)
		}
	}
	for id, g := range got {
		if want[id] != g {
			return "over-delivered", fmt.Sprintf("counter %s: %d delivered, %d recorded", id, g, want[id])
		}
	}
	if gaugeID != "" {
		last := uint64(0)
		seen := false
		for i := 0; i < m1; i++ {
			if log[i].Kind == "gauge" && log[i].ID() == gaugeID {
				last, seen = log[i].F, true
			}
		}
		if !seen || last != gaugeBits {
			return "gauge-not-delivered-before-close-returned", fmt.Sprintf("gauge %s: seen=%v last bits %#x want %#x", gaugeID, seen, last, gaugeBits)
		}
	}
	lastDelivery, lastFlush, closes, closeAt := -1, -1, 0, -1
	for i := 0; i < m1; i++ {
		switch {
		case isDelivery(log[i].Kind):
			lastDelivery = i
		case log[i].Kind == "flush":
			lastFlush = i
		case log[i].Kind == "close":
			closes++
			closeAt = i
		}
	}
	if lastFlush < lastDelivery || lastFlush < 0 {
		return "no-flush-after-last-delivery", fmt.Sprintf("last delivery at log[%d], last flush at log[%d]", lastDelivery, lastFlush)
	}
	for i := m1 + 1; i < len(log); i++ {
		if log[i].Kind == "close" {
			closes++
			if loser {
				closeAt = i
			}
		}
	}
	if closable {
		if closes != 1 {
			return "reporter-close-count", fmt.Sprintf("reporter closed %d times", closes)
		}
		if closeAt < lastFlush {
			return "reporter-closed-before-final-flush", fmt.Sprintf("reporter Close at log[%d], a flush follows at log[%d]", closeAt, lastFlush)
		}
		if x.Vals["err"] != errSentinel {
			return "close-error-not-returned", fmt.Sprintf("Close returned %v", x.Vals["err"])
		}
	} else if x.Vals["err"] != nil {
		return "close-error-invented", fmt.Sprintf("Close returned %v", x.Vals["err"])
	}
	for i := m1 + 1; i < len(log); i++ {
		if isDelivery(log[i].Kind) || log[i].Kind == "flush" || (log[i].Kind == "close" && !loser) {
			return "activity-after-close-returned", fmt.Sprintf("log[%d] %s happens after Close returned (marker at log[%d])", i, log[i].String(), m1)
		}
	}
	if e, ok := x.Vals["err2"]; ok && e != nil {
		return "second-close-error", fmt.Sprintf("second Close returned %v", e)
	}
	if v, ok := x.Vals["noop"]; ok && v != true {
		return "scope-after-close-not-inert", "a scope obtained after Close is not the inert scope"
	}
	return "", ""
}

func c08Scenarios(tier string) []*Scenario {
	var out []*Scenario
	type variant struct {
		cached, closable bool
		interval         int64
		twoClosers       bool
		deriver          bool // a goroutine derives scopes from an open subscope while Close runs (2 registry shards)
		shards           uint // registry shards (0: one); the root is visited once per shard by a pass
		otherRoot        bool // an unrelated root scope of the same process runs a report pass meanwhile
		reacquire        bool // a closed subscope that still holds a value is requested again while Close runs (its report is part of the barrier)
		reacquireEarly   bool // ... is requested again and recorded on while a periodic pass may be dropping the closed one; Close comes after
	}
	vs := []variant{{cached: true, closable: true, interval: 1e9}, {interval: 1e9}, {cached: true, closable: true, interval: 1e9, twoClosers: true},
		{interval: 0, deriver: true}, {cached: true, interval: 1e9, shards: 3}, {interval: 0, otherRoot: true},
		{cached: true, closable: true, interval: 1e9, reacquire: true}, {interval: 0, reacquire: true},
		{cached: true, closable: true, interval: 1e9, reacquireEarly: true}, {interval: 1e9, reacquireEarly: true}}
	if tier == "thorough" {
		vs = append(vs, variant{cached: true, interval: 1e9}, variant{closable: true, interval: 1e9}, variant{cached: true, closable: true}, variant{},
			variant{twoClosers: true}, variant{closable: true, interval: 1e9, twoClosers: true}, variant{cached: true, interval: 1e9, deriver: true},
			variant{closable: true, interval: 1e9, shards: 2}, variant{cached: true, closable: true, interval: 1e9, twoClosers: true, shards: 2})
	}
	for _, v := range vs {
		v := v
		name := fmt.Sprintf("Z-close-vs-ticker-%s-closable=%v-interval=%d", b2s(v.cached), v.closable, v.interval)
		if v.twoClosers {
			name += "-two-closers"
		}
		if v.deriver {
			name += "-deriver"
		}
		if v.shards > 1 {
			name += fmt.Sprintf("-shards=%d", v.shards)
		}
		if v.otherRoot {
			name += "-other-root-reporting"
		}
		if v.reacquire {
			name += "-closed-subscope-requested-again"
		}
		if v.reacquireEarly {
			name += "-closed-subscope-requested-again-and-used-before-close"
		}
		out = append(out, &Scenario{
			Property: "C08", Name: name, Ticks: tierInt(tier, 1, 2),
			Body: func(x *Run) {
				rec := &Recorder{CloseErr: errSentinel}
				x.Rec = rec
				shards := uint(1)
				if v.deriver {
					shards = 2
				}
				if v.shards > 1 {
					shards = v.shards
				}
				root, closer := tally.VerifNewRootScope(scopeOpts(rec, v.cached, v.closable), timeDur(v.interval), shards)
				s1 := root.Tagged(map[string]string{"a": "1"})
				s2 := root.SubScope("x")
				c0, c1, c2, g := root.Counter("c"), s1.Counter("c"), s2.Counter("c"), s1.Gauge("g")
				w := rt.GoNamed("rec", func() {
					g.Update(5) // a periodic pass may be delivering this value while the next update and Close happen
					c0.Inc(1)
					c1.Inc(2)
					c2.Inc(4)
					g.Update(7)
				})
				w.Join()
				var other *rt.Thread
				var errB error
				if v.twoClosers {
					other = rt.GoNamed("closer2", func() {
						errB = closer.Close()
						rec.Mark("closeB-returned")
					})
				}
				var oth *rt.Thread
				if v.otherRoot {
					// (whatever the two roots share - package-level pools, caches - must not let one disturb the other)
					rec2 := &Recorder{}
					root2, _ := tally.VerifNewRootScope(scopeOpts(rec2, v.cached, false), 0, 1)
					root2.Tagged(map[string]string{"o": "1"}).Counter("oc").Inc(5)
					root2.SubScope("oy").Counter("oc").Inc(6)
					root2.Counter("oc").Inc(7)
					oth = rt.GoNamed("other-root-pass", func() { tally.VerifReportOnce(root2) })
				}
				var rth *rt.Thread
				if v.reacquire {
					s3 := root.Tagged(map[string]string{"r": "1"})
					s3.Counter("c").Inc(16)
					closeScope(s3)
					rth = rt.GoNamed("reacquirer", func() {
						again := root.Tagged(map[string]string{"r": "1"})
						again.Counter("late").Inc(0) // (zero: nothing to deliver, whether or not the scope is inert)
					})
				}
				if v.reacquireEarly {
					// the replacement of a closed subscope is a live scope like any other: what is recorded on it before
					// Close is called is delivered, whatever a periodic pass was doing to the closed one meanwhile
					s3 := root.Tagged(map[string]string{"r": "1"})
					s3.Counter("c").Inc(16)
					closeScope(s3)
					rt.GoNamed("reacquirer", func() {
						again := root.Tagged(map[string]string{"r": "1"})
						again.Counter("c").Inc(32)
					}).Join()
				}
				var derived []tally.Scope
				var dth *rt.Thread
				if v.deriver {
					dth = rt.GoNamed("deriver", func() {
						for _, n := range []string{"e0", "e1", "e2"} {
							derived = append(derived, s1.SubScope(n))
						}
					})
				}
				x.Vals["err"] = closer.Close()
				rec.Mark("close-returned")
				if dth != nil {
					dth.Join()
					// whatever was derived while Close ran: scopes obtained from it now, after Close
					// has returned, must be inert and nothing recorded on them may reach the reporter
					for _, e := range derived {
						// (inertness is judged by what reaches the reporter: a child of the inert
						// scope is a different object than the inert scope itself)
						z := e.SubScope("z")
						z.Timer("t").Record(1)
					}
				}
				if rth != nil {
					rth.Join()
				}
				if other != nil {
					other.Join()
					x.Vals["errB"] = errB
				}
				if oth != nil {
					oth.Join()
				}
				x.Vals["err2"] = closer.Close()
				t := root.Tagged(map[string]string{"z": "1"})
				inert := tally.VerifIsNoop(t)
				// derivations that add nothing to the identity of the (closed) scope they start from are inert too
				for _, e := range []tally.Scope{root.Tagged(nil), root.Tagged(map[string]string{}), root.SubScope(""), s1.Tagged(nil), s2.Tagged(map[string]string{}), s2.SubScope("")} {
					inert = inert && tally.VerifIsNoop(e)
					e.Timer("late").Record(1)
					e.Counter("late").Inc(1)
				}
				x.Vals["noop"] = inert
				c1.Inc(8)
				g.Update(9)
				t.Counter("q").Inc(1)
				s1.Counter("new").Inc(1)
			},
			Check: func(x *Run, o *rt.Outcome) (string, string, string) {
				want := map[string]int64{"c{}": 1, `c{"a":"1"}`: 2, "x.c{}": 4}
				if v.reacquire {
					want[`c{"r":"1"}`] = 16
				}
				if v.reacquireEarly {
					want[`c{"r":"1"}`] = 48
				}
				loser := false
				if v.twoClosers {
					// whichever Close call performs the shutdown, both must be barriers
					log := x.Rec.Log
					for i, e := range log {
						if e.Kind == "mark" && e.Note == "closeB-returned" {
							got := sumCounters(log, 0, i)
							for id, w := range want {
								if got[id] != w {
									return "concurrent-second-close-returns-early", fmt.Sprintf("a concurrent Close call returned at log[%d] before everything was delivered: counter %s %d of %d", i, id, got[id], w), "viol"
								}
							}
						}
					}
					// the reporter's error is returned to the caller that performed the shutdown
					if x.Vals["err"] == nil && x.Vals["errB"] == errSentinel {
						x.Vals["err"] = errSentinel
						loser = true
					}
				}
				cl, d := closeOracle(x, v.closable, loser, want, `g{"a":"1"}`, 0x401c000000000000)
				if cl != "" {
					return cl, d, "viol"
				}
				return "", "", deliveredOutcome(x.Rec.Log)
			},
		})
	}
	// Z2: a subscope that is alone (next to the root, which is in every shard) in a later shard of the registry; a
	// periodic pass may be anywhere in that shard - between the subscope and the root - when more is recorded on the
	// subscope and Close is called. Both map iteration orders of a two-entry shard are explored (thorough tier).
	for _, cached := range []bool{true, false} {
		cached := cached
		if !cached && tier != "thorough" {
			continue
		}
		sc := &Scenario{Property: "C08", Name: "Z2-close-vs-ticker-subscope-alone-in-a-later-shard-" + b2s(cached), Ticks: 1}
		sc.Body = func(x *Run) {
			rec := &Recorder{CloseErr: errSentinel}
			x.Rec = rec
			root, closer := tally.VerifNewRootScope(scopeOpts(rec, cached, true), timeDur(1e9), 4)
			var loner tally.Scope
			lonerTag := ""
			used := map[int]bool{}
			for k := 0; k < 64 && loner == nil; k++ {
				cand := root.Tagged(map[string]string{"l": fmt.Sprint(k)})
				sh := tally.VerifShardOf(cand)
				if sh < 0 {
					break // the registry has another shape in this tree: the scenario runs with any subscope
				}
				if sh > 0 && !used[sh] {
					loner, lonerTag = cand, fmt.Sprint(k)
				}
				used[sh] = true
			}
			if loner == nil {
				loner, lonerTag = root.Tagged(map[string]string{"l": "x"}), "x"
			}
			x.Vals["loner"] = lonerTag
			c, c0 := loner.Counter("c"), root.Counter("c")
			w := rt.GoNamed("rec", func() {
				c.Inc(1)
				c0.Inc(2)
				c.Inc(4)
			})
			w.Join()
			x.Vals["err"] = closer.Close()
			rec.Mark("close-returned")
			x.Vals["err2"] = closer.Close()
		}
		sc.Check = func(x *Run, o *rt.Outcome) (string, string, string) {
			want := map[string]int64{"c{}": 2, "c" + tagString(map[string]string{"l": x.Vals["loner"].(string)}): 5}
			if cl, d := closeOracle(x, true, false, want, "", 0); cl != "" {
				return cl, d, "viol"
			}
			return "", "", deliveredOutcome(x.Rec.Log)
		}
		out = append(out, sc)
	}
	return out
}
