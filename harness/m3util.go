package main

import (
	"fmt"
	"math"
	"net"
	"sort"
	"strings"
	"sync"
	"syscall"
	"time"

	m3thrift "github.com/uber-go/tally/v4/m3/thrift/v2"
	"github.com/uber-go/tally/v4/thirdparty/github.com/apache/thrift/lib/go/thrift"
)

// sink is a loopback UDP receiver owned by the harness. A background reader
// drains the socket continuously so that the kernel queue never overflows.
type sink struct {
	conn *net.UDPConn
	addr string
	mu   sync.Mutex
	got  [][]byte
	done chan struct{}
}

func newSink() *sink {
	c, err := net.ListenUDP("udp", &net.UDPAddr{IP: net.IPv4(127, 0, 0, 1)})
	if err != nil {
		panic(err)
	}
	_ = c.SetReadBuffer(4 << 20)
	s := &sink{conn: c, addr: c.LocalAddr().String(), done: make(chan struct{})}
	go func() {
		defer close(s.done)
		buf := make([]byte, 70000)
		for {
			n, _, err := c.ReadFromUDP(buf)
			if err != nil {
				return
			}
			s.mu.Lock()
			s.got = append(s.got, append([]byte{}, buf[:n]...))
			s.mu.Unlock()
		}
	}()
	return s
}

func (s *sink) count() int {
	s.mu.Lock()
	defer s.mu.Unlock()
	return len(s.got)
}

// wait blocks until at least n datagrams have arrived (or the generous
// timeout expires - only reached when something is really missing), then
// gives stragglers a short grace period and returns everything received.
func (s *sink) wait(n int) [][]byte {
	deadline := time.Now().Add(2 * time.Second)
	for s.count() < n && time.Now().Before(deadline) {
		time.Sleep(200 * time.Microsecond)
	}
	// loopback delivery happens inside the sender's send call; this grace
	// period only has to cover the reader goroutine being scheduled
	last := s.count()
	for i := 0; i < 3; i++ {
		time.Sleep(300 * time.Microsecond)
		if c := s.count(); c != last {
			last, i = c, -1
		}
	}
	s.mu.Lock()
	defer s.mu.Unlock()
	out := s.got
	s.got = nil
	return out
}

func (s *sink) close() {
	_ = s.conn.Close()
	<-s.done
}

// fastSink is a loopback UDP receiver without a reader goroutine: loopback
// delivery happens inside the sender's send call, so after an execution has
// ended everything it sent is already queued on the socket and can be read
// without waiting. When fewer datagrams than expected are found it polls for
// up to two seconds before giving up (never reached unless one is really missing).
type fastSink struct {
	conn *net.UDPConn
	raw  syscall.RawConn
	addr string
	buf  []byte
}

func newFastSink() *fastSink {
	c, err := net.ListenUDP("udp", &net.UDPAddr{IP: net.IPv4(127, 0, 0, 1)})
	if err != nil {
		panic(err)
	}
	_ = c.SetReadBuffer(4 << 20)
	raw, err := c.SyscallConn()
	if err != nil {
		panic(err)
	}
	return &fastSink{conn: c, raw: raw, addr: c.LocalAddr().String(), buf: make([]byte, 70000)}
}

func (s *fastSink) readAvailable(out [][]byte) [][]byte {
	for {
		n, ok := -1, false
		_ = s.raw.Read(func(fd uintptr) bool {
			m, _, err := syscall.Recvfrom(int(fd), s.buf, syscall.MSG_DONTWAIT)
			if err == nil {
				n, ok = m, true
			}
			return true
		})
		if !ok {
			return out
		}
		out = append(out, append([]byte{}, s.buf[:n]...))
	}
}

func (s *fastSink) drain(expect int) [][]byte {
	out := s.readAvailable(nil)
	start := aliveNow() // (two seconds of running time, not of wall clock: see aliveNow)
	for len(out) < expect && aliveNow()-start < 2*time.Second {
		time.Sleep(100 * time.Microsecond)
		out = s.readAvailable(out)
	}
	return out
}

// drainUntil reads until done(datagrams so far) holds or two seconds have passed.
func (s *fastSink) drainUntil(done func([][]byte) bool, have ...[]byte) [][]byte {
	out := s.readAvailable(append([][]byte{}, have...))
	start := aliveNow()
	for !done(out) && aliveNow()-start < 2*time.Second {
		time.Sleep(100 * time.Microsecond)
		out = s.readAvailable(out)
	}
	return out
}

func (s *fastSink) close() { _ = s.conn.Close() }

// m3Message is one decoded emitMetricBatchV2 datagram.
type m3Message struct {
	Name  string
	Type  thrift.TMessageType
	Seq   int32
	Batch m3thrift.MetricBatch
	Left  int
}

func decodeMessage(kind string, b []byte) (*m3Message, error) {
	buf := thrift.NewTMemoryBuffer()
	buf.Write(b)
	p := protoFactory(kind).GetProtocol(buf)
	name, typ, seq, err := p.ReadMessageBegin()
	if err != nil {
		return nil, fmt.Errorf("message begin: %v", err)
	}
	var args m3thrift.M3EmitMetricBatchV2Args
	if err := args.Read(p); err != nil {
		return nil, fmt.Errorf("args: %v", err)
	}
	if err := p.ReadMessageEnd(); err != nil {
		return nil, fmt.Errorf("message end: %v", err)
	}
	return &m3Message{Name: name, Type: typ, Seq: seq, Batch: args.Batch, Left: buf.Len()}, nil
}

// metricKey renders one decoded metric canonically (tags sorted) for multiset comparison.
func metricKey(m m3thrift.Metric, withTS bool) string {
	tags := make([]string, 0, len(m.Tags))
	for _, t := range m.Tags {
		tags = append(tags, fmt.Sprintf("%q=%q", t.Name, t.Value))
	}
	sort.Strings(tags)
	ts := ""
	if withTS {
		ts = fmt.Sprint(" ts=", m.Timestamp)
	}
	return fmt.Sprintf("%q type=%d count=%d gauge=%#x timer=%d tags=%v%s", m.Name, int(m.Value.MetricType), m.Value.Count, math.Float64bits(m.Value.Gauge), m.Value.Timer, tags, ts)
}

// userMetrics counts the decoded metrics in the datagrams that are not the reporter's own internal ones.
func userMetrics(kind string, dgs [][]byte) int {
	n := 0
	for _, dg := range dgs {
		if msg, err := decodeMessage(kind, dg); err == nil {
			for _, m := range msg.Batch.Metrics {
				if len(m.Name) < 14 || m.Name[:14] != "tally.internal" {
					n++
				}
			}
		}
	}
	return n
}

// closeBarrier is evaluated by the goroutine that called Close on an M3 reporter, immediately after Close
// returned: everything queued must already have been handed to the socket (loopback delivery happens inside
// the sender's send call, so it is readable now), and none of the reporter's goroutines may have work left.
func closeBarrier(kind string, sinks []*fastSink, nwant int) (pre [][][]byte, clause, detail string) {
	for _, s := range sinks {
		pre = append(pre, s.readAvailable(nil))
	}
	var live []string
	for _, t := range rtLiveLibraryThreads() {
		if id := t[:strings.Index(t, "@")]; !barrierIgnore[id] {
			live = append(live, t)
		}
	}
	if len(live) > 0 {
		return pre, "reporter-goroutine-still-running-when-close-returned", fmt.Sprintf("threads started by the reporter that had not finished when Close returned: %v", live)
	}
	for d, dgs := range pre {
		if n := userMetrics(kind, dgs); n < nwant {
			return pre, "close-returned-before-everything-was-emitted", fmt.Sprintf("destination %d had received %d of the %d reported values at the moment Close returned", d, n, nwant)
		}
	}
	return pre, "", ""
}

// barrierIgnore: ids of library threads that belong to another, still open reporter of the same execution.
var barrierIgnore = map[string]bool{}

// ignoreLiveLibraryThreads marks the library threads alive now as not belonging to the reporter under test.
func ignoreLiveLibraryThreads() {
	barrierIgnore = map[string]bool{}
	for _, t := range rtLiveLibraryThreads() {
		barrierIgnore[t[:strings.Index(t, "@")]] = true
	}
}
