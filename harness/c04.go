package main

import (
	"fmt"
	"sort"
	"strings"
	"time"

	tally "github.com/uber-go/tally/v4"
)

// progOp is one step of a derivation program.
type progOp struct {
	sub  string            // SubScope(sub) when !tag
	tag  bool              // Tagged(tags)
	tags map[string]string // may be nil
}

func (o progOp) String() string {
	if o.tag {
		return "Tagged(" + tagString(o.tags) + ")"
	}
	return fmt.Sprintf("SubScope(%q)", o.sub)
}

// rootCfg is a root configuration.
type rootCfg struct {
	prefix, sep string
	tags        map[string]string
	san         *tally.SanitizeOptions
	sanName     string
}

func (c rootCfg) String() string {
	return fmt.Sprintf("root{prefix=%q sep=%q tags=%s sanitizer=%s}", c.prefix, c.sep, tagString(c.tags), c.sanName)
}

// refIdentity is the reference model of a derivation: list of names + overlay of tags.
func refIdentity(c rootCfg, prog []progOp) (prefix string, tags map[string]string) {
	name := func(s string) string { return s }
	key, val := name, name
	if c.san != nil {
		name = func(s string) string { return refSanitize(c.san.NameCharacters, c.san.ReplacementCharacter, s) }
		key = func(s string) string { return refSanitize(c.san.KeyCharacters, c.san.ReplacementCharacter, s) }
		val = func(s string) string { return refSanitize(c.san.ValueCharacters, c.san.ReplacementCharacter, s) }
	}
	sep := c.sep
	if sep == "" {
		sep = "."
	}
	sep = name(sep)
	var parts []string
	if p := name(c.prefix); p != "" {
		parts = append(parts, p)
	}
	tags = map[string]string{}
	for k, v := range c.tags {
		tags[key(k)] = val(v)
	}
	for _, op := range prog {
		if op.tag {
			for k, v := range op.tags {
				tags[key(k)] = val(v)
			}
		} else {
			parts = append(parts, name(op.sub))
		}
	}
	return strings.Join(parts, sep), tags
}

// refAmbiguous reports whether the program applies an empty subscope name while the prefix accumulated so
// far is empty. The statement does not say whether such a component contributes a separator ("names joined
// by the separator" says yes, "an empty root prefix contributes no leading separator" suggests no), so such
// programs are executed but their names are not judged. Below a non-empty prefix an empty name is an
// ordinary component: "p" + "" + "m" is "p..m".
func refAmbiguous(c rootCfg, prog []progOp) bool {
	name := func(s string) string { return s }
	if c.san != nil {
		name = func(s string) string { return refSanitize(c.san.NameCharacters, c.san.ReplacementCharacter, s) }
	}
	empty := name(c.prefix) == ""
	for _, op := range prog {
		if op.tag {
			continue
		}
		if n := name(op.sub); n == "" && empty {
			return true
		} else if n != "" {
			empty = false
		}
	}
	return false
}

func refFullName(c rootCfg, prefix, metric string) string {
	sep := c.sep
	if sep == "" {
		sep = "."
	}
	if c.san != nil {
		sep = refSanitize(c.san.NameCharacters, c.san.ReplacementCharacter, sep)
		metric = refSanitize(c.san.NameCharacters, c.san.ReplacementCharacter, metric)
	}
	if prefix == "" {
		return metric
	}
	return prefix + sep + metric
}

func tagsEqual(a, b map[string]string) bool {
	if len(a) != len(b) {
		return false
	}
	for k, v := range a {
		if w, ok := b[k]; !ok || w != v {
			return false
		}
	}
	return true
}

func cloneTags(m map[string]string) map[string]string {
	if m == nil {
		return nil
	}
	c := make(map[string]string, len(m))
	for k, v := range m {
		c[k] = v
	}
	return c
}

// runProgram applies prog to a fresh root of configuration c on delivery path
// `path`, uses every metric kind at the end, and checks names and tags.
func runProgram(c rootCfg, prog []progOp, path histPath, metric string) (string, string, int) {
	steps := 0
	opts := tally.ScopeOptions{Prefix: c.prefix, Separator: c.sep, SanitizeOptions: c.san, OmitCardinalityMetrics: true}
	rootTags := cloneTags(c.tags)
	opts.Tags = rootTags
	var rec *Recorder
	var root tally.Scope
	var ts tally.TestScope
	switch path {
	case pathSnapshot:
		ts = tally.VerifNewTestScopeOpts(opts, 1)
		root = ts
	default:
		rec = &Recorder{NoPoints: true}
		if path == pathCached {
			opts.CachedReporter = cachedRec{rec}
		} else {
			opts.Reporter = plainRec{rec}
		}
		root, _ = tally.VerifNewRootScope(opts, 0, 1)
	}
	steps++
	// mutate the caller's root tag map after the call
	if rootTags != nil {
		if !tagsEqual(rootTags, c.tags) {
			return "caller-map-modified", fmt.Sprintf("%s: the library modified ScopeOptions.Tags: %s", c, tagString(rootTags)), steps
		}
		rootTags["zz"] = "mutated"
		for k := range c.tags {
			rootTags[k] = "mutated"
		}
	}
	s := root
	for _, op := range prog {
		if op.tag {
			m := cloneTags(op.tags)
			s = s.Tagged(m)
			if !tagsEqual(m, op.tags) || (m == nil) != (op.tags == nil) {
				return "caller-map-modified", fmt.Sprintf("%s %v: the library modified the map passed to Tagged: %s", c, prog, tagString(m)), steps
			}
			if m != nil {
				m["zz"] = "mutated"
				for k := range op.tags {
					m[k] = "mutated"
				}
			}
		} else {
			s = s.SubScope(op.sub)
		}
		steps++
	}
	if refAmbiguous(c, prog) {
		return "", "", steps
	}
	prefix, wantTags := refIdentity(c, prog)
	wantName := refFullName(c, prefix, metric)
	s.Counter(metric).Inc(1)
	s.Gauge(metric).Update(2)
	s.Timer(metric).Record(3)
	s.Histogram(metric, tally.ValueBuckets{1}).RecordValue(1)
	steps += 4
	describe := func() string { return fmt.Sprintf("%s %v metric %q [%s path]", c, prog, metric, path) }
	if path == pathSnapshot {
		snap := ts.Snapshot()
		steps++
		id := tally.KeyForPrefixedStringMap(wantName, wantTags)
		type ent interface {
			Name() string
			Tags() map[string]string
		}
		var ents []ent
		if e, ok := snap.Counters()[id]; ok {
			ents = append(ents, e)
		}
		if e, ok := snap.Gauges()[id]; ok {
			ents = append(ents, e)
		}
		if e, ok := snap.Timers()[id]; ok {
			ents = append(ents, e)
		}
		if e, ok := snap.Histograms()[id]; ok {
			ents = append(ents, e)
		}
		if len(ents) != 4 {
			var have []string
			for k := range snap.Counters() {
				have = append(have, k)
			}
			sort.Strings(have)
			return "snapshot-entry-missing", fmt.Sprintf("%s: snapshot has %d of 4 entries under key %q (counter keys: %q)", describe(), len(ents), id, have), steps
		}
		for _, e := range ents {
			if e.Name() != wantName || !tagsEqual(e.Tags(), wantTags) {
				return "snapshot-name-or-tags", fmt.Sprintf("%s: snapshot entry %q %s, want %q %s", describe(), e.Name(), tagString(e.Tags()), wantName, tagString(wantTags)), steps
			}
		}
		return "", "", steps
	}
	for pass := 0; pass < 2; pass++ {
		mark := len(rec.Log)
		if pass == 1 {
			s.Counter(metric).Inc(1)
			s.Gauge(metric).Update(2)
			s.Timer(metric).Record(3)
			s.Histogram(metric, tally.ValueBuckets{1}).RecordValue(1)
			steps += 4
		}
		tally.VerifReportOnce(root)
		steps++
		seen := map[string]int{}
		from := mark
		if pass == 0 {
			from = 0
		} else {
			from = mark
		}
		for _, e := range rec.Log[from:] {
			switch e.Kind {
			case "counter", "gauge", "timer", "hvalue", "alloc-counter", "alloc-gauge", "alloc-timer", "alloc-histogram":
				if e.Name != wantName {
					return "wrong-name", fmt.Sprintf("%s: %s delivered under name %q, want %q", describe(), e.Kind, e.Name, wantName), steps
				}
				if !tagsEqual(e.Tags, wantTags) {
					return "wrong-tags", fmt.Sprintf("%s: %s delivered with tags %s, want %s (pass %d)", describe(), e.Kind, tagString(e.Tags), tagString(wantTags), pass), steps
				}
				seen[e.Kind]++
			}
		}
		for _, k := range []string{"counter", "gauge", "timer", "hvalue"} {
			if seen[k] != 1 {
				return "metric-not-delivered-once", fmt.Sprintf("%s: %d %s deliveries in pass %d", describe(), seen[k], k, pass), steps
			}
		}
	}
	return "", "", steps
}

func c04Alphabet() []progOp {
	ops := []progOp{}
	for _, n := range []string{"a", "b", "a.b", "é", "\xff", ""} {
		ops = append(ops, progOp{sub: n})
	}
	maps := []map[string]string{nil, {}, {"k": "1"}, {"k": "2"}, {"k": ""}, {"j": "1"}, {"k": "1", "j": "1"}, {"k": "2", "j": ""}}
	for _, m := range maps {
		ops = append(ops, progOp{tag: true, tags: m})
	}
	return ops
}

func c04Roots(all bool) []rootCfg {
	alnum := tally.ValidCharacters{Ranges: tally.AlphanumericRange, Characters: tally.UnderscoreCharacters}
	sanA := &tally.SanitizeOptions{NameCharacters: alnum, KeyCharacters: alnum, ValueCharacters: alnum, ReplacementCharacter: '_'}
	single := tally.ValidCharacters{Ranges: []tally.SanitizeRange{{'a', 'j'}}}
	sanB := &tally.SanitizeOptions{NameCharacters: single, KeyCharacters: single, ValueCharacters: tally.ValidCharacters{Ranges: []tally.SanitizeRange{{'0', '1'}}}, ReplacementCharacter: 'x'}
	var out []rootCfg
	sans := []struct {
		o *tally.SanitizeOptions
		n string
	}{{nil, "none"}, {sanA, "alnum_"}, {sanB, "a-j/0-1 repl x"}}
	for _, sn := range sans {
		for _, p := range []string{"", "p"} {
			for _, sep := range []string{"", "_", "::"} {
				for _, t := range []map[string]string{nil, {}, {"k": "0"}} {
					if !all && (sn.o != nil && (sep == "::" || t == nil)) {
						continue
					}
					out = append(out, rootCfg{prefix: p, sep: sep, tags: t, san: sn.o, sanName: sn.n})
				}
			}
		}
	}
	return out
}

func c04Jobs(tier string) []*SeqJob {
	alpha := c04Alphabet()
	D := tierInt(tier, 3, 4)
	roots := c04Roots(tier == "thorough")
	decode := func(ops []string) (rootCfg, histPath, []progOp) {
		var ri, pi int
		fmt.Sscanf(ops[0], "root%d", &ri)
		fmt.Sscanf(ops[1], "path%d", &pi)
		var prog []progOp
		for _, o := range ops[2:] {
			var k int
			fmt.Sscanf(o, "op%d", &k)
			prog = append(prog, alpha[k])
		}
		return c04Roots(true)[ri], histPath(pi), prog
	}
	allRoots := c04Roots(true)
	rootIndex := func(c rootCfg) int {
		for i, r := range allRoots {
			if r.String() == c.String() {
				return i
			}
		}
		return -1
	}
	job := &SeqJob{Property: "C04", Name: "derivation-programs", Shards: tierInt(tier, 8, 16)}
	job.Run = func(ctx *SeqCtx) {
		for _, a := range alpha {
			ctx.Alphabet(a.String())
		}
		for _, r := range roots {
			ctx.Alphabet(r.String())
		}
		n := 0
		enumSeqs(len(alpha), D, func(seq []int) bool {
			n++
			if !ctx.Mine(n) {
				return true
			}
			prog := make([]progOp, len(seq))
			for i, k := range seq {
				prog[i] = alpha[k]
			}
			for _, r := range roots {
				if ctx.Expired() {
					return false
				}
				// at full depth only the sanitizer-free roots are crossed with every path
				for _, path := range []histPath{pathPlain, pathCached, pathSnapshot} {
					if len(seq) == D && D >= 3 && r.san != nil && path != pathCached {
						continue
					}
					steps := 0
					cl, det := guard(func() (string, string) {
						a, b, s := runProgram(r, prog, path, "m")
						steps = s
						return a, b
					})
					ops := []string{fmt.Sprintf("root%d", rootIndex(r)), fmt.Sprintf("path%d", int(path))}
					for _, k := range seq {
						ops = append(ops, fmt.Sprintf("op%d", k))
					}
					ctx.Case(steps, len(seq) > 0, func() string { return fmt.Sprintf("%s %v [%s]", r, prog, path) })
					if cl != "" {
						ctx.Fail(cl, det, ops)
						if ctx.viol != nil {
							return false
						}
					}
				}
			}
			return true
		})
		if !ctx.st.TimedOut && ctx.viol == nil {
			ctx.DepthDone(D)
		}
	}
	job.Replay = func(ops []string) (string, string) {
		r, path, prog := decode(ops)
		fmt.Println("replaying:", r, prog, path)
		return guard(func() (string, string) { a, b, _ := runProgram(r, prog, path, "m"); return a, b })
	}
	_ = time.Now
	return []*SeqJob{job, c04SharedRootJob(tier), c04MapReuseJob(tier)}
}

// c04SharedRootJob: all programs of an alphabet of strings that a sanitizer
// shortens (multi-byte runes replaced by a 1-byte replacement) run against ONE
// root, so that whatever the registry remembers about one derivation (cached
// raw keys) can affect the next. For every multi-byte string v the alphabet
// also holds sanitize(v) followed by the last bytes of v (what a key buffer
// reused for the shorter sanitized key would still contain).
func c04SharedRootJob(tier string) *SeqJob {
	alnum := tally.ValidCharacters{Ranges: tally.AlphanumericRange, Characters: tally.UnderscoreCharacters}
	san := &tally.SanitizeOptions{NameCharacters: alnum, KeyCharacters: alnum, ValueCharacters: alnum, ReplacementCharacter: '_'}
	base := []string{"é1", "€ab", "a😀", "x"}
	var strs []string
	for _, v := range base {
		strs = append(strs, v)
		sv := refSanitize(alnum, '_', v)
		for k := 1; k <= len(v)-len(sv); k++ {
			strs = append(strs, sv+v[len(v)-k:]) // still valid after sanitizing? only if the tail is ASCII
		}
	}
	var alpha []progOp
	seen := map[string]bool{}
	for _, v := range strs {
		if seen[v] {
			continue
		}
		seen[v] = true
		alpha = append(alpha, progOp{tag: true, tags: map[string]string{"env": v}}, progOp{sub: v})
	}
	depth := tierInt(tier, 2, 3)
	run := func(cached bool, prefix string, order int) (string, string, int) {
		rec := &Recorder{NoPoints: true}
		o := scopeOpts(rec, cached, false)
		o.Prefix, o.SanitizeOptions = prefix, san
		root, _ := tally.VerifNewRootScope(o, 0, 1)
		cfg := rootCfg{prefix: prefix, san: san}
		count := map[string]int64{}
		steps := 0
		var progs [][]int
		enumSeqs(len(alpha), depth, func(seq []int) bool {
			if len(seq) > 0 {
				progs = append(progs, append([]int{}, seq...))
			}
			return true
		})
		if order == 1 { // reversed order: what is remembered depends on who came first
			for i, j := 0, len(progs)-1; i < j; i, j = i+1, j-1 {
				progs[i], progs[j] = progs[j], progs[i]
			}
		}
		for _, seq := range progs {
			s := tally.Scope(root)
			prog := make([]progOp, len(seq))
			for i, k := range seq {
				prog[i] = alpha[k]
				if alpha[k].tag {
					s = s.Tagged(cloneTags(alpha[k].tags))
				} else {
					s = s.SubScope(alpha[k].sub)
				}
			}
			s.Counter("m").Inc(1)
			steps += len(seq) + 1
			p, tg := refIdentity(cfg, prog)
			count[refFullName(cfg, p, "m")+tagString(tg)]++
		}
		tally.VerifReportOnce(root)
		got := sumCounters(rec.Log, 0, len(rec.Log))
		for id, w := range count {
			if got[id] != w {
				return "delivered-under-wrong-name-or-tags", fmt.Sprintf("one root (prefix %q, %s), %d derivations: %d increments were made through derivations denoting %s, %d were delivered under it", prefix, b2s(cached), len(progs), w, id, got[id]), steps
			}
		}
		for id, g := range got {
			if count[id] != g {
				return "delivered-under-wrong-name-or-tags", fmt.Sprintf("one root (prefix %q): %d delivered under %s, %d recorded", prefix, g, id, count[id]), steps
			}
		}
		return "", "", steps
	}
	j := &SeqJob{Property: "C04", Name: "programs-sharing-one-sanitizing-root"}
	j.Run = func(ctx *SeqCtx) {
		for _, a := range alpha {
			ctx.Alphabet(a.String())
		}
		for _, cached := range []bool{false, true} {
			for _, prefix := range []string{"", "p"} {
				for order := 0; order < 2; order++ {
					cached, prefix, order := cached, prefix, order
					steps := 0
					cl, det := guard(func() (string, string) { c, d, s := run(cached, prefix, order); steps = s; return c, d })
					ops := []string{fmt.Sprint(cached), prefix, fmt.Sprint(order)}
					ctx.Case(steps, true, func() string { return fmt.Sprint(ops) })
					ctx.State(fmt.Sprint(ops))
					if cl != "" {
						ctx.Fail(cl, det, ops)
						if ctx.viol != nil {
							return
						}
					}
				}
			}
		}
		ctx.DepthDone(depth)
	}
	j.Replay = func(ops []string) (string, string) {
		var cached bool
		var order int
		fmt.Sscan(ops[0], &cached)
		fmt.Sscan(ops[2], &order)
		return guard(func() (string, string) { c, d, _ := run(cached, ops[1], order); return c, d })
	}
	return j
}

// c04MapReuseJob: the application keeps ONE map and edits it between calls (a request-scoped tag map that is refilled):
// Tagged(m) with contents A, then m is emptied and refilled with B, Tagged(m) again (the same map object, new
// contents) and Tagged(copy of B). For every ordered pair (A, B) of an alphabet of tag maps, under three parents (the
// root, a subscope, a tagged scope), on the plain and the cached path: what is recorded through the first scope
// arrives under the parent's tags overlaid by A, what is recorded through the other two under the parent's overlaid by
// B - the library remembers nothing about a caller's map beyond the call.
func c04MapReuseJob(tier string) *SeqJob {
	maps := []map[string]string{{}, {"k": "1"}, {"k": "2"}, {"k": ""}, {"j": "1"}, {"k": "1", "j": "1"}, {"k": "2", "j": ""}, {"k!": "v?"}}
	parents := [][]progOp{{}, {{sub: "a"}}, {{tag: true, tags: map[string]string{"j": "1"}}}}
	alnum := tally.ValidCharacters{Ranges: tally.AlphanumericRange, Characters: tally.UnderscoreCharacters}
	sanA := &tally.SanitizeOptions{NameCharacters: alnum, KeyCharacters: alnum, ValueCharacters: alnum, ReplacementCharacter: '_'}
	cfgs := []rootCfg{{prefix: "p", tags: nil, sanName: "none"}, {prefix: "", tags: map[string]string{"k": "0"}, sanName: "none"}, {prefix: "p", tags: map[string]string{"k": "0"}, san: sanA, sanName: "alnum_"}}
	run := func(ci, pi, ai, bi int, cached bool) (string, string, int) {
		c := cfgs[ci]
		rec := &Recorder{NoPoints: true}
		opts := tally.ScopeOptions{Prefix: c.prefix, Separator: c.sep, SanitizeOptions: c.san, OmitCardinalityMetrics: true, Tags: cloneTags(c.tags)}
		if cached {
			opts.CachedReporter = cachedRec{rec}
		} else {
			opts.Reporter = plainRec{rec}
		}
		root, _ := tally.VerifNewRootScope(opts, 0, 1)
		parent := root
		for _, op := range parents[pi] {
			if op.tag {
				parent = parent.Tagged(cloneTags(op.tags))
			} else {
				parent = parent.SubScope(op.sub)
			}
		}
		a, b := maps[ai], maps[bi]
		m := cloneTags(a)
		s1 := parent.Tagged(m)
		for k := range m {
			delete(m, k)
		}
		for k, v := range b {
			m[k] = v
		}
		s2 := parent.Tagged(m)
		s3 := parent.Tagged(cloneTags(b))
		s1.Counter("x").Inc(1)
		s2.Counter("x").Inc(10)
		s3.Counter("x").Inc(100)
		tally.VerifReportOnce(root)
		progA := append(append([]progOp{}, parents[pi]...), progOp{tag: true, tags: a})
		progB := append(append([]progOp{}, parents[pi]...), progOp{tag: true, tags: b})
		prefA, tagsA := refIdentity(c, progA)
		_, tagsB := refIdentity(c, progB)
		name := refFullName(c, prefA, "x")
		want := map[string]int64{}
		want[name+tagString(tagsA)] += 1
		want[name+tagString(tagsB)] += 110
		got := sumCounters(rec.Log, 0, len(rec.Log))
		where := fmt.Sprintf("[%s, parent %v, %s path] Tagged(m=%s); m refilled with %s; Tagged(m); Tagged(copy)", c, parents[pi], map[bool]string{true: "cached", false: "plain"}[cached], tagString(a), tagString(b))
		for id, w := range want {
			if got[id] != w {
				return "wrong-tags", fmt.Sprintf("%s: %s delivered %d, want %d (all deliveries: %v)", where, id, got[id], w, got), 6
			}
		}
		for id, g := range got {
			if want[id] != g {
				return "wrong-tags", fmt.Sprintf("%s: %s delivered %d, want %d (all deliveries: %v)", where, id, g, want[id], got), 6
			}
		}
		return "", "", 6
	}
	j := &SeqJob{Property: "C04", Name: "one-caller-map-refilled-between-calls"}
	j.Run = func(ctx *SeqCtx) {
		for ci := range cfgs {
			for pi := range parents {
				for ai := range maps {
					for bi := range maps {
						for _, cached := range []bool{false, true} {
							ci, pi, ai, bi, cached := ci, pi, ai, bi, cached
							steps := 0
							cl, det := guard(func() (string, string) { x, y, s := run(ci, pi, ai, bi, cached); steps = s; return x, y })
							ops := []string{fmt.Sprint(ci), fmt.Sprint(pi), fmt.Sprint(ai), fmt.Sprint(bi), fmt.Sprint(cached)}
							ctx.Case(steps, true, func() string { return fmt.Sprint(ops) })
							ctx.State(fmt.Sprint(ops))
							if cl != "" {
								ctx.Fail(cl, det, ops)
								if ctx.viol != nil {
									return
								}
							}
						}
					}
				}
			}
		}
		for _, m := range maps {
			ctx.Alphabet("map " + tagString(m))
		}
		ctx.DepthDone(2)
	}
	j.Replay = func(ops []string) (string, string) {
		var ci, pi, ai, bi int
		var cached bool
		fmt.Sscan(ops[0], &ci)
		fmt.Sscan(ops[1], &pi)
		fmt.Sscan(ops[2], &ai)
		fmt.Sscan(ops[3], &bi)
		fmt.Sscan(ops[4], &cached)
		return guard(func() (string, string) { x, y, _ := run(ci, pi, ai, bi, cached); return x, y })
	}
	return j
}
