package main

import (
	"fmt"
	"strings"

	tally "github.com/uber-go/tally/v4"
	rt "github.com/uber-go/tally/v4/verifrt"
)

type closerIface interface{ Close() error }

func closeScope(s tally.Scope) { _ = s.(closerIface).Close() }

func c07Scenarios(tier string) []*Scenario {
	var out []*Scenario
	type variant struct {
		cached, sub, sanitize, loop, twoApps, twice bool
		shards                                      uint
		noReacquire                                 bool // the application thread ends right after Close
	}
	vs := []variant{
		{cached: true, shards: 1},
		{cached: false, shards: 1, sanitize: true},
		{cached: true, shards: 1, loop: true},
		{cached: true, shards: 1, noReacquire: true},
		{cached: false, shards: 1, noReacquire: true},
		{cached: true, shards: 1, twoApps: true},
	}
	if tier == "thorough" {
		vs = append(vs,
			variant{cached: false, shards: 1},
			variant{cached: true, shards: 2, sub: true},
			variant{cached: false, shards: 1, sub: true, twice: true},
			variant{cached: true, shards: 1, sanitize: true, loop: true},
			variant{cached: false, shards: 2, twoApps: true, sanitize: true},
		)
	}
	for _, v := range vs {
		v := v
		name := fmt.Sprintf("R-cycle-vs-pass-%s-sub=%v-sanitize=%v-loop=%v-two=%v-twice=%v-shards=%d", b2s(v.cached), v.sub, v.sanitize, v.loop, v.twoApps, v.twice, v.shards)
		if v.noReacquire {
			name += "-no-reacquire"
		}
		sc := &Scenario{Property: "C07", Name: name, AllowLeak: true}
		if v.loop {
			sc.Ticks = tierInt(tier, 1, 2)
		}
		sc.Body = func(x *Run) {
			rec := &Recorder{}
			x.Rec = rec
			opts := scopeOpts(rec, v.cached, false)
			// with a sanitizer the raw and the sanitized registry key differ
			tags := map[string]string{"k": "v"}
			subName := "s"
			if v.sanitize {
				so := tally.SanitizeOptions{
					NameCharacters:       tally.ValidCharacters{Ranges: tally.AlphanumericRange, Characters: tally.UnderscoreCharacters},
					KeyCharacters:        tally.ValidCharacters{Ranges: tally.AlphanumericRange, Characters: tally.UnderscoreCharacters},
					ValueCharacters:      tally.ValidCharacters{Ranges: tally.AlphanumericRange, Characters: tally.UnderscoreCharacters},
					ReplacementCharacter: '_',
				}
				opts.SanitizeOptions = &so
				tags = map[string]string{"k": "v!"}
				subName = "s!"
			}
			var interval int64
			if v.loop {
				interval = 1e9
			}
			root, _ := tally.VerifNewRootScope(opts, timeDur(interval), v.shards)
			other := root.Tagged(map[string]string{"o": "1"})
			oc := other.Counter("c")
			get := func() tally.Scope {
				if v.sub {
					return root.SubScope(subName)
				}
				return root.Tagged(tags)
			}
			app := func(first, second int64) func() {
				return func() {
					s := get()
					s.Counter("c").Inc(first)
					if v.twoApps {
						// two goroutines may hold the same scope object: an increment is only
						// guaranteed when it was made before Close was called on that object
						rec.Mark(fmt.Sprintf("inc-done %d %p", first, s))
					}
					oc.Inc(first)
					if v.twoApps {
						rec.Mark(fmt.Sprintf("close-called %p", s))
					}
					closeScope(s)
					if v.noReacquire {
						return
					}
					if v.twice {
						closeScope(s)
					}
					child := s.Tagged(map[string]string{"child": "1"})
					if !tally.VerifIsNoop(child) {
						x.failf("child-of-closed-not-inert", "a scope derived from a closed scope is not the inert scope")
					}
					child.Counter("c").Inc(64)
					s2 := get()
					if tally.VerifIsNoop(s2) {
						x.failf("reacquired-scope-inert", "a scope obtained after Close of an equal scope is the inert scope")
					}
					s2.Counter("c").Inc(second)
					if v.twoApps {
						rec.Mark(fmt.Sprintf("inc-done %d %p", second, s2))
					}
					if !v.twoApps {
						x.Vals["s2"] = s2
					}
				}
			}
			a := rt.GoNamed("app", app(1, 2))
			var b, p *rt.Thread
			if v.twoApps {
				b = rt.GoNamed("app2", app(8, 16))
			}
			if !v.loop {
				p = rt.GoNamed("pass", func() { tally.VerifReportOnce(root) })
			}
			a.Join()
			if b != nil {
				b.Join()
			}
			if p != nil {
				p.Join()
			}
			tally.VerifReportOnce(root)
			// the re-obtained scope must have stayed registered
			s3 := get()
			s3.Counter("c").Inc(4)
			if s2, ok := x.Vals["s2"]; ok && s2 != s3 {
				x.failf("reacquired-scope-unregistered", "the scope re-obtained after Close is no longer the registered one")
			}
			tally.VerifReportOnce(root)
			x.Vals["quiet"] = len(rec.Log)
			tally.VerifReportOnce(root)
		}
		sc.Check = func(x *Run, o *rt.Outcome) (string, string, string) {
			id := `c{"k":"v"}`
			if v.sanitize {
				id = `c{"k":"v_"}`
			}
			if v.sub {
				id = "s.c{}"
				if v.sanitize {
					id = "s_.c{}"
				}
			}
			tot := int64(1 + 2 + 4)
			if v.noReacquire {
				tot = 1 + 4
			}
			otot := int64(1)
			if v.twoApps {
				tot += 8 + 16
				otot += 8
			}
			want := map[string]int64{id: tot, `c{"o":"1"}`: otot}
			quiet := x.Vals["quiet"].(int)
			if v.twoApps {
				// required: increments completed before Close was called on their scope object;
				// the others (made on an object the other goroutine had already closed) may or may not arrive
				closed := map[string]bool{}
				var required, optional int64
				for _, e := range x.Rec.Log {
					if e.Kind != "mark" {
						continue
					}
					var n int64
					var ptr string
					if _, err := fmt.Sscanf(e.Note, "close-called %s", &ptr); err == nil {
						closed[ptr] = true
					} else if _, err := fmt.Sscanf(e.Note, "inc-done %d %s", &n, &ptr); err == nil {
						if closed[ptr] {
							optional += n
						} else {
							required += n
						}
					}
				}
				required += 4 // the increment made by the main thread on the re-obtained scope
				got := sumCounters(x.Rec.Log, 0, len(x.Rec.Log))
				if g := got[id]; g < required || g > required+optional || (g-required)&^optional != 0 {
					return "sum-mismatch", fmt.Sprintf("counter %s: delivered %d; increments made before Close was called on their scope add up to %d, increments made on an already closed scope object to %d", id, g, required, optional), "viol"
				}
				if got[`c{"o":"1"}`] != otot {
					return "sum-mismatch", fmt.Sprintf("counter of the other scope: delivered %d of %d", got[`c{"o":"1"}`], otot), "viol"
				}
				for i, e := range x.Rec.Log {
					if e.Kind == "counter" && e.I <= 0 {
						return "non-positive-delta", fmt.Sprintf("log[%d] %s", i, e.String()), "viol"
					}
				}
				return "", "", deliveredOutcome(x.Rec.Log)
			}
			if v.loop {
				// the loop goroutine may deliver a pending delta at any time
				quiet = -1
			}
			cl, d := counterOracle(x.Rec.Log, want, quiet, true)
			if cl != "" {
				return cl, d, "viol"
			}
			return "", "", deliveredOutcome(x.Rec.Log)
		}
		out = append(out, sc)
	}
	// a gauge set on a subscope before its Close while a pass is delivering that gauge, then the same scope requested
	// again: scenarios G2 and G3 of C02 (the last value set before Close reaches the reporter), judged here as well
	for _, sc := range c02Scenarios(tier) {
		if strings.HasPrefix(sc.Name, "G3-") || strings.HasPrefix(sc.Name, "G2-") {
			c := *sc
			c.Property = "C07"
			out = append(out, &c)
		}
	}
	return out
}
