// Command harness holds the scenarios, reference models and explorer drivers
// of /verif. It is built against /repo through `go build -overlay`, once
// plain (seq checks) and once instrumented (sched checks).
package main

import (
	"encoding/json"
	"flag"
	"fmt"
	"os"
	"runtime/pprof"
	"strings"
	"time"

	rt "github.com/uber-go/tally/v4/verifrt"
)

// Item is one unit of work of a check (a sched scenario or a seq job).
type Item struct {
	Kind    string `json:"kind"` // sched | seq | race
	Name    string `json:"name"`
	Bound   int    `json:"bound,omitempty"`
	Shards  int    `json:"shards"`
	BudgetS int    `json:"budget_s"`
	// MapOrder: map iteration order of the instrumented code for this item (-1: by scenario name)
	MapOrder int `json:"maporder"`
}

func main() {
	if len(os.Args) < 2 {
		fmt.Fprintln(os.Stderr, "usage: harness list|worker|replay ...")
		os.Exit(2)
	}
	switch os.Args[1] {
	case "list":
		fs := flag.NewFlagSet("list", flag.ExitOnError)
		prop := fs.String("prop", "", "")
		tier := fs.String("tier", "quick", "")
		_ = fs.Parse(os.Args[2:])
		items := listItems(*prop, *tier)
		writeJSON("-", items)
	case "worker":
		fs := flag.NewFlagSet("worker", flag.ExitOnError)
		prop := fs.String("prop", "", "")
		tier := fs.String("tier", "quick", "")
		kind := fs.String("kind", "sched", "")
		name := fs.String("name", "", "")
		bound := fs.Int("bound", 2, "")
		shard := fs.Int("shard", 0, "")
		nshards := fs.Int("nshards", 1, "")
		budget := fs.Int("budget", 0, "seconds")
		out := fs.String("out", "-", "")
		nocache := fs.Bool("nocache", false, "")
		maporder := fs.Int("maporder", -1, "map iteration order of the instrumented code (0 ascending, 1 descending, 2 from the middle; -1: by scenario name)")
		prof := fs.String("cpuprofile", "", "")
		_ = fs.Parse(os.Args[2:])
		if *prof != "" {
			f, _ := os.Create(*prof)
			_ = pprof.StartCPUProfile(f)
			defer pprof.StopCPUProfile()
		}
		BonusBudget = 6 * time.Second
		if *tier == "thorough" {
			BonusBudget = 90 * time.Second
		}
		if os.Getenv("VERIF_NO_BONUS") != "" {
			BonusBudget = 0
		}
		switch *kind {
		case "sched":
			sc := findScenario(*prop, *tier, *name)
			if sc == nil {
				fmt.Fprintf(os.Stderr, "no scenario %s/%s\n", *prop, *name)
				os.Exit(2)
			}
			rt.SetMode(rt.Controlled)
			mo := *maporder
			if mo < 0 {
				mo = defaultMapOrder(sc.Name)
			}
			rt.SetMapOrder(mo)
			if sc.Params == nil {
				sc.Params = map[string]string{}
			}
			sc.Params["maporder"] = fmt.Sprint(mo)
			st, v, infra, kn := Explore(sc, *bound, *shard, *nshards, time.Duration(*budget)*time.Second, *nocache)
			res := &WorkerResult{Scenario: sc.Name, Params: sc.Params, Stats: st, Violation: v, Infra: infra, Known: kn}
			if v != nil {
				// confirm: the same schedule must show the same violation every time
				for i := 0; i < 5; i++ {
					v2, _, inf := Replay(sc, v.Choices)
					if inf != "" {
						res.Infra = inf
						break
					}
					if v2 == nil {
						res.Infra = fmt.Sprintf("NONDETERMINISM: replay %d of the violating schedule did not reproduce clause %q", i, v.Clause)
						break
					}
					// (a replay that violates under another clause - an oracle iterating a Go map - still confirms)
					res.Confirmed++
					v.Trace = v2.Trace
				}
			}
			writeJSON(*out, res)
		case "seq", "seqc":
			if *kind == "seqc" {
				rt.SetMode(rt.Controlled)
			}
			seqHangHook = func(res *seqResult) {
				writeJSON(*out, res)
				os.Exit(0)
			}
			res := runSeq(*prop, *tier, *name, *shard, *nshards, time.Duration(*budget)*time.Second)
			writeJSON(*out, res)
		case "race":
			res := runRace(*prop, *tier, *name, time.Duration(*budget)*time.Second)
			writeJSON(*out, res)
		default:
			fmt.Fprintln(os.Stderr, "unknown kind")
			os.Exit(2)
		}
	case "replay":
		fs := flag.NewFlagSet("replay", flag.ExitOnError)
		file := fs.String("file", "", "")
		_ = fs.Parse(os.Args[2:])
		b, err := os.ReadFile(*file)
		if err != nil {
			fmt.Fprintln(os.Stderr, err)
			os.Exit(2)
		}
		var v Violation
		if err := json.Unmarshal(b, &v); err != nil {
			fmt.Fprintln(os.Stderr, err)
			os.Exit(2)
		}
		os.Exit(replayFile(&v))
	case "debug-c05":
		c05Debug(os.Args[2:])
	default:
		fmt.Fprintln(os.Stderr, "unknown command")
		os.Exit(2)
	}
}

func replayFile(v *Violation) int {
	if len(v.Ops) > 0 || v.Params["engine"] == "seq" {
		if j := findSeqJob(v.Property, v.Params["tier"], v.Scenario); j != nil && j.Controlled {
			rt.SetMode(rt.Controlled)
		}
		return replaySeq(v)
	}
	sc := findScenario(v.Property, v.Params["tier"], v.Scenario)
	if sc == nil {
		fmt.Fprintf(os.Stderr, "no scenario %s/%s\n", v.Property, v.Scenario)
		return 2
	}
	rt.SetMode(rt.Controlled)
	mo := defaultMapOrder(sc.Name)
	if s, ok := v.Params["maporder"]; ok {
		fmt.Sscan(s, &mo)
	}
	rt.SetMapOrder(mo)
	v2, o, infra := Replay(sc, v.Choices)
	if infra != "" {
		fmt.Println(infra)
		return 2
	}
	for _, l := range o.Trace {
		fmt.Println(l)
	}
	if v2 == nil {
		fmt.Println("replay: no violation on this tree")
		return 0
	}
	fmt.Println("--- reporter log")
	fmt.Println(strings.Join(v2.Log, "\n"))
	fmt.Printf("VIOLATION property=%s clause=%q\n%s\n", v2.Property, v2.Clause, v2.Detail)
	return 1
}

func findScenario(prop, tier, name string) *Scenario {
	for _, t := range []string{tier, "thorough", "quick"} {
		if t == "" {
			continue
		}
		for _, s := range schedScenarios(prop, t) {
			if s.Name == name {
				if s.Params == nil {
					s.Params = map[string]string{}
				}
				s.Params["tier"] = t
				return s
			}
		}
	}
	return nil
}

// defaultMapOrder spreads the three map iteration orders over the scenarios (by a hash of the name), so that the
// quick tier sees every order somewhere; the thorough tier runs every scenario under two orders.
func defaultMapOrder(name string) int {
	h := uint32(2166136261)
	for i := 0; i < len(name); i++ {
		h = (h ^ uint32(name[i])) * 16777619
	}
	return int(h % 3)
}
