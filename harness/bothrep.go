package main

import (
	"errors"
	"fmt"
	"math"
	"sort"
	"time"

	tally "github.com/uber-go/tally/v4"
)

// bothReportersJob: ScopeOptions with BOTH Reporter and CachedReporter set (the documentation says "either ... or",
// the constructor accepts both and the code has a defined behaviour for it). Breadth-first search over histories of
// recording on the root and on one subscope, closing / re-obtaining the subscope, report passes and the root's
// Close, for every combination of the two reporters being closable.
//
// The oracle does not prescribe which reporter is the one the scope reports to; it takes that from the execution
// (the reporter the report passes flush) and requires the scope to be consistent about it:
//   - every counter / gauge / histogram delivery goes to a reporter that the scope flushes (data handed to a
//     reporter that is never flushed - e.g. by the report made when a closed subscope is requested again - is
//     lost for the reporter the scope reports to)                                                  [C01 C02 C07]
//   - per identity the deliveries add up to what was recorded on live scopes, a gauge ends with its last update and
//     is not delivered again unchanged                                                              [C01 C02 C07]
//   - every Timer.Record makes exactly one delivery in total, synchronously, always on the same side    [C10]
//   - the root's Close delivers what is pending, flushes, and closes exactly the reporter it flushed (if that one
//     can be closed) once, after the flush, and returns that reporter's error; a reporter that did not get the
//     final flush is not closed; a second Close does nothing and returns nil                            [C08]
var (
	errPlainClose  = errors.New("plain reporter close error")
	errCachedClose = errors.New("cached reporter close error")
)

// cachedSide marks Flush / Close / Capabilities calls arriving through the CachedReporter field.
type cachedSide struct {
	tally.CachedStatsReporter
	r *Recorder
}

func (c cachedSide) Flush()                           { c.r.add(Entry{Kind: "flush", Cached: true}) }
func (c cachedSide) Capabilities() tally.Capabilities { return capsRT{} }

type cachedSideCloser struct{ cachedSide }

func (c cachedSideCloser) Close() error {
	c.r.add(Entry{Kind: "close", Cached: true})
	return errCachedClose
}

type plainSideCloser struct {
	tally.StatsReporter
	r *Recorder
}

func (c plainSideCloser) Close() error {
	c.r.add(Entry{Kind: "close"})
	return errPlainClose
}

func bothReportersJob(prop, tier string) *SeqJob {
	alphabet := []string{"inc root", "gauge root", "hist root", "timer root",
		"get sub", "inc sub", "gauge sub", "hist sub", "timer sub", "close sub",
		"pass", "close root"}
	type cfg struct{ pClosable, qClosable bool }
	cfgs := []cfg{{true, true}, {true, false}, {false, true}, {false, false}}
	subTags := map[string]string{"k": "v"}
	exec := func(c cfg) func(hist []int) (string, string, string, int) {
		return func(hist []int) (cl, det, key string, steps int) {
			cl, det = guard(func() (string, string) {
				rec := &Recorder{NoPoints: true}
				o := tally.ScopeOptions{OmitCardinalityMetrics: true}
				if c.pClosable {
					o.Reporter = plainSideCloser{rec, rec}
				} else {
					o.Reporter = plainRec{rec}
				}
				if c.qClosable {
					o.CachedReporter = cachedSideCloser{cachedSide{rec, rec}}
				} else {
					o.CachedReporter = cachedSide{rec, rec}
				}
				root, rootCloser := tally.NewRootScope(o, 0)
				where := func() string {
					return fmt.Sprintf("[plain closable=%v cached closable=%v] %v", c.pClosable, c.qClosable, histLabels(alphabet, hist))
				}
				type obj struct {
					s      tally.Scope
					closed bool
				}
				var sub *obj
				subRegistered := false // a closed subscope stays registered until a pass (or a re-request) drops it
				want := map[string]int64{}
				hwant := map[string]int64{}
				glast := map[string]uint64{}
				gset := map[string]map[uint64]bool{}
				gupdates := map[string]int{}
				timerSide := -1
				rootClosed, closeCalls := false, 0
				next := int64(1)
				gnext := 1.5
				flushed := map[bool]bool{}
				pend := map[string]bool{}
				idOf := func(name string, onSub bool) string {
					if onSub {
						return name + tagString(subTags)
					}
					return name + tagString(map[string]string{})
				}
				record := func(what string, onSub bool, s tally.Scope) (string, string) {
					switch what {
					case "inc":
						s.Counter("c").Inc(next)
						if !rootClosed {
							want[idOf("c", onSub)] += next
							pend[idOf("c", onSub)] = true
						}
						next *= 2
					case "gauge":
						s.Gauge("g").Update(gnext)
						if !rootClosed {
							id := idOf("g", onSub)
							glast[id] = math.Float64bits(gnext)
							if gset[id] == nil {
								gset[id] = map[uint64]bool{}
							}
							gset[id][glast[id]] = true
							gupdates[id]++
							pend[id] = true
						}
						gnext += 1
					case "hist":
						s.Histogram("h", tally.ValueBuckets{1, 2}).RecordValue(1.5)
						if !rootClosed {
							hwant[idOf("h", onSub)]++
							pend[idOf("h", onSub)] = true
						}
					case "timer":
						n := len(rec.Log)
						d := time.Duration(next)
						s.Timer("t").Record(d)
						next *= 2
						if rootClosed {
							return "", "" // recording after the root's Close only has to be harmless
						}
						var got []Entry
						for _, e := range rec.Log[n:] {
							if e.Kind == "timer" {
								got = append(got, e)
							}
						}
						if len(got) != 1 || got[0].D != d || got[0].ID() != idOf("t", onSub) {
							return "timer-record-not-exactly-one-delivery", fmt.Sprintf("%s: Record(%d) on %s made %d deliveries: %v", where(), int64(d), idOf("t", onSub), len(got), entryStrings(got))
						}
						side := 0
						if got[0].Cached {
							side = 1
						}
						// C10's record names "the cached path taking precedence over the plain path" as part of what it
						// decides: with both reporters configured a timer value goes to the handle the cached reporter
						// allocated for it (round 12, C10-12a). Judged under C10 only.
						if prop == "C10" && side != 1 {
							return "timer-not-delivered-on-the-cached-path", fmt.Sprintf("%s: Record(%d) on %s went to the plain reporter although a cached reporter is configured and allocated a timer for it", where(), int64(d), idOf("t", onSub))
						}
						if timerSide >= 0 && side != timerSide {
							return "timer-deliveries-change-sides", fmt.Sprintf("%s: timer values were delivered to the %s reporter before and now to the %s one", where(), sideName(timerSide), sideName(side))
						}
						timerSide = side
					}
					return "", ""
				}
				for _, op := range hist {
					var what, lbl string
					fmt.Sscanf(alphabet[op], "%s %s", &what, &lbl)
					steps++
					switch {
					case what == "pass":
						if rootClosed {
							continue
						}
						n := len(rec.Log)
						tally.VerifReportOnce(root)
						nf := 0
						for _, e := range rec.Log[n:] {
							if e.Kind == "flush" {
								flushed[e.Cached] = true
								nf++
							}
						}
						if nf == 0 {
							return "pass-without-flush", fmt.Sprintf("%s: a report pass flushed no reporter", where())
						}
						if sub != nil && sub.closed {
							subRegistered = false
						}
						pend = map[string]bool{}
					case what == "close" && lbl == "root":
						n := len(rec.Log)
						err := rootCloser.Close()
						closeCalls++
						since := rec.Log[n:]
						if rootClosed {
							if err != nil || len(since) != 0 {
								return "second-close-not-idempotent", fmt.Sprintf("%s: Close call %d returned %v and made %d reporter calls: %v", where(), closeCalls, err, len(since), entryStrings(since))
							}
							continue
						}
						rootClosed = true
						// the final pass: deliveries, then the flush, then the close of the flushed reporter
						flushAt := map[bool]int{}
						closeAt := map[bool][]int{}
						for i, e := range since {
							switch e.Kind {
							case "flush":
								flushAt[e.Cached] = i + 1
								flushed[e.Cached] = true
							case "close":
								closeAt[e.Cached] = append(closeAt[e.Cached], i+1)
							case "counter", "gauge", "hvalue", "hduration":
								for _, at := range closeAt {
									if len(at) > 0 {
										return "delivery-after-reporter-close", fmt.Sprintf("%s: %v", where(), entryStrings(since))
									}
								}
							}
						}
						if len(flushAt) == 0 {
							return "close-without-final-flush", fmt.Sprintf("%s: the root's Close flushed no reporter: %v", where(), entryStrings(since))
						}
						var wantErr error
						for _, side := range []bool{false, true} {
							closable := map[bool]bool{false: c.pClosable, true: c.qClosable}[side]
							name := sideName(map[bool]int{false: 0, true: 1}[side])
							if flushAt[side] > 0 && closable {
								if len(closeAt[side]) != 1 || closeAt[side][0] < flushAt[side] {
									return "flushed-reporter-not-closed-exactly-once-after-flush", fmt.Sprintf("%s: the %s reporter got the final flush and can be closed; close calls at %v, flush at %d: %v", where(), name, closeAt[side], flushAt[side], entryStrings(since))
								}
								wantErr = map[bool]error{false: errPlainClose, true: errCachedClose}[side]
							}
							if flushAt[side] == 0 && len(closeAt[side]) > 0 {
								return "reporter-closed-without-final-flush", fmt.Sprintf("%s: the %s reporter was closed although the final pass did not flush it: %v", where(), name, entryStrings(since))
							}
						}
						if len(flushAt) == 1 && err != wantErr {
							return "close-error-not-the-closed-reporters", fmt.Sprintf("%s: Close returned %v, want %v", where(), err, wantErr)
						}
						pend = map[string]bool{}
					case what == "get":
						if rootClosed {
							if s := root.Tagged(cloneTags(subTags)); !tally.VerifIsNoop(s) {
								return "scope-obtained-after-close-not-inert", where()
							}
							continue
						}
						s := root.Tagged(cloneTags(subTags))
						if tally.VerifIsNoop(s) {
							return "obtained-scope-inert", where()
						}
						if sub != nil && !sub.closed && s != sub.s {
							return "live-scope-not-shared", where()
						}
						if sub == nil || sub.closed {
							if sub != nil && s == sub.s {
								return "closed-scope-handed-out", where()
							}
							sub = &obj{s: s}
							subRegistered = true
						}
					case what == "close" && lbl == "sub":
						if sub == nil || sub.closed {
							continue
						}
						closeScope(sub.s)
						sub.closed = true
					default:
						onSub := lbl == "sub"
						s := root
						if onSub {
							if sub == nil || sub.closed {
								continue // recording through handles of closed scopes: covered by the C07 cycle job
							}
							s = sub.s
						}
						if cl, det := record(what, onSub, s); cl != "" {
							return cl, det
						}
					}
				}
				key = fmt.Sprint(c, rootClosed, closeCalls > 1, sub != nil, sub != nil && sub.closed, subRegistered, keysSorted(pend), len(want), len(glast), len(hwant), timerSide)
				if !rootClosed {
					tally.VerifReportOnce(root)
					for _, e := range rec.Log {
						if e.Kind == "flush" {
							flushed[e.Cached] = true
						}
					}
					n := len(rec.Log)
					tally.VerifReportOnce(root)
					for _, e := range rec.Log[n:] {
						if e.Kind != "flush" {
							return "delivery-without-new-data", fmt.Sprintf("%s: a second pass with nothing new delivered %s", where(), e.String())
						}
					}
				}
				// all deliveries on flushed sides; sums; gauges
				got := map[string]int64{}
				hgot := map[string]int64{}
				gl := map[string]uint64{}
				gn := map[string]int{}
				for _, e := range rec.Log {
					switch e.Kind {
					case "counter", "gauge", "hvalue", "hduration":
						if !flushed[e.Cached] {
							return "delivered-to-a-reporter-the-scope-never-flushes", fmt.Sprintf("%s: %s went to the %s reporter; the report passes of this root flush only the other one", where(), e.String(), sideName(map[bool]int{false: 0, true: 1}[e.Cached]))
						}
					}
					switch e.Kind {
					case "counter":
						got[e.ID()] += e.I
					case "hvalue":
						if e.I != 0 && e.HiF != 2 {
							return "histogram-sample-in-wrong-bucket", fmt.Sprintf("%s: %s", where(), e.String())
						}
						hgot[e.ID()] += e.I
					case "gauge":
						if !gset[e.ID()][e.F] {
							return "gauge-value-never-updated", fmt.Sprintf("%s: %s", where(), e.String())
						}
						gl[e.ID()] = e.F
						gn[e.ID()]++
					}
				}
				for id, w := range want {
					if got[id] != w {
						return "counter-not-delivered-exactly-once", fmt.Sprintf("%s: %s: incremented by %d, delivered %d", where(), id, w, got[id])
					}
				}
				for id, g := range got {
					if want[id] != g {
						return "counter-not-delivered-exactly-once", fmt.Sprintf("%s: %s: incremented by %d, delivered %d", where(), id, want[id], g)
					}
				}
				for id, w := range hwant {
					if hgot[id] != w {
						return "histogram-samples-not-delivered-exactly-once", fmt.Sprintf("%s: %s: %d samples recorded, %d delivered", where(), id, w, hgot[id])
					}
				}
				for id, w := range glast {
					if gl[id] != w || gn[id] > gupdates[id] {
						return "gauge-last-value-or-delivery-count", fmt.Sprintf("%s: %s: last update %v (%d updates), last delivered %v (%d deliveries)", where(), id, math.Float64frombits(w), gupdates[id], math.Float64frombits(gl[id]), gn[id])
					}
				}
				return "", ""
			})
			return
		}
	}
	depth := tierInt(tier, 5, 7)
	j := &SeqJob{Property: prop, Name: "both-reporters-configured-histories", Shards: tierInt(tier, 2, 4)}
	j.Run = func(ctx *SeqCtx) {
		for i, c := range cfgs {
			ctx.OpsPrefix = []string{fmt.Sprint(i)}
			bfs(ctx, alphabet, depth, exec(c))
			if ctx.viol != nil || ctx.st.TimedOut {
				return
			}
		}
	}
	j.Replay = func(ops []string) (string, string) {
		var i int
		fmt.Sscan(ops[0], &i)
		cl, det, _, _ := exec(cfgs[i])(opIndex(alphabet, ops[1:]))
		return cl, det
	}
	return j
}

func sideName(s int) string {
	if s == 1 {
		return "cached"
	}
	return "plain"
}

func entryStrings(es []Entry) []string {
	out := make([]string, len(es))
	for i := range es {
		out[i] = es[i].String()
	}
	return out
}

func keysSorted(m map[string]bool) []string {
	var ks []string
	for k := range m {
		ks = append(ks, k)
	}
	sort.Strings(ks)
	return ks
}

// c08AllocFailureJob: the environment deviates - the cached reporter's Allocate* panics for one metric name (what
// the Prometheus reporter does by default when a registration is refused) and the application recovers. Histories
// of good and failing first uses on the root and on a subscope, passes, then the root's Close: Close returns,
// everything recorded through metrics that could be created has been delivered and flushed before it does, and the
// reporter is closed once. Run under the controlled scheduler: a lock left behind by a failed first use shows as a
// deadlock with a history instead of a hung worker.
func c08AllocFailureJob(tier string) *SeqJob {
	alphabet := []string{"counter good", "counter bad", "gauge bad", "timer bad", "histogram bad", "sub counter bad", "sub counter good", "pass"}
	depth := tierInt(tier, 4, 5)
	exec := func(hist []int) (cl, det, key string, steps int) {
		var icl, idet string
		ccl, cdet := controlledCase(0, func() {
			icl, idet = guard(func() (string, string) {
				rec := &Recorder{NoPoints: true, PanicOnAlloc: "bad", CloseErr: errSentinel}
				o := scopeOpts(rec, true, true)
				root, closer := tally.NewRootScope(o, 0)
				sub := root.Tagged(map[string]string{"k": "v"})
				want := map[string]int64{}
				try := func(f func()) (failed bool) {
					defer func() {
						if r := recover(); r != nil {
							if _, ok := r.(ReporterPanic); !ok {
								panic(r)
							}
							failed = true
						}
					}()
					f()
					return false
				}
				v := int64(1)
				for _, op := range hist {
					steps++
					var failed, wantFail bool
					switch alphabet[op] {
					case "counter good":
						failed = try(func() { root.Counter("good").Inc(v) })
						want["good{}"] += v
					case "sub counter good":
						failed = try(func() { sub.Counter("good").Inc(v) })
						want[`good{"k":"v"}`] += v
					case "counter bad":
						failed, wantFail = try(func() { root.Counter("bad").Inc(v) }), true
					case "gauge bad":
						failed, wantFail = try(func() { root.Gauge("bad").Update(1) }), true
					case "timer bad":
						failed, wantFail = try(func() { root.Timer("bad").Record(1) }), true
					case "histogram bad":
						failed, wantFail = try(func() { root.Histogram("bad", tally.ValueBuckets{1}).RecordValue(1) }), true
					case "sub counter bad":
						failed, wantFail = try(func() { sub.Counter("bad").Inc(v) }), true
					case "pass":
						tally.VerifReportOnce(root)
					}
					if failed != wantFail {
						return "allocation-failure-not-passed-on", fmt.Sprintf("%v: step %q: panicked=%v", histLabels(alphabet, hist), alphabet[op], failed)
					}
					v *= 2
				}
				key = fmt.Sprint(hist) // (what a failed first use leaves behind is not in any model: no merging)
				n := len(rec.Log)
				err := closer.Close()
				steps++
				if err != errSentinel {
					return "close-error-not-returned", fmt.Sprintf("%v: Close returned %v", histLabels(alphabet, hist), err)
				}
				got := sumCounters(rec.Log, 0, len(rec.Log))
				for id, w := range want {
					if got[id] != w {
						return "not-delivered-before-close-returned", fmt.Sprintf("%v: counter %s: %d delivered when Close returned, %d recorded", histLabels(alphabet, hist), id, got[id], w)
					}
				}
				flushAt, closeAt, lastDelivery, closes := -1, -1, -1, 0
				for i, e := range rec.Log[n:] {
					switch {
					case e.Kind == "flush":
						flushAt = i
					case e.Kind == "close":
						closeAt = i
						closes++
					case isDelivery(e.Kind):
						lastDelivery = i
					}
				}
				if flushAt < 0 || flushAt < lastDelivery || closes != 1 || closeAt < flushAt {
					return "final-pass-flush-close-order", fmt.Sprintf("%v: in Close: last delivery at %d, flush at %d, %d reporter closes (last at %d)", histLabels(alphabet, hist), lastDelivery, flushAt, closes, closeAt)
				}
				return "", ""
			})
		})
		if ccl != "" {
			return ccl, fmt.Sprintf("%v (each first use of a metric named \"bad\" panics in the reporter's Allocate call and is recovered by the application), then Close: %s", histLabels(alphabet, hist), cdet), key, steps
		}
		return icl, idet, key, steps
	}
	j := &SeqJob{Property: "C08", Name: "failed-first-uses-then-close", Controlled: true, Shards: 2}
	j.Run = func(ctx *SeqCtx) { bfs(ctx, alphabet, depth, exec) }
	j.Replay = func(ops []string) (string, string) { c, d, _, _ := exec(opIndex(alphabet, ops)); return c, d }
	return j
}
