package main

import (
	"fmt"
	"time"

	tally "github.com/uber-go/tally/v4"
)

// c05PokedJob: identity is the library's business, not the caller's. Histories over one root in which the application
// derives scopes (eight derivations, two of them two spellings of one identity), asks again for metrics it already
// has - a histogram with the buckets of the first request, with buckets of the other flavour, with nil - and in
// between scribbles over everything a Snapshot handed to it (tag maps emptied and refilled). After every step:
// equal identity <=> same scope object, the metric asked for again is the object handed out first; at the end one
// pass delivers, for every identity, exactly what was recorded through it, under its own name and tags.
func c05PokedJob(tier string) *SeqJob {
	type deriv struct {
		label string
		do    func(r tally.Scope) tally.Scope
		pre   string
		tags  map[string]string
	}
	h1, h2, z := map[string]string{"host": "h1"}, map[string]string{"host": "h2"}, map[string]string{"z": "1"}
	ds := []deriv{
		{"root", func(r tally.Scope) tally.Scope { return r }, "p", map[string]string{"svc": "x"}},
		{"Tagged{host:h1}", func(r tally.Scope) tally.Scope { return r.Tagged(cloneTags(h1)) }, "p", map[string]string{"svc": "x", "host": "h1"}},
		{"Tagged{host:h2}", func(r tally.Scope) tally.Scope { return r.Tagged(cloneTags(h2)) }, "p", map[string]string{"svc": "x", "host": "h2"}},
		{"Tagged{host:h1}.Tagged{z:1}", func(r tally.Scope) tally.Scope { return r.Tagged(cloneTags(h1)).Tagged(cloneTags(z)) }, "p", map[string]string{"svc": "x", "host": "h1", "z": "1"}},
		{"Tagged{host:h2}.Tagged{z:1}", func(r tally.Scope) tally.Scope { return r.Tagged(cloneTags(h2)).Tagged(cloneTags(z)) }, "p", map[string]string{"svc": "x", "host": "h2", "z": "1"}},
		{"Tagged{host:h1,z:1}", func(r tally.Scope) tally.Scope { return r.Tagged(map[string]string{"host": "h1", "z": "1"}) }, "p", map[string]string{"svc": "x", "host": "h1", "z": "1"}},
		{"SubScope(a)", func(r tally.Scope) tally.Scope { return r.SubScope("a") }, "p.a", map[string]string{"svc": "x"}},
		{"SubScope(a).Tagged{host:h1}", func(r tally.Scope) tally.Scope { return r.SubScope("a").Tagged(cloneTags(h1)) }, "p.a", map[string]string{"svc": "x", "host": "h1"}},
	}
	var alphabet []string
	for _, d := range ds {
		alphabet = append(alphabet, "count on "+d.label)
	}
	nd := len(ds)
	hOn := []int{1, 3} // histograms are asked for on two of the derivations
	hKinds := []string{"value buckets", "duration buckets", "nil buckets"}
	for _, di := range hOn {
		for _, k := range hKinds {
			alphabet = append(alphabet, fmt.Sprintf("histogram h with %s on %s", k, ds[di].label))
		}
	}
	poke := len(alphabet)
	alphabet = append(alphabet, "scribble over a snapshot")
	vb, db := tally.ValueBuckets{1, 2}, tally.DurationBuckets{time.Second}
	cached := false
	exec := func(hist []int) (cl, det, key string, steps int) {
		cl, det = guard(func() (string, string) {
			rec := &Recorder{NoPoints: true}
			opts := tally.ScopeOptions{Prefix: "p", OmitCardinalityMetrics: true, Tags: map[string]string{"svc": "x"}}
			if cached {
				opts.CachedReporter = cachedRec{rec}
			} else {
				opts.Reporter = plainRec{rec}
			}
			root, _ := tally.VerifNewRootScope(opts, 0, 1)
			ident := func(d deriv) string { return d.pre + tagString(d.tags) }
			scopes := map[string]tally.Scope{}
			owner := map[tally.Scope]string{}
			counters := map[string]tally.Counter{}
			hists := map[string]tally.Histogram{}
			hfirst := map[string]string{}
			nc, nh := map[string]int64{}, map[string]int64{}
			where := func(k int) string {
				return fmt.Sprintf("%v (%s reporter), step %d", histLabels(alphabet, hist[:k+1]), map[bool]string{true: "cached", false: "plain"}[cached], k)
			}
			derive := func(d deriv, k int) (tally.Scope, string, string) {
				s := d.do(root)
				id := ident(d)
				if prev, ok := scopes[id]; ok && prev != s {
					return nil, "equal-identities-different-scopes", fmt.Sprintf("%s: %s denotes prefix %q tags %s, which was derived before, and returns another scope object", where(k), d.label, d.pre, tagString(d.tags))
				}
				if o, ok := owner[s]; ok && o != id {
					return nil, "distinct-identities-share-scope", fmt.Sprintf("%s: %s (identity %s) returns the scope object of identity %s", where(k), d.label, id, o)
				}
				scopes[id], owner[s] = s, id
				return s, "", ""
			}
			for k, op := range hist {
				steps++
				switch {
				case op < nd:
					d := ds[op]
					s, c, e := derive(d, k)
					if c != "" {
						return c, e
					}
					id := ident(d)
					ctr := s.Counter("m")
					if prev, ok := counters[id]; ok && prev != ctr {
						return "same-scope-different-metric", fmt.Sprintf("%s: asking %s for counter m again returned another object", where(k), d.label)
					}
					counters[id] = ctr
					ctr.Inc(1)
					nc[id]++
				case op < poke:
					d := ds[hOn[(op-nd)/len(hKinds)]]
					kind := hKinds[(op-nd)%len(hKinds)]
					s, c, e := derive(d, k)
					if c != "" {
						return c, e
					}
					id := ident(d)
					var b tally.Buckets
					switch kind {
					case "value buckets":
						b = vb
					case "duration buckets":
						b = db
					}
					h := s.Histogram("h", b)
					// (the very same request must give the very same object; whether a request with buckets of the other
					// flavour is "the same kind" is left open: nothing is demanded of it, and nothing recorded through it)
					if prev, ok := hists[id]; ok && prev != h && kind == hfirst[id] {
						return "same-scope-different-metric", fmt.Sprintf("%s: asking %s for histogram h with %s, exactly as the first time, returned another object than the first time", where(k), d.label, kind)
					}
					if _, ok := hists[id]; !ok {
						hists[id], hfirst[id] = h, kind
					}
					if h != hists[id] {
						continue
					}
					// one sample of the flavour the histogram was created with
					if hfirst[id] == "value buckets" {
						h.RecordValue(1.5)
					} else {
						h.RecordDuration(time.Millisecond)
					}
					nh[id]++
				default:
					ts, ok := root.(interface{ Snapshot() tally.Snapshot })
					if !ok {
						return "", ""
					}
					snap := ts.Snapshot()
					scribble := func(m map[string]string) {
						for key := range m {
							delete(m, key)
						}
						m["scribbled"] = "over"
					}
					for _, c := range snap.Counters() {
						scribble(c.Tags())
					}
					for _, g := range snap.Gauges() {
						scribble(g.Tags())
					}
					for _, t := range snap.Timers() {
						scribble(t.Tags())
					}
					for _, h := range snap.Histograms() {
						scribble(h.Tags())
						for b := range h.Values() {
							delete(h.Values(), b)
						}
						for b := range h.Durations() {
							delete(h.Durations(), b)
						}
					}
				}
			}
			// every derivation once more: the table still holds
			for _, d := range ds {
				if _, c, e := derive(d, len(hist)-1); c != "" {
					return c, e + " (derived once more at the end)"
				}
			}
			tally.VerifReportOnce(root)
			got := sumCounters(rec.Log, 0, len(rec.Log))
			gotH := map[string]int64{}
			for i := range rec.Log {
				if e := &rec.Log[i]; e.Kind == "hvalue" || e.Kind == "hduration" {
					gotH[e.ID()] += e.I
				}
			}
			for _, d := range ds {
				id := ident(d)
				if w := nc[id]; got[d.pre+".m"+tagString(d.tags)] != w {
					return "delivered-under-wrong-identity", fmt.Sprintf("%s: counter m of prefix %q tags %s: %d recorded, %d delivered under that name and those tags; all counter deliveries %v", where(len(hist)-1), d.pre, tagString(d.tags), w, got[d.pre+".m"+tagString(d.tags)], got)
				}
				if w := nh[id]; gotH[d.pre+".h"+tagString(d.tags)] != w {
					return "delivered-under-wrong-identity", fmt.Sprintf("%s: histogram h of prefix %q tags %s: %d samples recorded through the handles, %d delivered under that name and those tags; all histogram deliveries %v", where(len(hist)-1), d.pre, tagString(d.tags), w, gotH[d.pre+".h"+tagString(d.tags)], gotH)
				}
			}
			var total, want int64
			for _, v := range got {
				total += v
			}
			for _, v := range nc {
				want += v
			}
			if total != want {
				return "delivered-under-wrong-identity", fmt.Sprintf("%s: %d increments recorded, %d delivered in all: %v", where(len(hist)-1), want, total, got)
			}
			return "", ""
		})
		key = fmt.Sprint(cached, hist) // what a scribble did shows later: no merging
		return
	}
	depth := tierInt(tier, 4, 5)
	j := &SeqJob{Property: "C05", Name: "derivations-repeated-requests-and-scribbled-snapshots", Shards: tierInt(tier, 4, 8)}
	j.Run = func(ctx *SeqCtx) {
		for _, c := range []bool{false, true} {
			cached = c
			ctx.OpsPrefix = []string{fmt.Sprint(c)}
			ctx.ResetSeen()
			bfs(ctx, alphabet, depth, exec)
			if ctx.viol != nil || ctx.st.TimedOut {
				break
			}
		}
		cached = false
	}
	j.Replay = func(ops []string) (string, string) {
		fmt.Sscan(ops[0], &cached)
		defer func() { cached = false }()
		c, d, _, _ := exec(opIndex(alphabet, ops[1:]))
		return c, d
	}
	return j
}
