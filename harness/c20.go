package main

import (
	"fmt"
	"math"
	"strings"
	"time"

	tally "github.com/uber-go/tally/v4"
	rt "github.com/uber-go/tally/v4/verifrt"
)

func didPanic(f func()) (p bool) {
	defer func() {
		if recover() != nil {
			p = true
		}
	}()
	f()
	return false
}

func c20ConstructorJob() *SeqJob {
	ns := []int{-1, 0}
	for n := 1; n <= 40; n++ { // every count up to 40, then the 64 of the largest layouts in use
		ns = append(ns, n)
	}
	ns = append(ns, 64)
	starts := []float64{-2, 0, 0.25, 1, 3}
	widths := []float64{-1, 0, 0.5, 2}
	factors := []float64{-1, 0.5, 1, 1.5, 2}
	j := &SeqJob{Property: "C20", Name: "constructors-product"}
	check := func(kind string, n int, start, w float64) (string, string) {
		desc := fmt.Sprintf("%s(start=%v, step=%v, n=%d)", kind, start, w, n)
		switch kind {
		case "LinearValueBuckets":
			b, err := tally.LinearValueBuckets(start, w, n)
			wantErr := n <= 0
			if (err != nil) != wantErr {
				return "constructor-error-condition", fmt.Sprintf("%s: err=%v", desc, err)
			}
			if p := didPanic(func() { tally.MustMakeLinearValueBuckets(start, w, n) }); p != wantErr {
				return "must-variant-panic-condition", fmt.Sprintf("%s: panicked=%v, plain variant err=%v", desc, p, err)
			}
			if err == nil {
				if len(b) != n {
					return "constructor-length", fmt.Sprintf("%s: %d bounds", desc, len(b))
				}
				cur := start
				for i := range b {
					if b[i] != cur {
						return "constructor-recurrence", fmt.Sprintf("%s: bound %d is %v, recurrence gives %v", desc, i, b[i], cur)
					}
					cur += w
				}
			}
		case "ExponentialValueBuckets":
			b, err := tally.ExponentialValueBuckets(start, w, n)
			wantErr := n <= 0 || start <= 0 || w <= 1
			if (err != nil) != wantErr {
				return "constructor-error-condition", fmt.Sprintf("%s: err=%v", desc, err)
			}
			if p := didPanic(func() { tally.MustMakeExponentialValueBuckets(start, w, n) }); p != wantErr {
				return "must-variant-panic-condition", fmt.Sprintf("%s: panicked=%v, plain variant err=%v", desc, p, err)
			}
			if err == nil {
				if len(b) != n {
					return "constructor-length", fmt.Sprintf("%s: %d bounds", desc, len(b))
				}
				cur := start
				for i := range b {
					if b[i] != cur {
						return "constructor-recurrence", fmt.Sprintf("%s: bound %d is %v, recurrence gives %v", desc, i, b[i], cur)
					}
					cur *= w
				}
			}
		case "LinearDurationBuckets":
			s, wd := time.Duration(start*float64(time.Second)), time.Duration(w*float64(time.Second))
			b, err := tally.LinearDurationBuckets(s, wd, n)
			wantErr := n <= 0
			if (err != nil) != wantErr {
				return "constructor-error-condition", fmt.Sprintf("%s: err=%v", desc, err)
			}
			if p := didPanic(func() { tally.MustMakeLinearDurationBuckets(s, wd, n) }); p != wantErr {
				return "must-variant-panic-condition", fmt.Sprintf("%s: panicked=%v, plain variant err=%v", desc, p, err)
			}
			if err == nil {
				if len(b) != n {
					return "constructor-length", fmt.Sprintf("%s: %d bounds", desc, len(b))
				}
				cur := s
				for i := range b {
					if b[i] != cur {
						return "constructor-recurrence", fmt.Sprintf("%s: bound %d is %v, recurrence gives %v", desc, i, b[i], cur)
					}
					cur += wd
				}
			}
		case "ExponentialDurationBuckets":
			s := time.Duration(start * float64(time.Second))
			b, err := tally.ExponentialDurationBuckets(s, w, n)
			wantErr := n <= 0 || s <= 0 || w <= 1
			if (err != nil) != wantErr {
				return "constructor-error-condition", fmt.Sprintf("%s: err=%v", desc, err)
			}
			if p := didPanic(func() { tally.MustMakeExponentialDurationBuckets(s, w, n) }); p != wantErr {
				return "must-variant-panic-condition", fmt.Sprintf("%s: panicked=%v, plain variant err=%v", desc, p, err)
			}
			if err == nil {
				if len(b) != n {
					return "constructor-length", fmt.Sprintf("%s: %d bounds", desc, len(b))
				}
				// a Duration is an integer: the recurrence is "multiply, truncate to a Duration"
				cur := s
				for i := range b {
					if math.Abs(float64(cur)) >= 1<<62 {
						break // beyond int64: the statement does not define overflow
					}
					if b[i] != cur {
						return "constructor-recurrence", fmt.Sprintf("%s: bound %d is %d, recurrence gives %d", desc, i, int64(b[i]), int64(cur))
					}
					cur = time.Duration(float64(cur) * w)
				}
			}
		}
		return "", ""
	}
	kinds := []string{"LinearValueBuckets", "ExponentialValueBuckets", "LinearDurationBuckets", "ExponentialDurationBuckets"}
	j.Run = func(ctx *SeqCtx) {
		for _, k := range kinds {
			ctx.Alphabet(k)
			steps := widths
			if k[0] == 'E' {
				steps = factors
			}
			for _, n := range ns {
				for _, s := range starts {
					for _, w := range steps {
						cl, det := guard(func() (string, string) { return check(k, n, s, w) })
						ops := []string{k, fmt.Sprint(n), fmt.Sprint(s), fmt.Sprint(w)}
						ctx.Case(2, n > 0, func() string { return fmt.Sprint(ops) })
						ctx.State(fmt.Sprint(ops))
						if cl != "" {
							ctx.Fail(cl, det, ops)
							if ctx.viol != nil {
								return
							}
						}
					}
				}
			}
		}
		ctx.DepthDone(1)
	}
	j.Replay = func(ops []string) (string, string) {
		var n int
		var s, w float64
		fmt.Sscan(ops[1], &n)
		fmt.Sscan(ops[2], &s)
		fmt.Sscan(ops[3], &w)
		return guard(func() (string, string) { return check(ops[0], n, s, w) })
	}
	return j
}

// zeroIdentitySum: the sum of element bit patterns for which 23 + 31*sum = 0 (mod 2^64).
var zeroIdentitySum = func() uint64 {
	// 31^-1 mod 2^64 by Newton iteration
	inv := uint64(31)
	for i := 0; i < 6; i++ {
		inv *= 2 - 31*inv
	}
	return (^uint64(23) + 1) * inv
}()

type c20Spec struct {
	name string
	v    []float64
	d    []time.Duration
	dur  bool
	nil_ bool
	// reuse: the bounds are written into the very slice the previous creation of this kind and length handed over
	// (an application that builds its bucket sets in one scratch slice), and that slice is passed again
	reuse bool
	// shared: the bounds are a prefix (n > 0: the first n) or the whole (n < 0) of ONE array {1,2,3,4} / {1ns,..,4ns} that
	// the application keeps for the run: a sorted prefix has spare capacity that belongs to the rest of the array
	shared int
}

func c20Specs() []c20Spec {
	b := func(f float64) time.Duration { return time.Duration(math.Float64bits(f)) }
	return []c20Spec{
		{name: "V{1,4}", v: []float64{1, 4}},
		{name: "V{4,1}", v: []float64{4, 1}},
		// two sets that print alike with six decimals (a cache keyed by the printed set cannot tell them apart)
		{name: "V{1.0000001,2}", v: []float64{1.0000001, 2}},
		{name: "V{1.0000004,2}", v: []float64{1.0000004, 2}},
		{name: "V{1,2} the first two of a shared array {1,2,3,4}", v: []float64{1, 2}, shared: 2},
		{name: "V{1,2,3,4} the whole shared array", v: []float64{1, 2, 3, 4}, shared: -1},
		{name: "D{1,2} the first two of a shared array {1,2,3,4}", d: []time.Duration{1, 2}, dur: true, shared: 2},
		{name: "D{1,2,3,4} the whole shared array", d: []time.Duration{1, 2, 3, 4}, dur: true, shared: -1},
		{name: "V{0.5,8}", v: []float64{0.5, 8}},
		{name: "V{2,2}", v: []float64{2, 2}},
		{name: "V{1,2,2}", v: []float64{1, 2, 2}},
		{name: "V{2,1,2}", v: []float64{2, 1, 2}},
		{name: "V{1}", v: []float64{1}},
		{name: "D{1,4}", d: []time.Duration{1, 4}, dur: true},
		{name: "D{2,3}", d: []time.Duration{2, 3}, dur: true},
		{name: "D{5}", d: []time.Duration{5}, dur: true},
		{name: "D{bits(1.0)}", d: []time.Duration{b(1)}, dur: true},
		{name: "D{bits(1),bits(4)}", d: []time.Duration{b(1), b(4)}, dur: true},
		{name: "nil", nil_: true, dur: true},
		// identity = 23 + 31*sum(bits) = 0 mod 2^64: collides with the identity of the empty set
		{name: "V{zero-identity}", v: []float64{math.Float64frombits(zeroIdentitySum)}},
		{name: "V{x,1 zero-identity}", v: []float64{math.Float64frombits(zeroIdentitySum - math.Float64bits(1.0)), 1}},
		{name: "D{2s,x zero-identity}", d: []time.Duration{2 * time.Second, time.Duration(zeroIdentitySum) - 2*time.Second}, dur: true},
		{name: "V{} empty", v: []float64{}},
		// as many bounds and the same identity as a set built only from its members
		{name: "V{1,2,4}", v: []float64{1, 2, 4}},
		{name: "V{2,2,2}", v: []float64{2, 2, 2}},
		{name: "D{1,2,3,4}", d: []time.Duration{1, 2, 3, 4}, dur: true},
		{name: "D{1,1,4,4}", d: []time.Duration{1, 1, 4, 4}, dur: true},
		// a zero bound adds nothing to the identity: sets of different length that collide
		{name: "D{0,10,20}", d: []time.Duration{0, 10, 20}, dur: true},
		{name: "D{10,20}", d: []time.Duration{10, 20}, dur: true},
		{name: "V{0.5,8} written into the previous slice", v: []float64{0.5, 8}, reuse: true},
		{name: "D{2,3} written into the previous slice", d: []time.Duration{2, 3}, dur: true, reuse: true},
	}
}

func c20Jobs(tier string) []*SeqJob {
	specs := c20Specs()
	depth := tierInt(tier, 3, 4)
	builtin := []time.Duration{0, 10 * time.Millisecond, 25 * time.Millisecond, 50 * time.Millisecond, 75 * time.Millisecond, 100 * time.Millisecond, 200 * time.Millisecond,
		300 * time.Millisecond, 400 * time.Millisecond, 500 * time.Millisecond, 600 * time.Millisecond, 800 * time.Millisecond, time.Second, 2 * time.Second, 5 * time.Second}
	// ScopeOptions.DefaultBuckets: unset (the built-in duration defaults), value bounds in no particular order, duration
	// bounds. A histogram asked for with nil buckets - on the root or on a derived scope - gets exactly those.
	defaultSets := []tally.Buckets{nil, tally.ValueBuckets{3, 1, 2}, tally.DurationBuckets{5, 1}}
	defi := 0
	run := func(path histPath, seq []int) (string, string, int) {
		e := newHistEnv(path, copyBucketsArg(defaultSets[defi]))
		root := e.root
		sub := root.SubScope("s")
		total := 0
		var lastV []float64
		var lastD []time.Duration
		sharedV, sharedD := []float64{1, 2, 3, 4}, []time.Duration{1, 2, 3, 4}
		for i, k := range seq {
			sp := specs[k]
			if i%2 == 1 {
				e.root = sub
			} else {
				e.root = root
			}
			name := fmt.Sprintf("h%d", i)
			var cl, det string
			var st int
			// checkXHistogram runs passes on e.root: passes must run on the real root
			env := *e
			env.root = root
			scope := e.root
			_ = scope
			switch {
			case sp.nil_ && defi == 1:
				cl, det, st = checkValueHistogramOn(&env, e.root, name, nil, []float64{3, 1, 2})
			case sp.nil_ && defi == 2:
				cl, det, st = checkDurationHistogramOn(&env, e.root, name, nil, []time.Duration{5, 1})
			case sp.nil_:
				cl, det, st = checkDurationHistogramOn(&env, e.root, name, nil, builtin)
			case sp.dur && sp.shared != 0:
				arg := sharedD
				if sp.shared > 0 {
					arg = sharedD[:sp.shared]
				}
				cl, det, st = checkDurationHistogramOn(&env, e.root, name, tally.DurationBuckets(arg), sp.d)
			case sp.shared != 0:
				arg := sharedV
				if sp.shared > 0 {
					arg = sharedV[:sp.shared]
				}
				cl, det, st = checkValueHistogramOn(&env, e.root, name, tally.ValueBuckets(arg), sp.v)
			case sp.dur:
				arg := append([]time.Duration{}, sp.d...)
				if sp.reuse && len(lastD) == len(sp.d) {
					copy(lastD, sp.d)
					arg = lastD
				}
				lastD = arg
				cl, det, st = checkDurationHistogramOn(&env, e.root, name, tally.DurationBuckets(arg), sp.d)
			default:
				arg := append([]float64{}, sp.v...)
				if sp.reuse && len(lastV) == len(sp.v) {
					copy(lastV, sp.v)
					arg = lastV
				}
				lastV = arg
				cl, det, st = checkValueHistogramOn(&env, e.root, name, tally.ValueBuckets(arg), sp.v)
			}
			total += st
			if cl != "" {
				return "histogram-" + fmt.Sprint(i) + "-of-sequence: " + cl, fmt.Sprintf("creation sequence %v: histogram %d (%s): %s", seqNames(specs, seq), i, sp.name, det), total
			}
		}
		return "", "", total
	}
	j := &SeqJob{Property: "C20", Name: "creation-sequences-colliding-specs", Shards: tierInt(tier, 4, 16)}
	j.Run = func(ctx *SeqCtx) {
		for _, s := range specs {
			ctx.Alphabet(s.name)
		}
		n := 0
		enumSeqs(len(specs), depth, func(seq []int) bool {
			n++
			if len(seq) == 0 || !ctx.Mine(n) {
				return true
			}
			if ctx.Expired() {
				return false
			}
			for _, path := range []histPath{pathPlain, pathCached} {
				if len(seq) == depth && path == pathPlain && depth >= 3 {
					continue
				}
				hasNil := false
				for _, k := range seq {
					hasNil = hasNil || specs[k].nil_
				}
				for defi = 0; defi < len(defaultSets); defi++ {
					if defi > 0 && !hasNil {
						break // configured defaults only matter to histograms that ask for them
					}
					sq := append([]int{}, seq...)
					steps := 0
					cl, det := guard(func() (string, string) { a, b, s := run(path, sq); steps = s; return a, b })
					ops := []string{fmt.Sprintf("%s defaults=%d", path.String(), defi)}
					for _, k := range sq {
						ops = append(ops, specs[k].name)
					}
					ctx.Case(steps, len(sq) > 1, func() string { return fmt.Sprint(ops) })
					ctx.State(fmt.Sprint(ops))
					if cl != "" {
						// the clause must not depend on the position in the sequence
						ctx.Fail(c20StripPos(cl), det, ops)
						if ctx.viol != nil {
							defi = 0
							return false
						}
					}
				}
				defi = 0
			}
			return true
		})
		if !ctx.st.TimedOut && ctx.viol == nil {
			ctx.DepthDone(depth)
		}
	}
	j.Replay = func(ops []string) (string, string) {
		path := pathPlain
		var ps string
		defi = 0
		fmt.Sscanf(ops[0], "%s defaults=%d", &ps, &defi)
		defer func() { defi = 0 }()
		if ps == "cached" {
			path = pathCached
		}
		var seq []int
		for _, o := range ops[1:] {
			for i, s := range specs {
				if s.name == o {
					seq = append(seq, i)
				}
			}
		}
		cl, det := guard(func() (string, string) { a, b, _ := run(path, seq); return a, b })
		return c20StripPos(cl), det
	}
	return []*SeqJob{c20ConstructorJob(), j, c20BucketPairsJob(tier)}
}

func seqNames(specs []c20Spec, seq []int) []string {
	out := make([]string, len(seq))
	for i, k := range seq {
		out[i] = specs[k].name
	}
	return out
}

// c20Scenarios: concurrent creation of histograms whose specs collide in the bucket cache.
func c20Scenarios(tier string) []*Scenario {
	var out []*Scenario
	type pair struct {
		name   string
		a, b   tally.Buckets
		sa, sb []float64
	}
	pairs := []pair{
		{"V{1,4,9}-vs-V{0.5,8,9}", tally.ValueBuckets{1, 4, 9}, tally.ValueBuckets{0.5, 8, 9}, []float64{1, 4, 9}, []float64{0.5, 8, 9}},
		{"V{4,1}-vs-V{1,4}", tally.ValueBuckets{4, 1}, tally.ValueBuckets{1, 4}, []float64{4, 1}, []float64{1, 4}},
	}
	if tier == "thorough" {
		pairs = append(pairs, pair{"V{2,2}-vs-V{1,4}", tally.ValueBuckets{2, 2}, tally.ValueBuckets{1, 4}, []float64{2, 2}, []float64{1, 4}})
	}
	for _, p := range pairs {
		p := p
		for _, cached := range []bool{true, false} {
			cached := cached
			if !cached && tier != "thorough" {
				continue
			}
			sc := &Scenario{Property: "C20", Name: "H-concurrent-creation-" + p.name + "-" + b2s(cached)}
			sc.Body = func(x *Run) {
				rec := &Recorder{}
				x.Rec = rec
				root, _ := tally.VerifNewRootScope(scopeOpts(rec, cached, false), 0, 1)
				sub := root.SubScope("s")
				t1 := rt.GoNamed("mkA", func() { root.Histogram("ha", p.a).RecordValue(0.75) })
				t2 := rt.GoNamed("mkB", func() { sub.Histogram("hb", p.b).RecordValue(0.75) })
				t1.Join()
				t2.Join()
				tally.VerifReportOnce(root)
			}
			sc.Check = func(x *Run, o *rt.Outcome) (string, string, string) {
				for _, w := range []struct {
					name string
					spec []float64
				}{{"ha", p.sa}, {"s.hb", p.sb}} {
					ref := refValueUppers(w.spec)
					want := refValueBucket(ref, 0.75)
					n := 0
					for _, e := range x.Rec.Log {
						if e.Kind == "hvalue" && e.Name == w.name {
							n++
							lo := -math.MaxFloat64
							if want > 0 {
								lo = ref[want-1]
							}
							if e.HiF != ref[want] || e.LoF != lo || e.I != 1 {
								return "histogram-uses-foreign-bounds", fmt.Sprintf("histogram %s created with %v delivered its 0.75 sample in (%v,%v], want (%v,%v]", w.name, w.spec, e.LoF, e.HiF, lo, ref[want]), "viol"
							}
						}
					}
					if n != 1 {
						return "histogram-sample-lost", fmt.Sprintf("histogram %s: %d deliveries", w.name, n), "viol"
					}
				}
				return "", "", deliveredOutcome(x.Rec.Log)
			}
			out = append(out, sc)
		}
	}
	return out
}

// copyBucketsArg returns a fresh copy of a bucket set for one execution (nil stays nil).
func copyBucketsArg(b tally.Buckets) tally.Buckets {
	switch v := b.(type) {
	case tally.ValueBuckets:
		return append(tally.ValueBuckets{}, v...)
	case tally.DurationBuckets:
		return append(tally.DurationBuckets{}, v...)
	}
	return nil
}

// c20StripPos removes the "histogram-<i>-of-sequence: " prefix of a clause (a panic has none).
func c20StripPos(cl string) string {
	if strings.HasPrefix(cl, "histogram-") && len(cl) > len("histogram-0-of-sequence: ") {
		return cl[len("histogram-0-of-sequence: "):]
	}
	return cl
}

// c20BucketPairsJob: the exported BucketPairs (what reporters call on the bucket set a scope hands them - the
// caller's own slice) on every bound sequence up to a length, value and duration: the pairs tile the line in
// ascending order and the slice that was passed in is bit for bit what it was (also after a second call).
func c20BucketPairsJob(tier string) *SeqJob {
	L := tierInt(tier, 4, 6)
	va, da := c03ValueAlphabet(), c03DurationAlphabet()
	run := func(kind string, idx []int) (string, string) {
		if kind == "value" {
			spec := make([]float64, len(idx))
			for i, k := range idx {
				spec[i] = va[k]
			}
			// (the slice handed over has spare capacity that belongs to the caller: two more elements behind its end)
			backing := make([]float64, len(spec)+2)
			copy(backing, spec)
			backing[len(spec)], backing[len(spec)+1] = 777, 778
			arg := tally.ValueBuckets(backing[:len(spec)])
			for call := 0; call < 2; call++ {
				pairs := tally.BucketPairs(arg)
				for i := range spec {
					if math.Float64bits(arg[i]) != math.Float64bits(spec[i]) {
						return "caller-slice-modified", fmt.Sprintf("BucketPairs changed the slice it was given: %v -> %v", spec, []float64(arg))
					}
				}
				if backing[len(spec)] != 777 || backing[len(spec)+1] != 778 {
					return "caller-slice-modified", fmt.Sprintf("BucketPairs wrote behind the end of the slice it was given (into its spare capacity): %v", backing)
				}
				var lo, hi []float64
				for _, p := range pairs {
					lo, hi = append(lo, p.LowerBoundValue()), append(hi, p.UpperBoundValue())
				}
				if cl, d := valueLayoutCheck(lo, hi, spec); cl != "" {
					return "pairs-" + cl, fmt.Sprintf("call %d: %s", call, d)
				}
			}
			return "", ""
		}
		spec := make([]time.Duration, len(idx))
		for i, k := range idx {
			spec[i] = da[k]
		}
		backing := make([]time.Duration, len(spec)+2)
		copy(backing, spec)
		backing[len(spec)], backing[len(spec)+1] = 777, 778
		arg := tally.DurationBuckets(backing[:len(spec)])
		for call := 0; call < 2; call++ {
			pairs := tally.BucketPairs(arg)
			for i := range spec {
				if arg[i] != spec[i] {
					return "caller-slice-modified", fmt.Sprintf("BucketPairs changed the slice it was given: %v -> %v", spec, []time.Duration(arg))
				}
			}
			if backing[len(spec)] != 777 || backing[len(spec)+1] != 778 {
				return "caller-slice-modified", fmt.Sprintf("BucketPairs wrote behind the end of the slice it was given (into its spare capacity): %v", backing)
			}
			var lo, hi []time.Duration
			for _, p := range pairs {
				lo, hi = append(lo, p.LowerBoundDuration()), append(hi, p.UpperBoundDuration())
			}
			if cl, d := durationLayoutCheck(lo, hi, spec); cl != "" {
				return "pairs-" + cl, fmt.Sprintf("call %d: %s", call, d)
			}
		}
		return "", ""
	}
	j := &SeqJob{Property: "C20", Name: "bucket-pairs-of-every-bound-sequence", Shards: tierInt(tier, 2, 4)}
	j.Run = func(ctx *SeqCtx) {
		n := 0
		for _, kind := range []string{"value", "duration"} {
			kind := kind
			enumSeqs(len(va), L, func(seq []int) bool {
				n++
				if len(seq) == 0 || !ctx.Mine(n) {
					return true
				}
				if ctx.Expired() {
					return false
				}
				idx := append([]int{}, seq...)
				cl, det := guard(func() (string, string) { return run(kind, idx) })
				ops := []string{kind}
				for _, k := range idx {
					ops = append(ops, fmt.Sprint(k))
				}
				ctx.Case(2, len(idx) > 1, func() string { return fmt.Sprint(ops) })
				ctx.State(fmt.Sprint(ops))
				if cl != "" {
					ctx.Fail(cl, det, ops)
					return ctx.viol == nil
				}
				return true
			})
			if ctx.viol != nil {
				return
			}
		}
		ctx.Alphabet(fmt.Sprintf("value bounds %v", va), fmt.Sprintf("duration bounds %v", da))
		if !ctx.st.TimedOut {
			ctx.DepthDone(L)
		}
	}
	j.Replay = func(ops []string) (string, string) {
		var idx []int
		for _, o := range ops[1:] {
			var k int
			fmt.Sscan(o, &k)
			idx = append(idx, k)
		}
		return guard(func() (string, string) { return run(ops[0], idx) })
	}
	return j
}
