package main

import (
	"time"

	rt "github.com/uber-go/tally/v4/verifrt"
)

func timeDur(n int64) time.Duration { return time.Duration(n) }

func sortStrings(s []string) {
	for i := 1; i < len(s); i++ {
		for j := i; j > 0 && s[j] < s[j-1]; j-- {
			s[j], s[j-1] = s[j-1], s[j]
		}
	}
}

func rtLiveLibraryThreads() []string { return rt.LiveLibraryThreads() }
