package main

import "time"

func timeDur(n int64) time.Duration { return time.Duration(n) }
