package main

import (
	"fmt"
	"github.com/uber-go/tally/v4/m3"
	"math"
	"strings"
	"sync"
	"time"

	tally "github.com/uber-go/tally/v4"
	rt "github.com/uber-go/tally/v4/verifrt"
)

func c09Scenarios(tier string) []*Scenario {
	var out []*Scenario
	kinds := []string{"counter", "gauge", "timer", "histogram", "tagged", "subscope", "mixed", "tagged+victim", "tagged+stale", "two-long-identities", "gauge+lookup",
		// first uses of DIFFERENT names of one scope at the same time: of two kinds (whatever the kinds share - a list of
		// what to report, say - must take both), and two of the same kind (a table that is copied on write must not lose one)
		"counter+gauge", "two-timers", "two-histograms",
		// derivations that add nothing, on a root without prefix and tags (the one scope whose registry key is empty)
		"root-identity"}
	type variant struct {
		kind    string
		cached  bool
		shards  uint
		threads int
		onSub   bool
		wpref   bool
	}
	var vs []variant
	for i, k := range kinds {
		vs = append(vs, variant{kind: k, cached: i%2 == 0, shards: 1, threads: 2})
	}
	// several registry shards: the scopes asked for live in shards nobody has used yet
	vs = append(vs, variant{kind: "tagged", cached: false, shards: 8, threads: 2}, variant{kind: "subscope", cached: true, shards: 8, threads: 2})
	// (the kinds above alternate between the plain and the cached path by position; these two on the other path too)
	vs = append(vs, variant{kind: "counter+gauge", cached: true, shards: 1, threads: 2}, variant{kind: "two-timers", cached: true, shards: 1, threads: 2})
	// (round 12, C09-12a: an Allocate call moved in front of the lock of one kind only - every single kind on the cached path
	// in the quick tier as well; counter and timer are there by position)
	vs = append(vs, variant{kind: "histogram", cached: true, shards: 1, threads: 2}, variant{kind: "gauge", cached: true, shards: 1, threads: 2})
	if tier == "thorough" {
		for i, k := range kinds {
			vs = append(vs, variant{kind: k, cached: i%2 == 1, shards: 2, threads: 2, onSub: true})
		}
		vs = append(vs, variant{kind: "counter", cached: true, shards: 1, threads: 3}, variant{kind: "tagged", cached: true, shards: 1, threads: 3},
			variant{kind: "histogram", cached: true, shards: 1, threads: 2, wpref: true}, variant{kind: "tagged", cached: false, shards: 1, threads: 2, wpref: true})
	}
	for _, v := range vs {
		v := v
		sc := &Scenario{Property: "C09", WPref: v.wpref,
			Name: fmt.Sprintf("N-first-use-%s-%s-shards=%d-threads=%d-sub=%v-wpref=%v", v.kind, b2s(v.cached), v.shards, v.threads, v.onSub, v.wpref)}
		sc.Body = func(x *Run) {
			rec := &Recorder{}
			x.Rec = rec
			root, _ := tally.VerifNewRootScope(scopeOpts(rec, v.cached, false), 0, v.shards)
			var s tally.Scope = root
			if v.onSub {
				s = root.SubScope("p")
			}
			y := s.Counter("y") // already registered metric used by the mixed variant
			if v.kind == "tagged+stale" {
				// the registry still holds a closed (stale) scope of the very identity the threads ask for
				closeScope(s.Tagged(map[string]string{"t": "1"}))
			}
			if v.kind == "tagged+victim" {
				// a closed subscope in the same registry bucket, removed by the concurrent pass
				closeScope(root.Tagged(map[string]string{"victim": "1"}))
			}
			objs := make([]interface{}, v.threads)
			// the start and the return of every gauge update, in order (scenario bodies also run free, hence the lock)
			var gev []string
			var gevMu sync.Mutex
			gaugeEv := func(e string) {
				gevMu.Lock()
				gev = append(gev, e)
				gevMu.Unlock()
			}
			var ths []*rt.Thread
			for i := 0; i < v.threads; i++ {
				i := i
				ths = append(ths, rt.GoNamed(fmt.Sprintf("user%d", i), func() {
					val := int64(1) << uint(i)
					switch v.kind {
					case "counter":
						m := s.Counter("x")
						m.Inc(val)
						objs[i] = m
					case "gauge":
						m := s.Gauge("x")
						gaugeEv(fmt.Sprintf("s%d", i))
						m.Update(float64(val))
						gaugeEv(fmt.Sprintf("d%d", i))
						objs[i] = m
					case "gauge+lookup":
						// one goroutine makes the first use and nothing else (it may sit in the reporter's Allocate call for a
						// while), the other looks the gauge up and updates it - the only update there is
						m := s.Gauge("x")
						if i == 1 {
							m.Update(7)
						}
						objs[i] = m
					case "root-identity":
						var c tally.Scope
						if i == 0 {
							c = s.Tagged(nil)
						} else {
							c = s.Tagged(map[string]string{})
						}
						c.Counter("x").Inc(val)
						objs[i] = c
					case "counter+gauge":
						if i == 0 {
							s.Counter("x").Inc(val)
						} else {
							s.Gauge("g").Update(7)
						}
					case "two-timers":
						m := s.Timer(fmt.Sprint("t", i))
						m.Record(time.Duration(val))
						objs[i] = m
					case "two-histograms":
						m := s.Histogram(fmt.Sprint("h", i), tally.ValueBuckets{1, 4})
						m.RecordValue(2.5)
						objs[i] = m
					case "timer":
						m := s.Timer("x")
						m.Record(time.Duration(val))
						objs[i] = m
					case "histogram":
						// same name, different (colliding-identity) bucket arguments: first one wins, one object
						var b tally.Buckets = tally.ValueBuckets{1, 4}
						if i%2 == 1 {
							b = tally.ValueBuckets{2, 3}
						}
						m := s.Histogram("x", b)
						m.RecordValue(2.5)
						objs[i] = m
					case "tagged", "tagged+victim", "tagged+stale":
						c := s.Tagged(map[string]string{"t": "1"})
						c.Counter("x").Inc(val)
						objs[i] = c
					case "two-long-identities":
						// two DIFFERENT new identities at once whose registry keys are longer than any fixed-size key buffer
						c := s.Tagged(map[string]string{"t": strings.Repeat("v", 300) + fmt.Sprint(i)})
						c.Counter("x").Inc(val)
						objs[i] = c
					case "subscope":
						c := s.SubScope("q")
						c.Counter("x").Inc(val)
						objs[i] = c
					case "mixed":
						if i == 0 {
							m := s.Counter("x")
							m.Inc(val)
						} else {
							y.Inc(val)
						}
					}
				}))
			}
			p := rt.GoNamed("pass", func() { tally.VerifReportOnce(root) })
			for _, t := range ths {
				t.Join()
			}
			p.Join()
			x.Vals["gauge-events"] = gev
			tally.VerifReportOnce(root)
			if v.kind == "two-timers" || v.kind == "two-histograms" {
				// asking again returns the object handed out at first use (a metric that dropped out of its scope's table
				// would be created a second time, and what was recorded through the first handle would be gone)
				for i := 0; i < v.threads; i++ {
					var again interface{}
					if v.kind == "two-timers" {
						again = s.Timer(fmt.Sprint("t", i))
					} else {
						again = s.Histogram(fmt.Sprint("h", i), tally.ValueBuckets{1, 4})
						again.(tally.Histogram).RecordValue(0.5)
					}
					if again != objs[i] {
						x.failf("different-objects", "the %s first used by goroutine %d next to another goroutine's first use of another name is not the one the scope hands out afterwards", v.kind[4:len(v.kind)-1], i)
					}
				}
				if v.kind == "two-histograms" {
					tally.VerifReportOnce(root)
				}
			} else if v.kind == "counter+gauge" {
			} else if v.kind == "two-long-identities" {
				if objs[0] == objs[1] {
					x.failf("distinct-identities-share-scope", "two different long tag values were given one scope")
				}
			} else if v.kind != "mixed" {
				for i := 1; i < v.threads; i++ {
					if objs[i] != objs[0] {
						x.failf("different-objects", "concurrent first users of one %s identity received different objects", v.kind)
					}
				}
			}
		}
		sc.Check = func(x *Run, o *rt.Outcome) (string, string, string) {
			log := x.Rec.Log
			allocs := map[string]int{}
			for _, e := range log {
				switch e.Kind {
				case "alloc-counter", "alloc-gauge", "alloc-timer", "alloc-histogram":
					allocs[e.Kind+" "+e.ID()]++
				}
			}
			for k, n := range allocs {
				if n > 1 {
					return "allocated-more-than-once", fmt.Sprintf("%s allocated %d times", k, n), "viol"
				}
			}
			pre := ""
			if v.onSub {
				pre = "p."
			}
			total := int64(1)<<uint(v.threads) - 1
			switch v.kind {
			case "counter":
				if cl, d := counterOracle(log, map[string]int64{pre + "x{}": total}, -1, true); cl != "" {
					return cl, d, "viol"
				}
			case "tagged", "tagged+victim", "tagged+stale":
				if cl, d := counterOracle(log, map[string]int64{pre + `x{"t":"1"}`: total}, -1, true); cl != "" {
					return cl, d, "viol"
				}
			case "subscope":
				if cl, d := counterOracle(log, map[string]int64{pre + "q.x{}": total}, -1, true); cl != "" {
					return cl, d, "viol"
				}
			case "two-long-identities":
				want := map[string]int64{}
				for i := 0; i < v.threads; i++ {
					want[pre+"x"+tagString(map[string]string{"t": strings.Repeat("v", 300) + fmt.Sprint(i)})] = int64(1) << uint(i)
				}
				if cl, d := counterOracle(log, want, -1, true); cl != "" {
					return cl, d, "viol"
				}
			case "mixed":
				if cl, d := counterOracle(log, map[string]int64{pre + "x{}": 1, pre + "y{}": total - 1}, -1, true); cl != "" {
					return cl, d, "viol"
				}
			case "timer":
				n := 0
				for _, e := range log {
					if e.Kind == "timer" && e.ID() == pre+"x{}" {
						n++
					}
				}
				if n != v.threads {
					return "timer-lost", fmt.Sprintf("%d timer deliveries for %d records", n, v.threads), "viol"
				}
			case "gauge":
				n := 0
				for _, e := range log {
					if e.Kind == "gauge" && e.ID() == pre+"x{}" {
						n++
					}
				}
				if n < 1 || n > v.threads {
					return "gauge-lost", fmt.Sprintf("%d gauge deliveries for %d updates", n, v.threads), "viol"
				}
				// "everything recorded through any of the returned handles is delivered": after the closing pass the
				// reporter's latest value is that of an update which no other update came after (an update that
				// started when another had already returned is the later one of the two)
				var last uint64
				for _, e := range log {
					if e.Kind == "gauge" && e.ID() == pre+"x{}" {
						last = e.F
					}
				}
				evs, _ := x.Vals["gauge-events"].([]string)
				pos := map[string]int{}
				for k, e := range evs {
					pos[e] = k
				}
				okLast := false
				var could []float64
				for i := 0; i < v.threads; i++ {
					superseded := false
					for j := 0; j < v.threads; j++ {
						if j != i && pos[fmt.Sprintf("s%d", j)] > pos[fmt.Sprintf("d%d", i)] {
							superseded = true
						}
					}
					if !superseded {
						could = append(could, float64(int64(1)<<uint(i)))
						okLast = okLast || math.Float64bits(float64(int64(1)<<uint(i))) == last
					}
				}
				if len(evs) == 2*v.threads && !okLast {
					return "gauge-update-lost", fmt.Sprintf("updates and their returns in order %v (goroutine i updates to 2^i); after the closing pass the reporter's latest value is %v, the last update was one of %v", evs, math.Float64frombits(last), could), "viol"
				}
			case "root-identity":
				if cl, d := counterOracle(log, map[string]int64{pre + "x{}": total}, -1, true); cl != "" {
					return cl, d, "viol"
				}
			case "counter+gauge":
				if cl, d := counterOracle(log, map[string]int64{pre + "x{}": 1}, -1, true); cl != "" {
					return cl, d, "viol"
				}
				gl := uint64(0)
				for _, e := range log {
					if e.Kind == "gauge" && e.ID() == pre+"g{}" {
						gl = e.F
					}
				}
				if math.Float64frombits(gl) != 7 {
					return "gauge-update-lost", fmt.Sprintf("a gauge first used next to the first use of a counter of the same scope: last delivered value %v, updated to 7", math.Float64frombits(gl)), "viol"
				}
			case "two-timers":
				n := 0
				for _, e := range log {
					if e.Kind == "timer" {
						n++
					}
				}
				if n != v.threads {
					return "timer-lost", fmt.Sprintf("%d timer deliveries for %d records on %d timers", n, v.threads, v.threads), "viol"
				}
			case "two-histograms":
				hs := histSums(log)
				var tot int64
				for _, n := range hs {
					tot += n
				}
				if tot != int64(2*v.threads) {
					return "histogram-samples-lost", fmt.Sprintf("bucket deliveries %v for %d samples on %d histograms", hs, 2*v.threads, v.threads), "viol"
				}
			case "gauge+lookup":
				last, n := uint64(0), 0
				for _, e := range log {
					if e.Kind == "gauge" && e.ID() == pre+"x{}" {
						last, n = e.F, n+1
					}
				}
				if n != 1 || math.Float64frombits(last) != 7 {
					return "gauge-update-lost", fmt.Sprintf("one update (to 7) made by the goroutine that did not create the gauge, a pass alongside and one afterwards: %d deliveries, last value %v", n, math.Float64frombits(last)), "viol"
				}
			case "histogram":
				hs := histSums(log)
				var tot int64
				for _, n := range hs {
					tot += n
				}
				if tot != int64(v.threads) {
					return "histogram-samples-lost", fmt.Sprintf("bucket deliveries %v for %d samples", hs, v.threads), "viol"
				}
			}
			return "", "", deliveredOutcome(log)
		}
		out = append(out, sc)
	}
	// R: the cached reporter mirrors every timer it is asked to allocate into a histogram of the same scope (a call back
	// into the library from inside Allocate*, for another kind of metric than the one being created): concurrent first
	// use still ends with one timer per scope, one allocation per identity, every value delivered - and returns
	{
		sc := &Scenario{Property: "C09", Name: "R-first-use-of-a-timer-with-a-reporter-that-mirrors-it-into-a-histogram"}
		sc.Body = func(x *Run) {
			rec := &Recorder{}
			x.Rec = rec
			root, _ := tally.VerifNewRootScope(scopeOpts(rec, true, false), 0, 1)
			sub := root.Tagged(map[string]string{"k": "v"})
			rec.OnAlloc = func(kind, name string, tags map[string]string) {
				if kind != "timer" {
					return
				}
				s := root
				if tags["k"] != "" {
					s = sub
				}
				s.Histogram("mirror_of_"+name, tally.DurationBuckets{time.Millisecond}).RecordDuration(1)
			}
			var got [2][2]tally.Timer
			var ths []*rt.Thread
			for i := 0; i < 2; i++ {
				i := i
				ths = append(ths, rt.GoNamed("user", func() {
					got[i][0] = root.Timer("t")
					got[i][0].Record(time.Duration(10 + i))
					got[i][1] = sub.Timer("t")
					got[i][1].Record(time.Duration(20 + i))
				}))
			}
			for _, t := range ths {
				t.Join()
			}
			if got[0][0] != got[1][0] || got[0][1] != got[1][1] {
				x.failf("two-objects-for-one-identity", "the two goroutines were handed different timer objects for one scope and name")
			}
			tally.VerifReportOnce(root)
		}
		sc.Check = func(x *Run, o *rt.Outcome) (string, string, string) {
			allocs, timers, mirrors := map[string]int{}, 0, int64(0)
			for _, e := range x.Rec.Log {
				switch e.Kind {
				case "alloc-timer", "alloc-histogram":
					allocs[e.Kind+" "+e.ID()]++
				case "timer":
					timers++
				case "hduration":
					mirrors += e.I
				}
			}
			for id, n := range allocs {
				if n != 1 {
					return "allocated-more-than-once", fmt.Sprintf("%s allocated %d times", id, n), "viol"
				}
			}
			if len(allocs) != 4 || timers != 4 || mirrors != 2 {
				return "first-use-lost-something", fmt.Sprintf("allocations %v, %d timer values forwarded (4 recorded), %d mirror samples delivered (2 recorded)", allocs, timers, mirrors), "viol"
			}
			return "", "", "ok"
		}
		out = append(out, sc)
	}
	out = append(out, c09CrossingShards())
	return out
}

// c09CrossingShards (scenario N2): on a sanitizing root with two registry shards, two goroutines make the first use
// of two tag sets chosen so that the shard of the key as spelled by the caller and the shard of the sanitized key
// CROSS: (X, Y) for one, (Y, X) for the other. Whatever Subscope locks, it must not wait for a second shard while
// holding one. (Shard choice is a pure function of the key in the instrumented build - the hash seed is fixed - and
// is read off the real registry with scratch roots of the same configuration.)
func c09CrossingShards() *Scenario {
	sc := &Scenario{Property: "C09", Name: "N2-first-use-of-rewritten-tags-raw-and-sanitized-key-in-crossing-shards"}
	alnum := tally.ValidCharacters{Ranges: tally.AlphanumericRange, Characters: tally.UnderscoreCharacters}
	san := func() *tally.SanitizeOptions {
		return &tally.SanitizeOptions{NameCharacters: alnum, KeyCharacters: alnum, ValueCharacters: alnum, ReplacementCharacter: '_'}
	}
	sc.Body = func(x *Run) {
		rec := &Recorder{NoPoints: true}
		x.Rec = rec
		probe := func(tags map[string]string) int {
			o := scopeOpts(&Recorder{NoPoints: true}, false, false)
			o.SanitizeOptions = san()
			r, _ := tally.VerifNewRootScope(o, 0, 2)
			return tally.VerifShardOf(r.Tagged(tags))
		}
		var a, b map[string]string
		for k := 0; k < 48 && (a == nil || b == nil); k++ {
			raw := map[string]string{"dc-name": fmt.Sprintf("eu-west-%d", k)}
			clean := map[string]string{"dc_name": fmt.Sprintf("eu_west_%d", k)}
			rs, cs := probe(raw), probe(clean)
			if rs < 0 || cs < 0 {
				break // the registry has another shape in this tree: the scenario runs with any two tag sets
			}
			if rs == 0 && cs == 1 && a == nil {
				a = raw
			}
			if rs == 1 && cs == 0 && b == nil {
				b = raw
			}
		}
		if a == nil {
			a = map[string]string{"dc-name": "eu-west-a"}
		}
		if b == nil {
			b = map[string]string{"dc-name": "eu-west-b"}
		}
		o := scopeOpts(rec, false, false)
		o.SanitizeOptions = san()
		root, _ := tally.VerifNewRootScope(o, 0, 2)
		var ths []*rt.Thread
		for i, tg := range []map[string]string{a, b} {
			i, tg := i, tg
			ths = append(ths, rt.GoNamed(fmt.Sprintf("user%d", i), func() {
				root.Tagged(cloneTags(tg)).Counter("c").Inc(int64(1 + i))
			}))
		}
		for _, t := range ths {
			t.Join()
		}
		tally.VerifReportOnce(root)
		x.Vals["a"], x.Vals["b"] = a["dc-name"], b["dc-name"]
	}
	sc.Check = func(x *Run, o *rt.Outcome) (string, string, string) {
		got := sumCounters(x.Rec.Log, 0, len(x.Rec.Log))
		clean := func(v interface{}) string {
			return "c" + tagString(map[string]string{"dc_name": strings.ReplaceAll(fmt.Sprint(v), "-", "_")})
		}
		if got[clean(x.Vals["a"])] != 1 || got[clean(x.Vals["b"])] != 2 {
			return "sum-mismatch", fmt.Sprintf("tag sets dc-name=%v and dc-name=%v first used by two goroutines at once on a sanitizing two-shard root: delivered %v, recorded 1 and 2", x.Vals["a"], x.Vals["b"], got), "viol"
		}
		return "", "", "ok"
	}
	return sc
}

// c09RaceScenarios: the whole scope API, recording and reporting used concurrently, free-running under -race.
func c09RaceScenarios(tier string) []*Scenario {
	mk := func(test bool) *Scenario {
		sc := &Scenario{Property: "C09", Name: fmt.Sprintf("X-api-mix-testscope=%v", test)}
		sc.Body = func(x *Run) {
			var root tally.Scope
			var ts tally.TestScope
			rec := &Recorder{}
			if test {
				ts = tally.VerifNewTestScopeOpts(tally.ScopeOptions{Prefix: "p"}, 2)
				root = ts
			} else {
				root, _ = tally.VerifNewRootScope(scopeOpts(rec, true, false), 0, 2)
			}
			var ths []*rt.Thread
			for i := 0; i < 3; i++ {
				i := i
				ths = append(ths, rt.GoNamed("user", func() {
					for k := 0; k < 30; k++ {
						s := root.Tagged(map[string]string{"k": fmt.Sprint(k % 2)}).SubScope("s")
						s.Counter("c").Inc(1)
						s.Gauge("g").Update(float64(k))
						s.Timer("t").Record(time.Duration(k))
						s.Histogram("h", tally.ValueBuckets{1, 2}).RecordValue(float64(k % 3))
						if k%10 == 9 && i == 0 {
							closeScope(s)
						}
					}
				}))
			}
			ths = append(ths, rt.GoNamed("reporter", func() {
				for k := 0; k < 10; k++ {
					if test {
						_ = ts.Snapshot()
					} else {
						tally.VerifReportOnce(root)
					}
				}
			}))
			for _, t := range ths {
				t.Join()
			}
		}
		return sc
	}
	// X2: many goroutines make the first use of many tag sets that the sanitizer rewrites, on a 16-shard registry
	// (whatever Subscope locks, it must not wait for a second shard while holding one): everything recorded is
	// delivered; a hang is caught by the pass's watchdog
	x2 := &Scenario{Property: "C09", Name: "X2-first-use-of-rewritten-tags-16-shards"}
	x2.Body = func(x *Run) {
		rec := &Recorder{NoPoints: true}
		alnum := tally.ValidCharacters{Ranges: tally.AlphanumericRange, Characters: tally.UnderscoreCharacters}
		o := scopeOpts(rec, false, false)
		o.SanitizeOptions = &tally.SanitizeOptions{NameCharacters: alnum, KeyCharacters: alnum, ValueCharacters: alnum, ReplacementCharacter: '_'}
		root, _ := tally.VerifNewRootScope(o, 0, 16)
		const nG, nT = 8, 120
		gate := newGate(nG)
		var ths []*rt.Thread
		for g := 0; g < nG; g++ {
			g := g
			ths = append(ths, rt.GoNamed("user", func() {
				gate()
				for i := 0; i < nT; i++ {
					k := (i*7 + g*13) % nT
					root.Tagged(map[string]string{"dc-name": fmt.Sprintf("eu-west-%d", k)}).Counter("c").Inc(1)
				}
			}))
		}
		for _, t := range ths {
			t.Join()
		}
		tally.VerifReportOnce(root)
		rec.mu.Lock()
		got := sumCounters(rec.Log, 0, len(rec.Log))
		rec.mu.Unlock()
		for k := 0; k < nT; k++ {
			id := "c" + tagString(map[string]string{"dc_name": fmt.Sprintf("eu_west_%d", k)})
			if got[id] != nG {
				x.failf("sum-mismatch", "tag set %d of %d, first used by %d goroutines at once on a sanitizing 16-shard root: %d delivered, %d recorded", k, nT, nG, got[id], nG)
				return
			}
		}
	}
	// X3: several scopes of one root make the first use of a histogram with ONE shared bucket set that is not in
	// ascending order, with the M3 reporter (which derives its bucket tags from the set it is handed) and with the
	// recording reporter: the set is only ever read - by the library and by the reporters it calls - so concurrent
	// first uses are race free, leave it as it was, and every sample lands in the bucket of its value
	mk3 := func(m3rep bool) *Scenario {
		x3 := &Scenario{Property: "C09", Name: fmt.Sprintf("X3-shared-unsorted-bucket-set-first-used-by-many-scopes-m3=%v", m3rep)}
		x3.Body = func(x *Run) {
			rec := &Recorder{NoPoints: true}
			o := scopeOpts(rec, true, false)
			if m3rep {
				s := newFastSink()
				x.Cleanup = append(x.Cleanup, s.close)
				r, err := m3.NewReporter(m3.Options{HostPorts: []string{s.addr}, Service: "svc", Env: "test", MaxQueueSize: 64})
				if err != nil {
					x.failf("new-reporter", "%v", err)
					return
				}
				x.Cleanup = append(x.Cleanup, func() { _ = r.Close() })
				o = tally.ScopeOptions{CachedReporter: r, OmitCardinalityMetrics: true}
			}
			root, _ := tally.VerifNewRootScope(o, 0, 4)
			orig := []float64{5, 3, 1, 4, 2, 9, 7, 8, 6}
			shared := tally.ValueBuckets(append([]float64{}, orig...))
			const nG = 6
			gate := newGate(nG)
			var ths []*rt.Thread
			for g := 0; g < nG; g++ {
				g := g
				ths = append(ths, rt.GoNamed("user", func() {
					gate()
					root.Tagged(map[string]string{"g": fmt.Sprint(g)}).Histogram("h", shared).RecordValue(2.5)
				}))
			}
			for _, t := range ths {
				t.Join()
			}
			for i := range orig {
				if shared[i] != orig[i] {
					x.failf("caller-slice-modified", "the shared bucket set was %v and is now %v", orig, []float64(shared))
					return
				}
			}
			if !m3rep {
				tally.VerifReportOnce(root)
				rec.mu.Lock()
				defer rec.mu.Unlock()
				n := 0
				for _, e := range rec.Log {
					if e.Kind == "hvalue" && e.I != 0 {
						if e.LoF != 2 || e.HiF != 3 || e.I != 1 {
							x.failf("sample-in-wrong-bucket", "2.5 recorded once per scope: %s", e.String())
							return
						}
						n++
					}
				}
				if n != nG {
					x.failf("sum-mismatch", "%d scopes recorded one sample each, %d bucket deliveries", nG, n)
				}
			}
		}
		return x3
	}
	return []*Scenario{mk(false), mk(true), x2, mk3(true), mk3(false)}
}
