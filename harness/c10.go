package main

import (
	"errors"
	"fmt"
	"math"
	"strings"
	"time"

	tally "github.com/uber-go/tally/v4"
	"github.com/uber-go/tally/v4/instrument"
)

var errExec = errors.New("instrumented function failed")

type c10Env struct {
	path  histPath
	rec   *Recorder
	root  tally.Scope
	ts    tally.TestScope
	sub   tally.Scope
	now   time.Time
	sws   []tally.Stopwatch
	swT0  []time.Time
	swHis []bool
	// model
	timers  map[string][]time.Duration // full name+tags -> all recorded durations in order
	pendCnt map[string]int64           // counters pending for the next pass
	pendBkt map[string]int64           // duration-histogram bucket (by upper bound) pending
	nrec    int
	call    instrument.Call
	hist    tally.Histogram
}

var c10Durations = []time.Duration{math.MinInt64, -1, 0, 1, math.MaxInt64}
var c10Advances = []time.Duration{0, 1, time.Hour, -time.Second}

func c10Alphabet() []string {
	var a []string
	for _, t := range []string{"root.t", "sub.t", "sub.u"} {
		for _, d := range c10Durations {
			a = append(a, fmt.Sprintf("rec %s %d", t, int64(d)))
		}
	}
	a = append(a, "pass", "start timer", "start hist", "stop")
	for _, d := range c10Advances {
		a = append(a, fmt.Sprintf("advance %d", int64(d)))
	}
	// a timer handle obtained once and kept by the application, also across Close and drop of its scope
	a = append(a, "reckept sub.t 1")
	a = append(a, "exec ok", "exec fail", "exec nested", "close sub")
	return a
}

func c10Exec(path histPath, alphabet []string) func(hist []int) (string, string, string, int) {
	return func(hist []int) (cl, det, key string, steps int) {
		cl, det = guard(func() (string, string) {
			e := &c10Env{path: path, timers: map[string][]time.Duration{}, pendCnt: map[string]int64{}, pendBkt: map[string]int64{}}
			e.now = time.Unix(1000, 0)
			restore := tally.VerifSetNow(func() time.Time { return e.now })
			defer restore()
			tags := map[string]string{"r": "1"}
			// a sanitizer is configured; the timer "u" of the subscope has a raw name that it rewrites ("u!x" -> "u_x")
			okc := tally.ValidCharacters{Ranges: tally.AlphanumericRange, Characters: []rune{'_', '.', ':'}}
			// the plain-reporter root joins names with ':' instead of the default '.': whoever builds a name (scopes,
			// instrument.Call) has to use the scope's separator
			sep := "."
			if path == pathPlain {
				sep = ":"
			}
			n := func(parts ...string) string { return strings.Join(parts, sep) }
			san := &tally.SanitizeOptions{NameCharacters: okc, KeyCharacters: okc, ValueCharacters: okc, ReplacementCharacter: '_'}
			switch path {
			case pathSnapshot:
				e.ts = tally.VerifNewTestScopeOpts(tally.ScopeOptions{Prefix: "p", Tags: tags, SanitizeOptions: san}, 1)
				e.root = e.ts
			default:
				e.rec = &Recorder{NoPoints: true, NoCaps: path == pathCached}
				o := scopeOpts(e.rec, path == pathCached, false)
				o.Prefix, o.Tags, o.SanitizeOptions = "p", tags, san
				if sep != "." {
					o.Separator = sep
				}
				e.root, _ = tally.VerifNewRootScope(o, 0, 1)
			}
			e.sub = e.root.SubScope("s").Tagged(map[string]string{"k": "v"})
			subTags := map[string]string{"r": "1", "k": "v"}
			e.hist = e.sub.Histogram("h", tally.DurationBuckets{0, time.Microsecond, time.Hour})
			huppers := refDurationUppers([]time.Duration{0, time.Microsecond, time.Hour})
			e.call = instrument.NewCall(e.sub, "call")
			ident := func(which string) (tally.Scope, string, string, map[string]string) {
				switch which {
				case "root.t":
					return e.root, "t", n("p", "t"), tags
				case "sub.t":
					return e.sub, "t", n("p", "s", "t"), subTags
				default:
					return e.sub, "u!x", n("p", "s", "u_x"), subTags
				}
			}
			// expectTimer checks that exactly one timer entry with (name,tags,d) was appended since mark
			expectTimer := func(mark int, full string, tg map[string]string, d time.Duration, what string) (string, string) {
				id := full + tagString(tg)
				e.timers[id] = append(e.timers[id], d)
				e.nrec++
				if path == pathSnapshot {
					snap := e.ts.Snapshot()
					steps++
					k := tally.KeyForPrefixedStringMap(full, tg)
					t, ok := snap.Timers()[k]
					if !ok {
						return "timer-missing-from-snapshot", fmt.Sprintf("%s: no timer %q in snapshot", what, k)
					}
					got := t.Values()
					want := e.timers[id]
					if len(got) != len(want) {
						return "timer-values-wrong", fmt.Sprintf("%s: snapshot has %v, recorded %v", what, got, want)
					}
					for i := range got {
						if got[i] != want[i] {
							return "timer-values-wrong", fmt.Sprintf("%s: snapshot has %v, recorded %v", what, got, want)
						}
					}
					if t.Name() != full || !tagsEqual(t.Tags(), tg) {
						return "timer-name-or-tags", fmt.Sprintf("%s: %q %s", what, t.Name(), tagString(t.Tags()))
					}
					return "", ""
				}
				n := 0
				for _, en := range e.rec.Log[mark:] {
					switch en.Kind {
					case "timer":
						n++
						if en.D != d || en.Name != full || !tagsEqual(en.Tags, tg) || en.Cached != (path == pathCached) {
							return "timer-delivery-wrong", fmt.Sprintf("%s: delivered %s, want %s %s %d (cached=%v)", what, en.String(), full, tagString(tg), int64(d), path == pathCached)
						}
					case "alloc-timer", "alloc-counter", "alloc-gauge", "alloc-histogram", "alloc-dbucket":
					default:
						return "unexpected-delivery-on-record", fmt.Sprintf("%s: %s", what, en.String())
					}
				}
				if n != 1 {
					return "timer-not-forwarded-exactly-once", fmt.Sprintf("%s: %d timer deliveries made synchronously by one Record", what, n)
				}
				return "", ""
			}
			mark := func() int {
				if e.rec == nil {
					return 0
				}
				return len(e.rec.Log)
			}
			optBkt := map[string]int64{} // samples recorded through a stopwatch after the histogram's scope was closed
			doPass := func() (string, string) {
				if path == pathSnapshot {
					// no reporter: check the pending values through a snapshot instead
					snap := e.ts.Snapshot()
					steps++
					for id, want := range e.pendCnt {
						_ = id
						_ = want
					}
					hs := snap.Histograms()[tally.KeyForPrefixedStringMap(n("p", "s", "h"), subTags)]
					if hs == nil {
						return "histogram-missing-from-snapshot", ""
					}
					for u, c := range hs.Durations() {
						if k := fmt.Sprint(int64(u)); c > e.pendBkt[k] && c <= e.pendBkt[k]+optBkt[k] {
							continue // (a snapshot is cumulative: the optional samples stay optional)
						}
						if c != e.pendBkt[fmt.Sprint(int64(u))] {
							return "stopwatch-histogram-bucket-wrong", fmt.Sprintf("snapshot bucket %d has %d, model %d", int64(u), c, e.pendBkt[fmt.Sprint(int64(u))])
						}
					}
					for _, nm := range []string{"error", "success"} {
						tg := map[string]string{"r": "1", "k": "v", "result_type": nm}
						k := tally.KeyForPrefixedStringMap(n("p", "s", "call"), tg)
						var got int64
						if c, ok := snap.Counters()[k]; ok {
							got = c.Value()
						}
						if got != e.pendCnt[nm] {
							return "exec-counter-wrong", fmt.Sprintf("snapshot counter %s = %d, model %d", k, got, e.pendCnt[nm])
						}
					}
					return "", ""
				}
				m := len(e.rec.Log)
				tally.VerifReportOnce(e.root)
				steps++
				gotC := map[string]int64{}
				gotB := map[string]int64{}
				for _, en := range e.rec.Log[m:] {
					switch en.Kind {
					case "timer":
						return "pass-delivered-a-timer", fmt.Sprintf("a report pass delivered %s", en.String())
					case "counter":
						gotC[en.Tags["result_type"]] += en.I
						if en.Name != n("p", "s", "call") {
							return "exec-counter-wrong", en.String()
						}
					case "hduration":
						gotB[fmt.Sprint(int64(en.HiD))] += en.I
					}
				}
				for _, nm := range []string{"error", "success"} {
					if gotC[nm] != e.pendCnt[nm] {
						return "exec-counter-wrong", fmt.Sprintf("pass delivered %d for result_type=%s, model %d", gotC[nm], nm, e.pendCnt[nm])
					}
				}
				for _, u := range huppers {
					k := fmt.Sprint(int64(u))
					if extra := gotB[k] - e.pendBkt[k]; extra > 0 && extra <= optBkt[k] {
						optBkt[k] -= extra
						continue
					}
					if gotB[k] != e.pendBkt[k] {
						return "stopwatch-histogram-bucket-wrong", fmt.Sprintf("pass delivered %d samples for bucket <=%s, model %d", gotB[k], k, e.pendBkt[k])
					}
				}
				e.pendCnt = map[string]int64{}
				e.pendBkt = map[string]int64{}
				return "", ""
			}
			closedSub, droppedSub := false, false
			optBkt = map[string]int64{}
			// (obtained before the history starts, so that "close, pass, record through the kept handle" is three steps)
			kept := map[string]tally.Timer{}
			{
				sc, short, _, _ := ident("sub.t")
				kept["sub.t"] = sc.Timer(short)
			}
			for _, op := range hist {
				name := alphabet[op]
				var which string
				var d int64
				switch {
				case len(name) > 4 && name[:4] == "rec ":
					fmt.Sscanf(name, "rec %s %d", &which, &d)
					sc, short, full, tg := ident(which)
					m := mark()
					sc.Timer(short).Record(time.Duration(d))
					steps++
					if c, dd := expectTimer(m, full, tg, time.Duration(d), name); c != "" {
						return c, dd
					}
				case len(name) > 8 && name[:8] == "reckept ":
					fmt.Sscanf(name, "reckept %s %d", &which, &d)
					sc, short, full, tg := ident(which)
					if kept[which] == nil {
						kept[which] = sc.Timer(short)
					}
					m := mark()
					kept[which].Record(time.Duration(d))
					steps++
					if c, dd := expectTimer(m, full, tg, time.Duration(d), name); c != "" {
						return c, dd
					}
				case name == "close sub":
					// the handle of the closed subscope is kept: timers requested from it
					// afterwards must still forward each Record exactly once
					closeScope(e.sub)
					closedSub = true
					steps++
				case closedSub && (name == "exec ok" || name == "exec fail" || name == "exec nested" || name == "start hist"):
					// buffered metrics recorded on a closed scope are outside the property
					continue
				case name == "pass":
					if c, dd := doPass(); c != "" {
						return c, dd
					}
					droppedSub = droppedSub || closedSub
				case name == "start timer":
					e.sws = append(e.sws, e.sub.Timer("u").Start())
					e.swT0 = append(e.swT0, e.now)
					e.swHis = append(e.swHis, false)
					steps++
				case name == "start hist":
					e.sws = append(e.sws, e.hist.Start())
					e.swT0 = append(e.swT0, e.now)
					e.swHis = append(e.swHis, true)
					steps++
				case name == "stop":
					if len(e.sws) == 0 {
						continue
					}
					sw, t0, isH := e.sws[0], e.swT0[0], e.swHis[0]
					e.sws, e.swT0, e.swHis = e.sws[1:], e.swT0[1:], e.swHis[1:]
					el := e.now.Sub(t0)
					m := mark()
					sw.Stop()
					steps++
					if isH && closedSub {
						// stopped after the histogram's scope was closed: recorded after Close, delivered or not
						optBkt[fmt.Sprint(int64(huppers[refDurationBucket(huppers, el)]))]++
					} else if isH {
						e.pendBkt[fmt.Sprint(int64(huppers[refDurationBucket(huppers, el)]))]++
						if e.rec != nil {
							for _, en := range e.rec.Log[m:] {
								if isDelivery(en.Kind) {
									return "unexpected-delivery-on-record", en.String()
								}
							}
						}
					} else if c, dd := expectTimer(m, n("p", "s", "u"), subTags, el, fmt.Sprintf("stopwatch stopped after %d ns", int64(el))); c != "" {
						if c == "timer-delivery-wrong" || c == "timer-values-wrong" {
							c = "stopwatch-elapsed-wrong"
						}
						return c, dd
					}
				case len(name) > 8 && name[:8] == "advance ":
					fmt.Sscanf(name, "advance %d", &d)
					e.now = e.now.Add(time.Duration(d))
				case name == "exec nested":
					// two executions of ONE Call overlap (here: the function of the first executes the Call again; two
					// request handlers sharing a Call do the same): each records its own latency
					lat := n("p", "s", "call", "latency")
					m := mark()
					var icl, idd string
					var igot error
					m2, inner, outer := 0, 0, 0
					got := e.call.Exec(func() error {
						outer++
						e.now = e.now.Add(3)
						igot = e.call.Exec(func() error {
							inner++
							e.now = e.now.Add(5)
							return errExec
						})
						icl, idd = expectTimer(m, lat, subTags, 5, "the inner of two nested executions of one Call (3 ns into the outer one, 5 ns long)")
						m2 = mark()
						e.now = e.now.Add(7)
						return nil
					})
					steps += 2
					if inner != 1 || outer != 1 {
						return "exec-called-function-not-once", fmt.Sprintf("nested executions: outer function called %d times, inner %d times", outer, inner)
					}
					if got != nil || igot != errExec {
						return "exec-error-not-returned-unchanged", fmt.Sprintf("nested executions: outer Exec returned %v (function returned nil), inner Exec returned %v (function returned %v)", got, igot, errExec)
					}
					e.pendCnt["error"]++
					e.pendCnt["success"]++
					if icl == "" {
						icl, idd = expectTimer(m2, lat, subTags, 15, "the outer of two nested executions of one Call (15 ns long, the inner one started 3 ns in)")
					}
					if icl != "" {
						if icl == "timer-not-forwarded-exactly-once" || icl == "timer-delivery-wrong" || icl == "timer-values-wrong" {
							icl = "exec-latency-wrong"
						}
						return icl, idd
					}
				case name == "exec ok" || name == "exec fail":
					var want error
					if name == "exec fail" {
						want = errExec
					}
					calls := 0
					m := mark()
					got := e.call.Exec(func() error {
						calls++
						e.now = e.now.Add(7)
						return want
					})
					steps++
					if calls != 1 {
						return "exec-called-function-not-once", fmt.Sprintf("function called %d times", calls)
					}
					if got != want {
						return "exec-error-not-returned-unchanged", fmt.Sprintf("Exec returned %v, function returned %v", got, want)
					}
					if want != nil {
						e.pendCnt["error"]++
					} else {
						e.pendCnt["success"]++
					}
					if c, dd := expectTimer(m, n("p", "s", "call", "latency"), subTags, 7, name); c != "" {
						if c == "timer-not-forwarded-exactly-once" || c == "timer-delivery-wrong" || c == "timer-values-wrong" {
							c = "exec-latency-wrong"
						}
						return c, dd
					}
				}
			}
			// canonical state: what the model says is pending + what only the implementation can remember
			nr := e.nrec
			if nr > 3 && path != pathSnapshot {
				nr = 3
			}
			var tkeys []string
			for id, v := range e.timers {
				if path == pathSnapshot {
					tkeys = append(tkeys, fmt.Sprint(id, v))
				} else {
					tkeys = append(tkeys, id)
				}
			}
			sortStrings(tkeys)
			key = fmt.Sprint(closedSub, droppedSub, path, tkeys, e.pendCnt, e.pendBkt, nr, len(e.sws), e.swHis, func() []int64 {
				var out []int64
				for _, t0 := range e.swT0 {
					out = append(out, int64(e.now.Sub(t0)))
				}
				return out
			}())
			// epilogue: a final pass must agree with the model, and a second one delivers nothing
			if c, dd := doPass(); c != "" {
				return c, dd
			}
			if c, dd := doPass(); c != "" {
				return c, dd
			}
			return "", ""
		})
		return
	}
}

func c10Jobs(tier string) []*SeqJob {
	alphabet := c10Alphabet()
	depth := tierInt(tier, 3, 4)
	var jobs []*SeqJob
	for _, path := range []histPath{pathPlain, pathCached, pathSnapshot} {
		path := path
		j := &SeqJob{Property: "C10", Name: "timer-histories-" + path.String(), Shards: tierInt(tier, 2, 8)}
		j.Run = func(ctx *SeqCtx) { bfs(ctx, alphabet, depth, c10Exec(path, alphabet)) }
		j.Replay = func(ops []string) (string, string) {
			cl, det, _, _ := c10Exec(path, alphabet)(opIndex(alphabet, ops))
			return cl, det
		}
		jobs = append(jobs, j)
	}
	return jobs
}
