package main

import (
	"bytes"
	"fmt"
	"strings"

	"github.com/uber-go/tally/v4/m3/thriftudp"
	"github.com/uber-go/tally/v4/thirdparty/github.com/apache/thrift/lib/go/thrift"
	rt "github.com/uber-go/tally/v4/verifrt"
)

func payload(k, n int) []byte {
	b := make([]byte, n)
	for i := range b {
		b[i] = byte((i*7 + k*31 + i/251) % 253)
	}
	return b
}

type udpT interface {
	Write([]byte) (int, error)
	Flush() error
	Close() error
	IsOpen() bool
}

func c15Alphabet() []string {
	return []string{"write 5", "write 32500", "write 40000", "write 65000", "writebyte", "writestring 5", "writestring 40000", "flush", "close", "fault-close-socket"}
}

// c15Exec runs one sequence on a real transport with ndest destinations.
func c15Exec(ndest int, alphabet []string) func(hist []int) (string, string, string, int) {
	// ndest < 0: two destinations of which the first is listed twice (A, B, A): every entry of the list is a
	// destination of its own, so A receives every message twice - as two datagrams - and B once
	dup := ndest < 0
	if dup {
		ndest = 2
	}
	return func(hist []int) (cl, det, key string, steps int) {
		var sinks []*fastSink
		for i := 0; i < ndest; i++ {
			sinks = append(sinks, newFastSink())
		}
		defer func() {
			for _, s := range sinks {
				s.close()
			}
		}()
		cl, det = guard(func() (string, string) {
			var tr thrift.TTransport
			var singles []*thriftudp.TUDPTransport
			var err error
			if ndest == 1 {
				t, e := thriftudp.NewTUDPClientTransport(sinks[0].addr, "")
				tr, err = t, e
				singles = append(singles, t)
			} else {
				var addrs []string
				for _, s := range sinks {
					addrs = append(addrs, s.addr)
				}
				if dup {
					addrs = append(addrs, sinks[0].addr)
				}
				tr, err = thriftudp.NewTMultiUDPClientTransport(addrs, "")
			}
			if err != nil {
				return "dial-error", err.Error()
			}
			var rich thrift.TRichTransport = thrift.NewTRichTransport(tr)
			if rt, ok := tr.(thrift.TRichTransport); ok {
				rich = rt
			}
			// reference model
			var buf []byte
			closed, sockClosed := false, false
			refused := 0            // refused writes since the last flush: implementation state the model does not have
			var refusedOps []string // ... and which calls they were (a refused WriteString is not a refused Write)
			want := make([][][]byte, ndest)
			early := make([][][]byte, ndest)
			for k, op := range hist {
				name := alphabet[op]
				steps++
				var n int
				switch {
				case strings.HasPrefix(name, "write ") || strings.HasPrefix(name, "writestring ") || name == "writebyte":
					if name == "writebyte" {
						n = 1
					} else {
						fmt.Sscanf(name[strings.Index(name, " ")+1:], "%d", &n)
					}
					p := payload(k, n)
					var werr error
					switch {
					case name == "writebyte":
						werr = rich.WriteByte(p[0])
					case strings.HasPrefix(name, "writestring"):
						_, werr = rich.WriteString(string(p))
					default:
						_, werr = tr.Write(p)
					}
					wantErr := closed || len(buf)+n > thriftudp.MaxLength
					if (werr != nil) != wantErr {
						return "write-error-condition", fmt.Sprintf("%v: %s with %d bytes buffered, closed=%v: err=%v", histLabels(alphabet, hist[:k+1]), name, len(buf), closed, werr)
					}
					if closed && werr != nil && !strings.Contains(werr.Error(), "not open") {
						return "use-after-close-error", fmt.Sprintf("%s after Close: %v", name, werr)
					}
					if !wantErr {
						buf = append(buf, p...)
					} else if !closed {
						refused++
						if len(refusedOps) < 2 {
							refusedOps = append(refusedOps, name)
						}
					}
				case name == "flush":
					ferr := tr.Flush()
					wantErr := closed || sockClosed
					if (ferr != nil) != wantErr {
						return "flush-error-condition", fmt.Sprintf("%v: flush closed=%v socketClosed=%v: err=%v", histLabels(alphabet, hist[:k+1]), closed, sockClosed, ferr)
					}
					// (take what has arrived out of the sockets now: many large datagrams left queued in many sockets
					// at once run into the kernel's UDP memory limits when all workers are busy)
					for d, sk := range sinks {
						early[d] = sk.readAvailable(early[d])
					}
					if !closed {
						if !sockClosed {
							for d := range want {
								want[d] = append(want[d], append([]byte{}, buf...))
								if dup && d == 0 {
									want[d] = append(want[d], append([]byte{}, buf...))
								}
							}
						}
						buf = buf[:0] // the buffer is empty after any Flush, successful or not
						refused, refusedOps = 0, nil
					}
				case name == "close":
					if cerr := tr.Close(); closed && cerr != nil {
						return "second-close-error", cerr.Error()
					}
					closed = true
				case name == "fault-close-socket":
					if ndest == 1 && !sockClosed && !closed {
						_ = singles[0].Conn().Close()
						sockClosed = true
					}
				}
				if tr.IsOpen() == closed {
					return "isopen", fmt.Sprintf("IsOpen()=%v after Close=%v", tr.IsOpen(), closed)
				}
			}
			for d, s := range sinks {
				got := append(early[d], s.drain(len(want[d])-len(early[d]))...)
				if len(got) != len(want[d]) {
					return "datagram-count", fmt.Sprintf("%v: destination %d received %d datagrams, %d successful flushes", histLabels(alphabet, hist), d, len(got), len(want[d]))
				}
				for i := range got {
					if !bytes.Equal(got[i], want[d][i]) {
						return "datagram-content", fmt.Sprintf("%v: destination %d datagram %d has %d bytes, the writes accepted since the previous flush have %d bytes (equal prefix %d)", histLabels(alphabet, hist), d, i, len(got[i]), len(want[d][i]), commonPrefix(got[i], want[d][i]))
					}
				}
			}
			if refused > 2 {
				refused = 2
			}
			key = fmt.Sprint(ndest, dup, len(buf), closed, sockClosed, len(want[0]), refused, refusedOps)
			return "", ""
		})
		return
	}
}

func commonPrefix(a, b []byte) int {
	n := 0
	for n < len(a) && n < len(b) && a[n] == b[n] {
		n++
	}
	return n
}

func c15Jobs(tier string) []*SeqJob {
	alphabet := c15Alphabet()
	depth := tierInt(tier, 4, 5)
	var jobs []*SeqJob
	for _, nd := range []int{1, 2, 3} {
		nd := nd
		if nd == 3 && tier != "thorough" {
			continue
		}
		j := &SeqJob{Property: "C15", Name: fmt.Sprintf("transport-sequences-%d-destinations", nd), Shards: tierInt(tier, 5, 10)}
		d := depth
		if nd > 2 {
			d = depth - 1
		}
		j.Run = func(ctx *SeqCtx) { bfs(ctx, alphabet, d, c15Exec(nd, alphabet)) }
		j.Replay = func(ops []string) (string, string) {
			c, dd, _, _ := c15Exec(nd, alphabet)(opIndex(alphabet, ops))
			return c, dd
		}
		jobs = append(jobs, j)
	}
	{
		j := &SeqJob{Property: "C15", Name: "transport-sequences-a-destination-listed-twice", Shards: tierInt(tier, 2, 5)}
		j.Run = func(ctx *SeqCtx) { bfs(ctx, alphabet, depth-1, c15Exec(-3, alphabet)) }
		j.Replay = func(ops []string) (string, string) {
			c, dd, _, _ := c15Exec(-3, alphabet)(opIndex(alphabet, ops))
			return c, dd
		}
		jobs = append(jobs, j)
	}
	jobs = append(jobs, c15ReporterJobs(tier)...)
	jobs = append(jobs, c15ClientJobs(tier)...)
	return jobs
}

// c15Scenarios: Close is idempotent also when several goroutines call it at once (m3/thriftudp is instrumented
// for this property, so the transport's atomic flag is a scheduling point), and a write racing with Close
// either succeeds or returns an error.
func c15Scenarios(tier string) []*Scenario {
	var out []*Scenario
	for _, ndest := range []int{1, 2} {
		ndest := ndest
		sc := &Scenario{Property: "C15", Name: fmt.Sprintf("T2-concurrent-close-%ddest", ndest)}
		sc.Body = func(x *Run) {
			var sinks []*fastSink
			var addrs []string
			for i := 0; i < ndest; i++ {
				s := newFastSink()
				sinks = append(sinks, s)
				addrs = append(addrs, s.addr)
				x.Cleanup = append(x.Cleanup, s.close)
			}
			var tr udpT
			if ndest == 1 {
				t, err := thriftudp.NewTUDPClientTransport(addrs[0], "")
				if err != nil {
					x.failf("dial-error", "%v", err)
					return
				}
				tr = t
			} else {
				t, err := thriftudp.NewTMultiUDPClientTransport(addrs, "")
				if err != nil {
					x.failf("dial-error", "%v", err)
					return
				}
				tr = t
			}
			var errs [2]error
			var werr, ferr error
			c1 := rt.GoNamed("closer1", func() { errs[0] = tr.Close() })
			c2 := rt.GoNamed("closer2", func() { errs[1] = tr.Close() })
			w := rt.GoNamed("writer", func() {
				_, werr = tr.Write(payload(1, 5))
				ferr = tr.Flush()
			})
			c1.Join()
			c2.Join()
			w.Join()
			_, _ = werr, ferr // a write or flush that lost the race reports an error; neither may panic (judged by the engine)
			for i, e := range errs {
				if e != nil {
					x.failf("concurrent-close-not-idempotent", "%d destination(s): concurrent Close call %d returned %v", ndest, i, e)
				}
			}
			if e := tr.Close(); e != nil {
				x.failf("close-not-idempotent", "a later Close returned %v", e)
			}
			if tr.IsOpen() {
				x.failf("open-after-close", "IsOpen reports true after Close")
			}
			if _, e := tr.Write(payload(2, 5)); e == nil {
				x.failf("write-after-close-accepted", "Write after Close returned nil")
			}
			// whatever arrived is one complete 5-byte datagram per destination at most
			for d, s := range sinks {
				for _, dg := range s.readAvailable(nil) {
					if !bytes.Equal(dg, payload(1, 5)) {
						x.failf("datagram-differs", "destination %d received %d bytes %x", d, len(dg), dg)
					}
				}
			}
		}
		sc.Check = func(x *Run, o *rt.Outcome) (string, string, string) { return "", "", "ok" }
		out = append(out, sc)
	}
	return out
}
