package main

import (
	"fmt"
	"math"
	"sort"
	"strings"
	"time"

	tally "github.com/uber-go/tally/v4"
)

var (
	nan1 = math.Float64frombits(0x7ff8000000000001)
	nan2 = math.Float64frombits(0xfff0000000000001)
)

func c03ValueAlphabet() []float64 {
	return []float64{-2, -1, math.Copysign(0, -1), 0, 1, math.Nextafter(1, 2), 2, 1e300, -math.MaxFloat64, math.MaxFloat64}
}

func c03DurationAlphabet() []time.Duration {
	// (2^53 ns and its neighbour: durations a float64 no longer tells apart)
	return []time.Duration{math.MinInt64, -time.Second, -1, 0, 1, time.Second, time.Second + 1, 1 << 53, 1<<53 + 1, math.MaxInt64}
}

// refValueUppers is the reference model of the bucket layout: sort a copy, append +max.
func refValueUppers(spec []float64) []float64 {
	c := append([]float64{}, spec...)
	sort.Float64s(c)
	return append(c, math.MaxFloat64)
}

func refDurationUppers(spec []time.Duration) []time.Duration {
	c := append([]time.Duration{}, spec...)
	sort.Slice(c, func(i, j int) bool { return c[i] < c[j] })
	return append(c, math.MaxInt64)
}

// refValueBucket: index of the bucket a sample belongs to; -1 = NaN (any one or none).
func refValueBucket(uppers []float64, x float64) int {
	if math.IsNaN(x) {
		return -1
	}
	if math.IsInf(x, 1) {
		return len(uppers) - 1
	}
	if math.IsInf(x, -1) {
		return 0
	}
	for i, u := range uppers {
		if u >= x {
			return i
		}
	}
	return len(uppers) - 1
}

func refDurationBucket(uppers []time.Duration, x time.Duration) int {
	for i, u := range uppers {
		if u >= x {
			return i
		}
	}
	return len(uppers) - 1
}

func valueSamples(uppers []float64) []float64 {
	s := []float64{0, math.Copysign(0, -1), math.MaxFloat64, -math.MaxFloat64, 5e-324, -5e-324, math.Inf(1), math.Inf(-1), nan1, nan2}
	seen := map[uint64]bool{}
	for _, u := range uppers {
		if !seen[math.Float64bits(u)] {
			seen[math.Float64bits(u)] = true
			s = append(s, u, math.Nextafter(u, math.Inf(1)), math.Nextafter(u, math.Inf(-1)))
		}
	}
	return s
}

func durationSamples(uppers []time.Duration) []time.Duration {
	s := []time.Duration{0, math.MinInt64, math.MaxInt64}
	seen := map[time.Duration]bool{}
	for _, u := range uppers {
		if !seen[u] {
			seen[u] = true
			s = append(s, u)
			if u < math.MaxInt64 {
				s = append(s, u+1)
			}
			if u > math.MinInt64 {
				s = append(s, u-1)
			}
		}
	}
	return s
}

// histPath is a delivery path: plain recorder, cached recorder or test-scope snapshot.
type histPath int

const (
	pathPlain histPath = iota
	pathCached
	pathSnapshot
)

func (p histPath) String() string { return [...]string{"plain", "cached", "snapshot"}[p] }

// histEnv is a fresh root with one histogram under test.
type histEnv struct {
	path histPath
	rec  *Recorder
	root tally.Scope
	ts   tally.TestScope
}

func newHistEnv(path histPath, defaults tally.Buckets) *histEnv {
	e := &histEnv{path: path}
	switch path {
	case pathSnapshot:
		e.ts = tally.VerifNewTestScope("", nil, 1)
		e.root = e.ts
	default:
		e.rec = &Recorder{NoPoints: true}
		o := scopeOpts(e.rec, path == pathCached, false)
		o.DefaultBuckets = defaults
		e.root, _ = tally.VerifNewRootScope(o, 0, 1)
	}
	return e
}

// valueLayoutCheck checks the tiling clauses on a list of (lower, upper) pairs.
func valueLayoutCheck(lo, hi []float64, spec []float64) (string, string) {
	ref := refValueUppers(spec)
	if len(hi) != len(ref) {
		return "bucket-count", fmt.Sprintf("%d buckets delivered for a spec of %d bounds %v", len(hi), len(spec), spec)
	}
	if lo[0] != -math.MaxFloat64 {
		return "first-lower-bound", fmt.Sprintf("first lower bound %v, want -MaxFloat64", lo[0])
	}
	if hi[len(hi)-1] != math.MaxFloat64 {
		return "last-upper-bound", fmt.Sprintf("last upper bound %v, want MaxFloat64", hi[len(hi)-1])
	}
	for i := range hi {
		if i > 0 && lo[i] != hi[i-1] {
			return "lower-not-previous-upper", fmt.Sprintf("bucket %d: lower %v, previous upper %v", i, lo[i], hi[i-1])
		}
		if i > 0 && hi[i] < hi[i-1] {
			return "uppers-decrease", fmt.Sprintf("bucket %d: upper %v < previous upper %v", i, hi[i], hi[i-1])
		}
		if hi[i] != ref[i] {
			return "bounds-not-the-spec", fmt.Sprintf("bucket %d: upper %v, sorted spec has %v (spec %v)", i, hi[i], ref[i], spec)
		}
	}
	return "", ""
}

func durationLayoutCheck(lo, hi []time.Duration, spec []time.Duration) (string, string) {
	ref := refDurationUppers(spec)
	if len(hi) != len(ref) {
		return "bucket-count", fmt.Sprintf("%d buckets delivered for a spec of %d bounds %v", len(hi), len(spec), spec)
	}
	if lo[0] != math.MinInt64 {
		return "first-lower-bound", fmt.Sprintf("first lower bound %d, want MinInt64", int64(lo[0]))
	}
	if hi[len(hi)-1] != math.MaxInt64 {
		return "last-upper-bound", fmt.Sprintf("last upper bound %d, want MaxInt64", int64(hi[len(hi)-1]))
	}
	for i := range hi {
		if i > 0 && lo[i] != hi[i-1] {
			return "lower-not-previous-upper", fmt.Sprintf("bucket %d: lower %d, previous upper %d", i, int64(lo[i]), int64(hi[i-1]))
		}
		if i > 0 && hi[i] < hi[i-1] {
			return "uppers-decrease", fmt.Sprintf("bucket %d", i)
		}
		if hi[i] != ref[i] {
			return "bounds-not-the-spec", fmt.Sprintf("bucket %d: upper %d, sorted spec has %d (spec %v)", i, int64(hi[i]), int64(ref[i]), spec)
		}
	}
	return "", ""
}

func hasDupF(s []float64) bool {
	m := map[float64]bool{}
	for _, x := range s {
		if m[x] {
			return true
		}
		m[x] = true
	}
	return false
}

func hasDupD(s []time.Duration) bool {
	m := map[time.Duration]bool{}
	for _, x := range s {
		if m[x] {
			return true
		}
		m[x] = true
	}
	return false
}

// checkValueHistogram creates histogram `name` with spec (nil = scope default
// `defaults`) in env and sweeps the samples; returns clause/detail and the
// number of API calls made.
func checkValueHistogram(e *histEnv, name string, arg tally.Buckets, spec []float64) (string, string, int) {
	return checkValueHistogramOn(e, e.root, name, arg, spec)
}

// checkValueHistogramOn creates the histogram on scope `on` (a scope under e.root).
func checkValueHistogramOn(e *histEnv, on tally.Scope, name string, arg tally.Buckets, spec []float64) (string, string, int) {
	steps := 0
	orig := append([]float64{}, spec...)
	var argCopy []float64
	if vb, ok := arg.(tally.ValueBuckets); ok {
		argCopy = append([]float64{}, vb[:cap(vb)]...) // with whatever lies behind its end: spare capacity is the caller's too
	}
	mark := 0
	if e.rec != nil {
		mark = len(e.rec.Log)
	}
	h := on.Histogram(name, arg)
	if on != e.root {
		name = "s." + name
	}
	steps++
	if vb, ok := arg.(tally.ValueBuckets); ok {
		for i := range vb[:cap(vb)] {
			if math.Float64bits(vb[:cap(vb)][i]) != math.Float64bits(argCopy[i]) {
				return "caller-slice-modified", fmt.Sprintf("Histogram() changed the caller's slice (length %d, capacity %d): %v -> %v", len(vb), cap(vb), argCopy, []float64(vb[:cap(vb)])), steps
			}
		}
	}
	ref := refValueUppers(orig)
	if e.path == pathCached {
		var lo, hi []float64
		for _, en := range e.rec.Log[mark:] {
			if en.Kind == "alloc-vbucket" && en.Name == name {
				lo, hi = append(lo, en.LoF), append(hi, en.HiF)
			}
		}
		if cl, d := valueLayoutCheck(lo, hi, orig); cl != "" {
			return "alloc-" + cl, d, steps
		}
	}
	total := int64(0)
	for _, x := range valueSamples(ref) {
		want := refValueBucket(ref, x)
		var before map[float64]int64
		if e.path == pathSnapshot {
			before = e.ts.Snapshot().Histograms()[name+"+"].Values()
		} else {
			mark = len(e.rec.Log)
		}
		h.RecordValue(x)
		h.RecordDuration(time.Duration(123))                                              // wrong kind: must change nothing
		h.Start().Stop()                                                                  // a stopwatch records a duration: nothing either on a value histogram
		tally.NewStopwatch(time.Now().Add(time.Hour), h.(tally.StopwatchRecorder)).Stop() // a negative elapsed time
		steps += 4
		if e.path == pathSnapshot {
			after := e.ts.Snapshot().Histograms()[name+"+"].Values()
			steps++
			if hasDupF(ref) {
				continue // duplicate bounds collapse in the snapshot map: C11's subject
			}
			n := 0
			for u, c := range after {
				d := c - before[u]
				if d == 0 {
					continue
				}
				n++
				if d != 1 || (want >= 0 && u != ref[want]) {
					return "sample-in-wrong-bucket", fmt.Sprintf("spec %v sample %v (bits %#x): snapshot count of upper bound %v changed by %d, want bucket with upper %v", orig, x, math.Float64bits(x), u, d, refAt(ref, want)), steps
				}
			}
			if n != 1 && !(math.IsNaN(x) && n == 0) {
				return "sample-not-counted-once", fmt.Sprintf("spec %v sample %v: %d buckets changed", orig, x, n), steps
			}
			continue
		}
		tally.VerifReportOnce(e.root)
		steps++
		n := 0
		for _, en := range e.rec.Log[mark:] {
			if en.Kind == "hduration" {
				return "wrong-kind-recorded", fmt.Sprintf("a duration recorded on a value histogram was delivered: %s", en.String()), steps
			}
			if en.Kind != "hvalue" || en.Name != name {
				continue
			}
			n++
			total += en.I
			if want >= 0 {
				wlo := -math.MaxFloat64
				if want > 0 {
					wlo = ref[want-1]
				}
				if en.I != 1 || en.HiF != ref[want] || en.LoF != wlo {
					return "sample-in-wrong-bucket", fmt.Sprintf("spec %v sample %v (bits %#x): delivered %d in (%v,%v], want 1 in (%v,%v] [%s path]", orig, x, math.Float64bits(x), en.I, en.LoF, en.HiF, wlo, ref[want], e.path), steps
				}
			} else if en.I != 1 {
				return "sample-in-wrong-bucket", fmt.Sprintf("spec %v NaN sample delivered count %d", orig, en.I), steps
			}
		}
		if n != 1 && !(math.IsNaN(x) && n == 0) {
			return "sample-not-counted-once", fmt.Sprintf("spec %v sample %v (bits %#x): %d bucket deliveries [%s path]", orig, x, math.Float64bits(x), n, e.path), steps
		}
	}
	return "", "", steps
}

func refAt(ref []float64, i int) interface{} {
	if i < 0 {
		return "any"
	}
	return ref[i]
}

func checkDurationHistogram(e *histEnv, name string, arg tally.Buckets, spec []time.Duration) (string, string, int) {
	return checkDurationHistogramOn(e, e.root, name, arg, spec)
}

func checkDurationHistogramOn(e *histEnv, on tally.Scope, name string, arg tally.Buckets, spec []time.Duration) (string, string, int) {
	steps := 0
	orig := append([]time.Duration{}, spec...)
	var argCopy []time.Duration
	if db, ok := arg.(tally.DurationBuckets); ok {
		argCopy = append([]time.Duration{}, db[:cap(db)]...)
	}
	mark := 0
	if e.rec != nil {
		mark = len(e.rec.Log)
	}
	h := on.Histogram(name, arg)
	if on != e.root {
		name = "s." + name
	}
	steps++
	if db, ok := arg.(tally.DurationBuckets); ok {
		for i := range db[:cap(db)] {
			if db[:cap(db)][i] != argCopy[i] {
				return "caller-slice-modified", fmt.Sprintf("Histogram() changed the caller's slice (length %d, capacity %d): %v -> %v", len(db), cap(db), argCopy, []time.Duration(db[:cap(db)])), steps
			}
		}
	}
	ref := refDurationUppers(orig)
	if e.path == pathCached {
		var lo, hi []time.Duration
		for _, en := range e.rec.Log[mark:] {
			if en.Kind == "alloc-dbucket" && en.Name == name {
				lo, hi = append(lo, en.LoD), append(hi, en.HiD)
			}
		}
		if cl, d := durationLayoutCheck(lo, hi, orig); cl != "" {
			return "alloc-" + cl, d, steps
		}
	}
	for _, x := range durationSamples(ref) {
		want := refDurationBucket(ref, x)
		var before map[time.Duration]int64
		if e.path == pathSnapshot {
			before = e.ts.Snapshot().Histograms()[name+"+"].Durations()
		} else {
			mark = len(e.rec.Log)
		}
		h.RecordDuration(x)
		h.RecordValue(1.5) // wrong kind
		steps += 2
		if e.path == pathSnapshot {
			after := e.ts.Snapshot().Histograms()[name+"+"].Durations()
			steps++
			if hasDupD(ref) {
				continue
			}
			n := 0
			for u, c := range after {
				d := c - before[u]
				if d == 0 {
					continue
				}
				n++
				if d != 1 || u != ref[want] {
					return "sample-in-wrong-bucket", fmt.Sprintf("spec %v sample %d: snapshot count of upper bound %d changed by %d, want upper %d", orig, int64(x), int64(u), d, int64(ref[want])), steps
				}
			}
			if n != 1 {
				return "sample-not-counted-once", fmt.Sprintf("spec %v sample %d: %d buckets changed", orig, int64(x), n), steps
			}
			continue
		}
		tally.VerifReportOnce(e.root)
		steps++
		n := 0
		for _, en := range e.rec.Log[mark:] {
			if en.Kind == "hvalue" {
				return "wrong-kind-recorded", fmt.Sprintf("a value recorded on a duration histogram was delivered: %s", en.String()), steps
			}
			if en.Kind != "hduration" || en.Name != name {
				continue
			}
			n++
			wlo := time.Duration(math.MinInt64)
			if want > 0 {
				wlo = ref[want-1]
			}
			if en.I != 1 || en.HiD != ref[want] || en.LoD != wlo {
				return "sample-in-wrong-bucket", fmt.Sprintf("spec %v sample %d: delivered %d in (%d,%d], want 1 in (%d,%d] [%s path]", orig, int64(x), en.I, int64(en.LoD), int64(en.HiD), int64(wlo), int64(ref[want]), e.path), steps
			}
		}
		if n != 1 {
			return "sample-not-counted-once", fmt.Sprintf("spec %v sample %d: %d bucket deliveries [%s path]", orig, int64(x), n, e.path), steps
		}
	}
	return "", "", steps
}

// enumSeqs calls f with every sequence of length 0..maxLen over n letters.
func enumSeqs(n, maxLen int, f func(seq []int) bool) {
	var rec func(cur []int) bool
	rec = func(cur []int) bool {
		if !f(cur) {
			return false
		}
		if len(cur) == maxLen {
			return true
		}
		for i := 0; i < n; i++ {
			if !rec(append(cur, i)) {
				return false
			}
		}
		return true
	}
	rec(nil)
}

func c03Jobs(tier string) []*SeqJob {
	L := tierInt(tier, 4, 6)
	va, da := c03ValueAlphabet(), c03DurationAlphabet()
	runValue := func(path histPath, idx []int) (string, string, int) {
		spec := make([]float64, len(idx))
		for i, k := range idx {
			spec[i] = va[k]
		}
		e := newHistEnv(path, nil)
		return checkValueHistogram(e, "h", tally.ValueBuckets(append(make([]float64, 0, len(spec)+2), spec...)), spec)
	}
	runDur := func(path histPath, idx []int) (string, string, int) {
		spec := make([]time.Duration, len(idx))
		for i, k := range idx {
			spec[i] = da[k]
		}
		e := newHistEnv(path, nil)
		return checkDurationHistogram(e, "h", tally.DurationBuckets(append(make([]time.Duration, 0, len(spec)+2), spec...)), spec)
	}
	parse := func(ops []string) (kind string, path histPath, idx []int) {
		kind = ops[0]
		for i, p := range []string{"plain", "cached", "snapshot"} {
			if ops[1] == p {
				path = histPath(i)
			}
		}
		for _, o := range ops[2:] {
			var k int
			fmt.Sscanf(o, "%d", &k)
			idx = append(idx, k)
		}
		return
	}
	var jobs []*SeqJob
	for _, kind := range []string{"value", "duration"} {
		kind := kind
		job := &SeqJob{Property: "C03", Name: "spec-x-sample-" + kind, Shards: tierInt(tier, 4, 8)}
		job.Run = func(ctx *SeqCtx) {
			n := len(va)
			if kind == "duration" {
				n = len(da)
				for _, d := range da {
					ctx.Alphabet(fmt.Sprintf("bound %d", int64(d)))
				}
			} else {
				for _, v := range va {
					ctx.Alphabet(fmt.Sprintf("bound %v", v))
				}
			}
			i := 0
			enumSeqs(n, L, func(seq []int) bool {
				i++
				if !ctx.Mine(i) {
					return true
				}
				if ctx.Expired() {
					return false
				}
				for _, path := range []histPath{pathPlain, pathCached, pathSnapshot} {
					var cl, det string
					var steps int
					idx := append([]int{}, seq...)
					cl, det = guard(func() (string, string) {
						var c, d string
						if kind == "value" {
							c, d, steps = runValue(path, idx)
						} else {
							c, d, steps = runDur(path, idx)
						}
						return c, d
					})
					ops := []string{kind, path.String()}
					for _, k := range idx {
						ops = append(ops, fmt.Sprint(k))
					}
					ctx.Case(steps, len(idx) > 0, func() string { return fmt.Sprint(ops) })
					ctx.State(fmt.Sprint(ops))
					if cl != "" {
						ctx.Fail(cl, det, ops)
						return false
					}
				}
				return true
			})
			if !ctx.st.TimedOut && ctx.viol == nil {
				ctx.DepthDone(L)
			}
		}
		job.Replay = func(ops []string) (string, string) {
			k, path, idx := parse(ops)
			return guard(func() (string, string) {
				if k == "value" {
					c, d, _ := runValue(path, idx)
					return c, d
				}
				c, d, _ := runDur(path, idx)
				return c, d
			})
		}
		jobs = append(jobs, job)
	}
	jobs = append(jobs, c03DefaultsJob(tier), c03HistoryJob(tier), c03PairsJob(tier))
	return jobs
}

// c03DefaultsJob: nil buckets mean the scope's default buckets; empty
// non-nil buckets give one all-covering bucket; 64-bound linear specs.
func c03DefaultsJob(tier string) *SeqJob {
	type tc struct {
		name     string
		defaults tally.Buckets
		arg      tally.Buckets
		vspec    []float64
		dspec    []time.Duration
		dur      bool
	}
	lin64v := tally.MustMakeLinearValueBuckets(-8, 0.25, 64)
	lin64d := tally.MustMakeLinearDurationBuckets(-5*time.Millisecond, time.Millisecond, 64)
	builtin := []time.Duration{0, 10 * time.Millisecond, 25 * time.Millisecond, 50 * time.Millisecond, 75 * time.Millisecond, 100 * time.Millisecond, 200 * time.Millisecond,
		300 * time.Millisecond, 400 * time.Millisecond, 500 * time.Millisecond, 600 * time.Millisecond, 800 * time.Millisecond, time.Second, 2 * time.Second, 5 * time.Second}
	cases := []tc{
		{"nil-arg-builtin-defaults", nil, nil, nil, builtin, true},
		{"nil-arg-value-defaults", tally.ValueBuckets{3, 1, 2}, nil, []float64{3, 1, 2}, nil, false},
		{"nil-arg-duration-defaults", tally.DurationBuckets{5, 1}, nil, nil, []time.Duration{5, 1}, true},
		{"nil-arg-empty-defaults", tally.ValueBuckets{}, nil, nil, builtin, true},
		{"empty-value-arg", nil, tally.ValueBuckets{}, []float64{}, nil, false},
		{"empty-duration-arg", nil, tally.DurationBuckets{}, nil, []time.Duration{}, true},
		{"linear-64-value", nil, append(tally.ValueBuckets{}, lin64v...), lin64v, nil, false},
		{"linear-64-duration", nil, append(tally.DurationBuckets{}, lin64d...), nil, lin64d, true},
	}
	// every number of bounds from 1 to N, handed over in descending order (size sweep: word widths, fixed-size
	// scratch space and the like live at particular counts)
	for n := 1; n <= tierInt(tier, 80, 260); n++ {
		lv := tally.MustMakeLinearValueBuckets(-8, 0.25, n)
		ld := tally.MustMakeLinearDurationBuckets(-5*time.Millisecond, time.Millisecond, n)
		rv, rd := make(tally.ValueBuckets, n), make(tally.DurationBuckets, n)
		for i := range lv {
			rv[n-1-i], rd[n-1-i] = lv[i], ld[i]
		}
		cases = append(cases, tc{fmt.Sprintf("descending-%d-value", n), nil, rv, append([]float64{}, rv...), nil, false},
			tc{fmt.Sprintf("descending-%d-duration", n), nil, rd, nil, append([]time.Duration{}, rd...), true})
	}
	run := func(c tc, path histPath) (string, string, int) {
		e := newHistEnv(path, c.defaults)
		if c.dur {
			return checkDurationHistogram(e, "h", c.arg, c.dspec)
		}
		return checkValueHistogram(e, "h", c.arg, c.vspec)
	}
	job := &SeqJob{Property: "C03", Name: "defaults-empty-and-64-bound-specs"}
	job.Run = func(ctx *SeqCtx) {
		for _, c := range cases {
			for _, path := range []histPath{pathPlain, pathCached} {
				c, path := c, path
				steps := 0
				cl, det := guard(func() (string, string) {
					a, b, s := run(c, path)
					steps = s
					return a, b
				})
				ops := []string{c.name, path.String()}
				if !strings.HasPrefix(c.name, "descending-") {
					ctx.Alphabet(c.name)
				}
				ctx.Case(steps, true, func() string { return fmt.Sprint(ops) })
				ctx.State(fmt.Sprint(ops))
				if cl != "" {
					ctx.Fail(cl, det, ops)
					return
				}
			}
		}
		ctx.Alphabet(fmt.Sprintf("every number of bounds from 1 to %d, value and duration, in descending order", tierInt(tier, 80, 260)))
		ctx.DepthDone(1)
	}
	job.Replay = func(ops []string) (string, string) {
		for _, c := range cases {
			if c.name == ops[0] {
				path := pathPlain
				if ops[1] == "cached" {
					path = pathCached
				}
				return guard(func() (string, string) { a, b, _ := run(c, path); return a, b })
			}
		}
		return "", ""
	}
	return job
}

// c03HistoryJob: all record/pass histories up to a depth: bucket counts are
// conserved across passes (the C01 mechanism applied to histogram buckets).
func c03HistoryJob(tier string) *SeqJob {
	depth := tierInt(tier, 4, 6)
	alphabet := []string{"rec 1", "rec 2.5", "rec +Inf", "pass"}
	vals := []float64{1, 2.5, math.Inf(1)}
	spec := []float64{2, 1, 2}
	exec := func(cached bool) func(hist []int) (string, string, string, int) {
		return func(hist []int) (cl, det, key string, steps int) {
			cl, det = guard(func() (string, string) {
				rec := &Recorder{NoPoints: true}
				root, _ := tally.VerifNewRootScope(scopeOpts(rec, cached, false), 0, 1)
				h := root.Histogram("h", tally.ValueBuckets(append([]float64{}, spec...)))
				ref := refValueUppers(spec)
				pending := map[int]int64{}
				total := map[int]int64{}
				got := map[string]int64{}
				check := func() (string, string) {
					mark := len(rec.Log)
					tally.VerifReportOnce(root)
					steps++
					delivered := map[int]int64{}
					for _, en := range rec.Log[mark:] {
						if en.Kind == "hvalue" {
							if en.I <= 0 {
								return "non-positive-bucket-delta", en.String()
							}
							// identify bucket by (lo,hi) pair index
							idx := -1
							for i := range ref {
								lo := -math.MaxFloat64
								if i > 0 {
									lo = ref[i-1]
								}
								if en.HiF == ref[i] && en.LoF == lo && delivered[i] == 0 && pending[i] == en.I {
									idx = i
									break
								}
							}
							if idx < 0 {
								return "bucket-count-not-conserved", fmt.Sprintf("delivered %s but pending per bucket is %v", en.String(), pending)
							}
							delivered[idx] = en.I
							got[fmt.Sprint(idx)] += en.I
						}
					}
					for i, p := range pending {
						if p != delivered[i] {
							return "bucket-count-not-conserved", fmt.Sprintf("bucket %d: %d samples pending, %d delivered by the pass", i, p, delivered[i])
						}
					}
					pending = map[int]int64{}
					return "", ""
				}
				for _, op := range hist {
					if op < len(vals) {
						h.RecordValue(vals[op])
						steps++
						i := refValueBucket(ref, vals[op])
						pending[i]++
						total[i]++
					} else if c, d := check(); c != "" {
						return c, d
					}
				}
				key = fmt.Sprint(cached, pending, total)
				if c, d := check(); c != "" {
					return c, d
				}
				// a further pass delivers nothing
				mark := len(rec.Log)
				tally.VerifReportOnce(root)
				for _, en := range rec.Log[mark:] {
					if en.Kind == "hvalue" {
						return "delivery-without-sample", en.String()
					}
				}
				return "", ""
			})
			return
		}
	}
	job := &SeqJob{Property: "C03", Name: "record-pass-histories"}
	job.Run = func(ctx *SeqCtx) {
		bfs(ctx, alphabet, depth, exec(true))
		if ctx.viol == nil {
			ctx.ResetSeen()
			bfs(ctx, alphabet, depth, exec(false))
		}
	}
	job.Replay = func(ops []string) (string, string) {
		for _, cached := range []bool{true, false} {
			if cl, det, _, _ := exec(cached)(opIndex(alphabet, ops)); cl != "" {
				return cl, det
			}
		}
		return "", ""
	}
	return job
}

// c03PairsJob: two histograms with different specifications under one root
// (they share the bucket cache): the second one must still bucket by its own bounds.
func c03PairsJob(tier string) *SeqJob {
	va := c03ValueAlphabet()
	da := c03DurationAlphabet()
	L := 2
	var vspecs [][]float64
	enumSeqs(len(va), L, func(seq []int) bool {
		sp := make([]float64, len(seq))
		for i, k := range seq {
			sp[i] = va[k]
		}
		vspecs = append(vspecs, sp)
		return true
	})
	var dspecs [][]time.Duration
	enumSeqs(len(da), L, func(seq []int) bool {
		sp := make([]time.Duration, len(seq))
		for i, k := range seq {
			sp[i] = da[k]
		}
		dspecs = append(dspecs, sp)
		return true
	})
	run := func(kind string, i, j int) (string, string, int) {
		e := newHistEnv(pathCached, nil)
		sub := e.root.SubScope("s")
		if kind == "value" {
			e.root.Histogram("first", tally.ValueBuckets(append([]float64{}, vspecs[i]...)))
			return checkValueHistogramOn(e, sub, "second", tally.ValueBuckets(append([]float64{}, vspecs[j]...)), vspecs[j])
		}
		e.root.Histogram("first", tally.DurationBuckets(append([]time.Duration{}, dspecs[i]...)))
		return checkDurationHistogramOn(e, sub, "second", tally.DurationBuckets(append([]time.Duration{}, dspecs[j]...)), dspecs[j])
	}
	j := &SeqJob{Property: "C03", Name: "two-histograms-one-root", Shards: tierInt(tier, 4, 8)}
	j.Run = func(ctx *SeqCtx) {
		n := 0
		for _, kind := range []string{"value", "duration"} {
			cnt := len(vspecs)
			if kind == "duration" {
				cnt = len(dspecs)
			}
			for a := 0; a < cnt; a++ {
				for b := 0; b < cnt; b++ {
					n++
					if !ctx.Mine(n) {
						continue
					}
					if ctx.Expired() {
						return
					}
					kind, a, b := kind, a, b
					steps := 0
					cl, det := guard(func() (string, string) { c, d, s := run(kind, a, b); steps = s; return c, d })
					ops := []string{kind, fmt.Sprint(a), fmt.Sprint(b)}
					ctx.Case(steps, a != b, func() string { return fmt.Sprint(ops) })
					ctx.State(fmt.Sprint(ops))
					if cl != "" {
						ctx.Fail("second-histogram: "+cl, det, ops)
						if ctx.viol != nil {
							return
						}
					}
				}
			}
		}
		ctx.Alphabet("all ordered pairs of specifications of length <= 2 over the C03 bound alphabets")
		if !ctx.st.TimedOut && ctx.viol == nil {
			ctx.DepthDone(2)
		}
	}
	j.Replay = func(ops []string) (string, string) {
		var a, b int
		fmt.Sscan(ops[1], &a)
		fmt.Sscan(ops[2], &b)
		cl, det := guard(func() (string, string) { c, d, _ := run(ops[0], a, b); return c, d })
		if cl != "" {
			cl = "second-histogram: " + cl
		}
		return cl, det
	}
	return j
}
