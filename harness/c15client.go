package main

import (
	"fmt"
	"reflect"
	"strings"

	m3thrift "github.com/uber-go/tally/v4/m3/thrift/v2"
	"github.com/uber-go/tally/v4/m3/thriftudp"
	"github.com/uber-go/tally/v4/thirdparty/github.com/apache/thrift/lib/go/thrift"
)

// c15ClientJobs drive the generated thrift client (m3/thrift/v2.M3Client) over the real udp transports, the way the
// reporter does: EmitMetricBatchV2, and Discard on the transport after a failed emit. Both public constructors
// (NewM3ClientFactory, and NewM3ClientProtocol with one shared or two separate caller-supplied protocols), both
// protocols, one and two destinations.
//
//   - an emit that returns nil has put exactly one datagram on every destination, and that datagram decodes to
//     exactly the batch that was handed over (nothing left over in it);
//   - an emit that returns an error has put nothing on any destination;
//   - whatever failed before, the next message is transmitted complete, alone and uncorrupted.
type c15ClientCfg struct {
	kind  string
	ctor  string // factory, protocol-shared, protocol-separate
	ndest int
}

type c15ClientEnv struct {
	cfg    c15ClientCfg
	sinks  []*fastSink
	client *m3thrift.M3Client
	tr     thrift.TTransport
	seq    int64
}

func newC15ClientEnv(c c15ClientCfg) (*c15ClientEnv, error) {
	e := &c15ClientEnv{cfg: c}
	var addrs []string
	for i := 0; i < c.ndest; i++ {
		s := newFastSink()
		e.sinks = append(e.sinks, s)
		addrs = append(addrs, s.addr)
	}
	var err error
	if c.ndest == 1 {
		e.tr, err = thriftudp.NewTUDPClientTransport(addrs[0], "")
	} else {
		e.tr, err = thriftudp.NewTMultiUDPClientTransport(addrs, "")
	}
	if err != nil {
		e.close()
		return nil, err
	}
	f := protoFactory(c.kind)
	switch c.ctor {
	case "factory":
		e.client = m3thrift.NewM3ClientFactory(e.tr, f)
	case "protocol-shared":
		p := f.GetProtocol(e.tr)
		e.client = m3thrift.NewM3ClientProtocol(e.tr, p, p)
	default:
		e.client = m3thrift.NewM3ClientProtocol(e.tr, f.GetProtocol(e.tr), f.GetProtocol(e.tr))
	}
	return e, nil
}

func (e *c15ClientEnv) close() {
	if e.tr != nil {
		_ = e.tr.Close()
	}
	for _, s := range e.sinks {
		s.close()
	}
}

// emit sends one batch the way the reporter does and checks the three clauses; mustFail/mustPass state what the
// case knows about the batch (a tiny batch fits, a string beyond the datagram limit does not).
func (e *c15ClientEnv) emit(batch m3thrift.MetricBatch, mustPass, mustFail bool, what string) (string, string) {
	for _, s := range e.sinks {
		if left := s.readAvailable(nil); len(left) > 0 {
			return "datagram-out-of-nowhere", fmt.Sprintf("%d datagram(s) arrived between two emits (before %s)", len(left), what)
		}
	}
	err := e.client.EmitMetricBatchV2(batch)
	if err != nil {
		// as (*reporter).flush does
		if d, ok := e.client.Transport.(interface{ Discard() }); ok {
			d.Discard()
		}
	}
	if mustPass && err != nil {
		return "small-message-refused", fmt.Sprintf("%s: %v", what, err)
	}
	if mustFail && err == nil {
		return "oversize-message-accepted", fmt.Sprintf("%s: EmitMetricBatchV2 returned nil for a batch that cannot fit in %d bytes", what, thriftudp.MaxLength)
	}
	for d, s := range e.sinks {
		dgs := s.readAvailable(nil)
		if err != nil {
			if len(dgs) != 0 {
				return "failed-message-partly-sent", fmt.Sprintf("%s: EmitMetricBatchV2 returned %v, yet destination %d received %d datagram(s) (first: %d bytes)", what, err, d, len(dgs), len(dgs[0]))
			}
			continue
		}
		if len(dgs) != 1 {
			return "message-not-one-datagram", fmt.Sprintf("%s: EmitMetricBatchV2 returned nil, destination %d received %d datagrams", what, d, len(dgs))
		}
		msg, derr := decodeMessage(e.cfg.kind, dgs[0])
		if derr != nil {
			return "message-corrupt", fmt.Sprintf("%s: EmitMetricBatchV2 returned nil, the datagram of %d bytes at destination %d does not decode: %v", what, len(dgs[0]), d, derr)
		}
		if msg.Left != 0 || msg.Name != "emitMetricBatchV2" {
			return "message-corrupt", fmt.Sprintf("%s: datagram at destination %d: message %q with %d bytes left over", what, d, msg.Name, msg.Left)
		}
		if !reflect.DeepEqual(normBatch(msg.Batch), normBatch(batch)) {
			return "message-not-what-was-sent", fmt.Sprintf("%s: the datagram at destination %d decodes to %d metrics / %d common tags, sent %d / %d (or contents differ)", what, d, len(msg.Batch.Metrics), len(msg.Batch.CommonTags), len(batch.Metrics), len(batch.CommonTags))
		}
	}
	return "", ""
}

func normBatch(b m3thrift.MetricBatch) m3thrift.MetricBatch {
	out := m3thrift.MetricBatch{}
	for _, m := range b.Metrics {
		if len(m.Tags) == 0 {
			m.Tags = nil
		}
		out.Metrics = append(out.Metrics, m)
	}
	for _, t := range b.CommonTags {
		out.CommonTags = append(out.CommonTags, t)
	}
	return out
}

func (e *c15ClientEnv) batch(metricTagLen, commonTagLen int) m3thrift.MetricBatch {
	e.seq++
	b := m3thrift.MetricBatch{
		Metrics: []m3thrift.Metric{{Name: fmt.Sprintf("m%d", e.seq), Value: m3thrift.MetricValue{MetricType: m3thrift.MetricType_COUNTER, Count: e.seq}, Timestamp: 1000 + e.seq,
			Tags: []m3thrift.MetricTag{{Name: "t", Value: strings.Repeat("x", metricTagLen)}}}},
		CommonTags: []m3thrift.MetricTag{{Name: "service", Value: "svc"}, {Name: "pad", Value: strings.Repeat("c", commonTagLen)}},
	}
	return b
}

func c15ClientJobs(tier string) []*SeqJob {
	var cfgs []c15ClientCfg
	for _, kind := range []string{"compact", "binary"} {
		for _, ctor := range []string{"factory", "protocol-shared", "protocol-separate"} {
			for _, nd := range []int{1, 2} {
				cfgs = append(cfgs, c15ClientCfg{kind, ctor, nd})
			}
		}
	}
	// histories
	alphabet := []string{"small", "mid 30000", "refused in a metric's tags", "refused in the common tags", "empty batch"}
	exec := func(c c15ClientCfg) func(hist []int) (string, string, string, int) {
		return func(hist []int) (cl, det, key string, steps int) {
			cl, det = guard(func() (string, string) {
				e, err := newC15ClientEnv(c)
				if err != nil {
					return "dial-error", err.Error()
				}
				defer e.close()
				where := func(k int) string {
					return fmt.Sprintf("[%s %s %d destination(s)] %v, message %d", c.kind, c.ctor, c.ndest, histLabels(alphabet, hist), k)
				}
				failed := 0
				for k, op := range hist {
					steps++
					var cl, det string
					switch alphabet[op] {
					case "small":
						cl, det = e.emit(e.batch(3, 3), true, false, where(k))
					case "mid 30000":
						cl, det = e.emit(e.batch(30000, 3), true, false, where(k))
					case "refused in a metric's tags":
						cl, det = e.emit(e.batch(thriftudp.MaxLength+1, 3), false, true, where(k))
						failed++
					case "refused in the common tags":
						cl, det = e.emit(e.batch(3, thriftudp.MaxLength+1), false, true, where(k))
						failed++
					case "empty batch":
						cl, det = e.emit(m3thrift.MetricBatch{}, true, false, where(k))
					}
					if cl != "" {
						return cl, det
					}
				}
				// whatever happened: one more ordinary message gets through
				if cl, det := e.emit(e.batch(5, 5), true, false, where(len(hist))+" (closing message)"); cl != "" {
					return cl, det
				}
				key = fmt.Sprint(c, hist) // a protocol object may remember anything: no merging
				return "", ""
			})
			return
		}
	}
	depth := tierInt(tier, 4, 5)
	hj := &SeqJob{Property: "C15", Name: "thrift-client-message-histories", Shards: tierInt(tier, 3, 6)}
	hj.Run = func(ctx *SeqCtx) {
		for i, c := range cfgs {
			if !ctx.Mine(i) {
				continue
			}
			saved, savedN := ctx.shard, ctx.nshards
			ctx.shard, ctx.nshards = 0, 1
			ctx.OpsPrefix = []string{fmt.Sprint(i)}
			bfs(ctx, alphabet, depth, exec(c))
			ctx.shard, ctx.nshards = saved, savedN
			if ctx.viol != nil || ctx.st.TimedOut {
				return
			}
		}
	}
	hj.Replay = func(ops []string) (string, string) {
		var i int
		fmt.Sscan(ops[0], &i)
		c, d, _, _ := exec(cfgs[i])(opIndex(alphabet, ops[1:]))
		return c, d
	}
	// boundary sweep: the message crosses the datagram limit at every position of its tail - inside the metric's tag
	// value, between the metric list and the common tags, inside a common tag, in the closing bytes
	lo, hi, step := thriftudp.MaxLength-tierInt(tier, 200, 600), thriftudp.MaxLength+20, 1
	sweep := func(c c15ClientCfg, common bool, n int) (string, string, int) {
		e, err := newC15ClientEnv(c)
		if err != nil {
			return "dial-error", err.Error(), 0
		}
		defer e.close()
		what := fmt.Sprintf("[%s %s %d destination(s)] a batch with a string of %d bytes in %s", c.kind, c.ctor, c.ndest, n, map[bool]string{false: "the metric's tags", true: "the common tags"}[common])
		var b m3thrift.MetricBatch
		if common {
			b = e.batch(3, n)
		} else {
			b = e.batch(n, 40)
		}
		if cl, det := e.emit(b, false, n > thriftudp.MaxLength, what); cl != "" {
			return cl, det, 1
		}
		if cl, det := e.emit(e.batch(5, 5), true, false, what+", then an ordinary message"); cl != "" {
			return cl, det, 2
		}
		return "", "", 2
	}
	sj := &SeqJob{Property: "C15", Name: "thrift-client-limit-crossed-at-every-position", Shards: tierInt(tier, 4, 8), NoBonus: true}
	sj.Run = func(ctx *SeqCtx) {
		k := 0
		for i, c := range cfgs {
			if tier != "thorough" && c.ctor == "protocol-separate" {
				continue
			}
			for _, common := range []bool{false, true} {
				for n := lo; n <= hi; n += step {
					k++
					if !ctx.Mine(k) {
						continue
					}
					if ctx.Expired() {
						return
					}
					c, common, n := c, common, n
					steps := 0
					cl, det := guard(func() (string, string) { a, b, s := sweep(c, common, n); steps = s; return a, b })
					ops := []string{fmt.Sprint(i), fmt.Sprint(common), fmt.Sprint(n)}
					ctx.Case(steps, true, func() string { return fmt.Sprint(ops) })
					ctx.State(fmt.Sprint(ops))
					if cl != "" {
						ctx.Fail(cl, det, ops)
						if ctx.viol != nil {
							return
						}
					}
				}
			}
		}
		ctx.Alphabet(fmt.Sprintf("string lengths %d..%d in a metric tag and in a common tag", lo, hi))
		ctx.DepthDone(1)
	}
	sj.Replay = func(ops []string) (string, string) {
		var i, n int
		var common bool
		fmt.Sscan(ops[0], &i)
		fmt.Sscan(ops[1], &common)
		fmt.Sscan(ops[2], &n)
		return guard(func() (string, string) { a, b, _ := sweep(cfgs[i], common, n); return a, b })
	}
	return []*SeqJob{hj, sj}
}
