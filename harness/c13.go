package main

import (
	"fmt"
	"math"
	"sort"
	"strings"
	"time"

	tally "github.com/uber-go/tally/v4"
	"github.com/uber-go/tally/v4/m3"
	m3thrift "github.com/uber-go/tally/v4/m3/thrift/v2"
	"github.com/uber-go/tally/v4/thirdparty/github.com/apache/thrift/lib/go/thrift"
	rt "github.com/uber-go/tally/v4/verifrt"
)

var c13TagSets = []map[string]string{nil, {}, {"a": "b"}, {"a": "b=c"}, {"a=b": "c"}, {"a": "b", "c": "d"}, {"x=y": ""}, {"x": "y="},
	{"t01": "v", "t02": "v", "t03": "v", "t04": "v", "t05": "v", "t06": "v", "t07": "v", "t08": "v", "t09": "v", "t10": "v", "t11": "v", "t12": "v"},
	// 8 and 7 tags: with the two bucket tags of a histogram sample just above / at the capacity of a pooled tag slice
	{"u1": "v", "u2": "v", "u3": "v", "u4": "v", "u5": "v", "u6": "v", "u7": "v", "u8": "v"},
	{"w1": "v", "w2": "v", "w3": "v", "w4": "v", "w5": "v", "w6": "v", "w7": "v"}}

// c13ExtraCommon: further common tags of the configuration under test (more than a pooled tag slice of the reporter holds).
var c13ExtraCommon map[string]string

func c13CommonTags(n int) map[string]string {
	m := map[string]string{"ck": "cv"}
	c13ExtraCommon = map[string]string{}
	for i := 0; i < n; i++ {
		k, v := fmt.Sprintf("common%02d", i), fmt.Sprintf("cv%02d", i)
		m[k], c13ExtraCommon[k] = v, v
	}
	if n > 0 {
		// the larger configuration also has the service and env keys in its common tag map, with blank values (a
		// templated configuration whose variable expands to nothing), next to the real values in Options.Service and
		// Options.Env: blank means unset, every batch carries the configured service and env
		m["service"], m["env"] = "", ""
	}
	return m
}

// nanBucketMarker is the sample count reported through a bucket the histogram does not have; whether such a
// report is dropped or lands somewhere is not specified, so it is left out of the comparison (it must not panic).
const nanBucketMarker = 777000777

func wantKey(name string, mtype int, count int64, gauge float64, timer int64, tags map[string]string, extra ...string) string {
	ts := make([]string, 0, len(tags)+len(extra))
	for k, v := range tags {
		ts = append(ts, fmt.Sprintf("%q=%q", k, v))
	}
	ts = append(ts, extra...)
	sort.Strings(ts)
	return fmt.Sprintf("%q type=%d count=%d gauge=%#x timer=%d tags=%v", name, mtype, count, math.Float64bits(gauge), timer, ts)
}

// m3Collect decodes all datagrams and checks the per-datagram clauses.
func m3Collect(kind string, dgs [][]byte, tMin, tMax int64) (got []string, clause, detail string) {
	for i, dg := range dgs {
		msg, err := decodeMessage(kind, dg)
		if err != nil {
			return nil, "datagram-does-not-decode", fmt.Sprintf("datagram %d (%d bytes): %v", i, len(dg), err)
		}
		if msg.Left != 0 || msg.Name != "emitMetricBatchV2" || msg.Type != thrift.ONEWAY {
			return nil, "datagram-not-one-oneway-message", fmt.Sprintf("datagram %d: name %q type %d, %d trailing bytes", i, msg.Name, msg.Type, msg.Left)
		}
		common := map[string]string{}
		for _, t := range msg.Batch.CommonTags {
			common[t.Name] = t.Value
		}
		wantCommon := map[string]string{"service": "svc", "env": "test", "ck": "cv"}
		for k, v := range c13ExtraCommon {
			wantCommon[k] = v
		}
		if !tagsEqual(common, wantCommon) || len(msg.Batch.CommonTags) != len(wantCommon) {
			return nil, "common-tags-missing", fmt.Sprintf("datagram %d carries common tags %v, configured %v", i, msg.Batch.CommonTags, wantCommon)
		}
		for _, m := range msg.Batch.Metrics {
			if strings.HasPrefix(m.Name, "tally.internal") {
				continue
			}
			if m.Timestamp < tMin || m.Timestamp > tMax {
				cl := "timestamp-out-of-range"
				if m.Timestamp == 0 {
					cl = "timestamp-zero-right-after-construction"
				}
				return nil, cl, fmt.Sprintf("metric %q has timestamp %d, reporter constructed at %d, last call at %d", m.Name, m.Timestamp, tMin, tMax)
			}
			if m.Value.Count == nanBucketMarker {
				continue
			}
			got = append(got, metricKey(m, false))
		}
	}
	sort.Strings(got)
	return got, "", ""
}

func compareMultisets(got, want []string) (string, string) {
	sort.Strings(want)
	if len(got) != len(want) {
		return "reported-values-not-delivered-exactly-once", fmt.Sprintf("%d values reported, %d arrived\n reported %v\n arrived  %v", len(want), len(got), want, got)
	}
	for i := range want {
		if got[i] != want[i] {
			cl := "delivered-value-differs"
			if strings.Contains(want[i], "tags=") && strings.Split(got[i], "tags=")[0] == strings.Split(want[i], "tags=")[0] {
				cl = "delivered-with-wrong-tags"
			}
			return cl, fmt.Sprintf("arrived  %s\n reported %s", got[i], want[i])
		}
	}
	return "", ""
}

func preOf(pre [][][]byte, d int) [][]byte {
	if d < len(pre) {
		return pre[d]
	}
	return nil
}

type c13Handle struct {
	kind string
	name string
	tags map[string]string
	c    tally.CachedCount
	g    tally.CachedGauge
	t    tally.CachedTimer
	h    tally.CachedHistogram
}

func c13Alphabet(full bool) []string {
	var a []string
	if full {
		for _, k := range []string{"counter", "gauge", "timer", "vhist", "dhist"} {
			for _, n := range []string{"n", "m"} {
				for ti := range c13TagSets {
					if (k == "timer" || k == "dhist" || n == "m") && ti > 3 && ti != 8 {
						continue
					}
					a = append(a, fmt.Sprintf("alloc %s %s tags%d", k, n, ti))
				}
			}
		}
	} else {
		for ti := range c13TagSets {
			a = append(a, fmt.Sprintf("alloc counter n tags%d", ti))
		}
		a = append(a, "alloc gauge n tags0", "alloc gauge n tags2", "alloc timer n tags2", "alloc vhist n tags0", "alloc vhist n tags2",
			"alloc dhist m tags2", "alloc counter m tags2")
	}
	// the empty string is a metric name like any other
	a = append(a, "alloc counter EMPTY tags0", "alloc timer EMPTY tags2", "alloc vhist EMPTY tags0")
	if !full {
		a = append(a, "alloc vhist n tags9", "alloc dhist m tags10")
	} else {
		a = append(a, "alloc dhist m tags9", "alloc dhist m tags10")
	}
	// a bucket that no histogram has (upper bound NaN): asking for it and reporting through it must not panic
	a = append(a, "nanbucket h0", "nanbucket h1")
	for h := 0; h < 3; h++ {
		for v := 0; v < 4; v++ {
			a = append(a, fmt.Sprintf("report h%d v%d", h, v))
		}
	}
	a = append(a, "flush")
	return a
}

var c13Ints = []int64{1, 0, math.MinInt64, math.MaxInt64}
var c13Floats = []float64{1.5, math.Copysign(0, -1), nan1, math.Inf(-1)}

// c13Run executes one history; it is used by the seq job (default schedule) and, with threads, by the sched scenario.
func c13Run(kind string, ndest, queue, ncommon int, alphabet []string, hist []int) (string, string, int) {
	steps := 0
	var sinks []*fastSink
	var addrs []string
	for i := 0; i < ndest; i++ {
		s := newFastSink()
		sinks = append(sinks, s)
		addrs = append(addrs, s.addr)
	}
	defer func() {
		for _, s := range sinks {
			s.close()
		}
	}()
	var want []string
	var rcl, rdet string
	var tMin, tMax int64
	var pre [][][]byte
	var preSink *fastSink
	if ncommon > 0 {
		// (the configurations with many common tags also have an earlier, unrelated reporter in the process)
		preSink = newFastSink()
		defer preSink.close()
	}
	cl, det, leaked := controlledCaseLeaks(1, func() {
		if preSink != nil {
			// an unrelated reporter (other protocol) created - and used - earlier in the same process: clocks, pools
			// and measured sizes of the reporter under test are its own
			other := "compact"
			if kind == "compact" {
				other = "binary"
			}
			if pre, err := m3.NewReporter(m3.Options{HostPorts: []string{preSink.addr}, Service: "pre", Env: "test", Protocol: m3Proto(other), MaxQueueSize: 4}); err == nil {
				pre.AllocateCounter("pre", map[string]string{"p": "q"}).ReportCount(1)
				defer pre.Close()
			}
		}
		ignoreLiveLibraryThreads()
		tMin = rt.NowNanos()
		r, err := m3.NewReporter(m3.Options{HostPorts: addrs, Service: "svc", Env: "test", CommonTags: c13CommonTags(ncommon), Protocol: m3Proto(kind), MaxQueueSize: queue})
		if err != nil {
			rcl, rdet = "new-reporter", err.Error()
			return
		}
		var hs []*c13Handle
		// (bounds handed over unsorted: ids and ranges follow the sorted bounds, not the caller's order)
		// (... and two duration bounds beyond 2^53 ns that a float64 cannot tell apart)
		big := time.Duration(1) << 53
		vb, db := tally.ValueBuckets{2, 1, 1}, tally.DurationBuckets{big + 1, 2 * time.Second, big, time.Second} // (more than one adjacent swap away from sorted)
		for _, op := range hist {
			steps++
			var a, b, c, d string
			fmt.Sscanf(alphabet[op], "%s %s %s %s", &a, &b, &c, &d)
			switch a {
			case "flush":
				r.Flush()
			case "alloc":
				var ti int
				fmt.Sscanf(d, "tags%d", &ti)
				if c == "EMPTY" {
					c = ""
				}
				h := &c13Handle{kind: b, name: c, tags: c13TagSets[ti]}
				switch b {
				case "counter":
					h.c = r.AllocateCounter(c, cloneTags(h.tags))
				case "gauge":
					h.g = r.AllocateGauge(c, cloneTags(h.tags))
				case "timer":
					h.t = r.AllocateTimer(c, cloneTags(h.tags))
				case "vhist":
					h.h = r.AllocateHistogram(c, cloneTags(h.tags), vb)
				case "dhist":
					h.h = r.AllocateHistogram(c, cloneTags(h.tags), db)
				}
				hs = append(hs, h)
			case "nanbucket":
				var hi int
				fmt.Sscanf(b, "h%d", &hi)
				if hi < len(hs) && hs[hi].h != nil {
					if hs[hi].kind == "vhist" {
						hs[hi].h.ValueBucket(0, math.NaN()).ReportSamples(nanBucketMarker)
					} else {
						hs[hi].h.DurationBucket(0, -12345).ReportSamples(nanBucketMarker)
					}
				}
			case "report":
				var hi, vi int
				fmt.Sscanf(b, "h%d", &hi)
				fmt.Sscanf(c, "v%d", &vi)
				if hi >= len(hs) {
					continue
				}
				h := hs[hi]
				switch h.kind {
				case "counter":
					h.c.ReportCount(c13Ints[vi])
					want = append(want, wantKey(h.name, 1, c13Ints[vi], 0, 0, h.tags))
				case "gauge":
					h.g.ReportGauge(c13Floats[vi])
					want = append(want, wantKey(h.name, 2, 0, c13Floats[vi], 0, h.tags))
				case "timer":
					h.t.ReportTimer(time.Duration(c13Ints[vi]))
					want = append(want, wantKey(h.name, 3, 0, 0, c13Ints[vi], h.tags))
				case "vhist":
					// a bound given twice: four buckets (-inf,1] (1,1] (1,2] (2,inf); ids increase with the bounds, and a
					// sample of the first bucket is not filed under the empty one that shares its upper bound
					ups := []float64{1, 2, math.MaxFloat64, 1}
					ids := []string{"0000", "0002", "0003", "0000"}
					names := []string{"-infinity-1.000000", "1.000000-2.000000", "2.000000-infinity", "-infinity-1.000000"}
					h.h.ValueBucket(0, ups[vi]).ReportSamples(c13Ints[vi])
					want = append(want, wantKey(h.name, 1, c13Ints[vi], 0, 0, h.tags, fmt.Sprintf("%q=%q", "bucketid", ids[vi]), fmt.Sprintf("%q=%q", "bucket", names[vi])))
				case "dhist":
					ups := []time.Duration{time.Second, 2 * time.Second, big + 1, math.MaxInt64}
					ids := []string{"0000", "0001", "0003", "0004"}
					names := []string{"-infinity-1s", "1s-2s", big.String() + "-" + (big + 1).String(), (big + 1).String() + "-infinity"}
					h.h.DurationBucket(0, ups[vi]).ReportSamples(c13Ints[vi])
					want = append(want, wantKey(h.name, 1, c13Ints[vi], 0, 0, h.tags, fmt.Sprintf("%q=%q", "bucketid", ids[vi]), fmt.Sprintf("%q=%q", "bucket", names[vi])))
				}
			}
		}
		tMax = rt.NowNanos()
		if err := r.Close(); err != nil {
			rcl, rdet = "close-error", err.Error()
			return
		}
		pre, rcl, rdet = closeBarrier(kind, sinks, len(want))
	})
	if cl != "" {
		return cl, det, steps
	}
	if rcl != "" {
		return rcl, rdet, steps
	}
	if len(leaked) > 0 {
		return "goroutine-alive-after-close", fmt.Sprintf("%v", leaked), steps
	}
	if !rt.IsControlled() {
		tMin, tMax = 0, math.MaxInt64
	}
	for d, s := range sinks {
		nwant := len(want)
		dgs := s.drainUntil(func(d [][]byte) bool {
			n := 0
			for _, dg := range d {
				if msg, err := decodeMessage(kind, dg); err == nil {
					for _, m := range msg.Batch.Metrics {
						if !strings.HasPrefix(m.Name, "tally.internal") {
							n++
						}
					}
				}
			}
			return n >= nwant
		}, preOf(pre, d)...)
		got, cl, det := m3Collect(kind, dgs, tMin, tMax)
		if cl != "" {
			return cl, fmt.Sprintf("[%s, %d destinations, queue %d] destination %d: %s", kind, ndest, queue, d, det), steps
		}
		if cl, det := compareMultisets(got, append([]string{}, want...)); cl != "" {
			return cl, fmt.Sprintf("[%s, %d destinations, queue %d] destination %d: %s", kind, ndest, queue, d, det), steps
		}
	}
	return "", "", steps
}

func c13Jobs(tier string) []*SeqJob {
	alphabet := c13Alphabet(tier == "thorough")
	depth := tierInt(tier, 3, 4)
	var jobs []*SeqJob
	type cfg struct {
		kind    string
		ndest   int
		queue   int
		ncommon int // common tags besides service, env and ck
	}
	cfgs := []cfg{{"compact", 1, 1, 0}, {"binary", 2, 0, 11}}
	if tier == "thorough" {
		cfgs = append(cfgs, cfg{"binary", 1, 2, 0}, cfg{"compact", 2, 2, 11})
	}
	for _, c := range cfgs {
		c := c
		name := fmt.Sprintf("allocate-report-flush-histories-%s-%ddest-queue%d", c.kind, c.ndest, c.queue)
		if c.ncommon > 0 {
			name += fmt.Sprintf("-%dcommon", c.ncommon+3)
		}
		j := &SeqJob{Property: "C13", NoBonus: tier != "thorough", Name: name, Shards: tierInt(tier, len(alphabet), 16), Controlled: true}
		exec := func(hist []int) (cl, det, key string, steps int) {
			cl, det = guard(func() (string, string) {
				a, b, s := c13Run(c.kind, c.ndest, c.queue, c.ncommon, alphabet, hist)
				steps = s
				return a, b
			})
			// canonical state: the handles allocated so far (the tag cache and interner remember them);
			// reports and flushes leave nothing behind once Close has drained the queue
			var ks []string
			for _, op := range hist {
				if strings.HasPrefix(alphabet[op], "alloc") {
					ks = append(ks, alphabet[op])
				}
			}
			nrep := 0
			for _, op := range hist {
				if strings.HasPrefix(alphabet[op], "report") {
					nrep++
				}
			}
			if nrep > 2 {
				nrep = 2
			}
			// flushes leave state behind that the reference does not have (batches emitted, pooled
			// tag slices borrowed and returned, internal counters): count them, up to three
			nfl := 0
			for _, op := range hist {
				if alphabet[op] == "flush" {
					nfl++
				}
			}
			if nfl > 3 {
				nfl = 3
			}
			key = fmt.Sprint(ks, nrep, nfl)
			return
		}
		j.Run = func(ctx *SeqCtx) { bfs(ctx, alphabet, depth, exec) }
		j.Replay = func(ops []string) (string, string) { c, d, _, _ := exec(opIndex(alphabet, ops)); return c, d }
		jobs = append(jobs, j)
	}
	// (one of two destinations is dead: what reaches the healthy one arrives once - a batch re-sent after a failed
	// send would arrive twice at the destinations ahead of the failing one)
	jobs = append(jobs, c13ManyTagSetsJob(tier), c13StringLengthJob("C13", tier), c12DeadDestinationJob("C13", tier))
	return jobs
}

// c13ManyTagSetsJob: N distinct tag sets are allocated on one reporter (N above every pool and cache size the
// reporter has), later ones longer than earlier ones; then the FIRST handles are reported. Each value must come
// out with the tags it was allocated with, and no datagram may exceed the packet limit.
func c13ManyTagSetsJob(tier string) *SeqJob {
	run := func(kind string, n int) (string, string, int) {
		s := newFastSink()
		defer s.close()
		var rcl, rdet string
		const limit = 1440
		caseHorizon = 50000000
		defer func() { caseHorizon = 0 }()
		ccl, cdet := controlledCase(0, func() {
			r, err := m3.NewReporter(m3.Options{HostPorts: []string{s.addr}, Service: "svc", Env: "test", CommonTags: c13CommonTags(0), Protocol: m3Proto(kind), MaxQueueSize: 256, MaxPacketSizeBytes: limit})
			if err != nil {
				rcl, rdet = "new-reporter", err.Error()
				return
			}
			hs := make([]tally.CachedCount, 0, n)
			for i := 0; i < n; i++ {
				tags := map[string]string{"id": fmt.Sprint(i)}
				if i >= 64 {
					tags["later-and-longer"] = strings.Repeat("x", 40)
				}
				hs = append(hs, r.AllocateCounter("m", tags))
			}
			for i := 0; i < 64 && i < n; i++ {
				hs[i].ReportCount(int64(i + 1))
			}
			if err := r.Close(); err != nil {
				rcl, rdet = "close-error", err.Error()
			}
		})
		if ccl != "" {
			return ccl, cdet, n
		}
		if rcl != "" {
			return rcl, rdet, n
		}
		seen := map[int64]bool{}
		for i, dg := range s.readAvailable(nil) {
			if len(dg) > limit {
				return "datagram-exceeds-max-packet-size", fmt.Sprintf("[%s] after %d tag sets had been allocated: datagram %d has %d bytes, limit %d", kind, n, i, len(dg), limit), n
			}
			msg, err := decodeMessage(kind, dg)
			if err != nil {
				return "datagram-does-not-decode", err.Error(), n
			}
			for _, m := range msg.Batch.Metrics {
				if m.Name != "m" {
					continue
				}
				want := fmt.Sprint(m.Value.Count - 1)
				if len(m.Tags) != 1 || m.Tags[0].Name != "id" || m.Tags[0].Value != want {
					return "delivered-with-wrong-tags", fmt.Sprintf("[%s] %d tag sets allocated on one reporter: the value reported through the handle allocated with {id:%s} arrived with tags %v", kind, n, want, m.Tags), n
				}
				seen[m.Value.Count] = true
			}
		}
		for i := 0; i < 64 && i < n; i++ {
			if !seen[int64(i+1)] {
				return "reported-values-not-delivered-exactly-once", fmt.Sprintf("[%s] value %d did not arrive", kind, i+1), n
			}
		}
		return "", "", n
	}
	sizes := []int{10, 1000, 4090, 4200, 5000}
	if tier == "thorough" {
		sizes = append(sizes, 8300, 10000, 20000)
	}
	j := &SeqJob{Property: "C13", Name: "many-tag-sets-on-one-reporter", Controlled: true, Shards: 2}
	j.Run = func(ctx *SeqCtx) {
		k := 0
		for _, kind := range []string{"compact", "binary"} {
			for _, n := range sizes {
				k++
				if !ctx.Mine(k) {
					continue
				}
				kind, n := kind, n
				steps := 0
				cl, det := guard(func() (string, string) { a, b, s := run(kind, n); steps = s; return a, b })
				ops := []string{kind, fmt.Sprint(n)}
				ctx.Case(steps, true, func() string { return fmt.Sprint("many tag sets ", ops) })
				ctx.State(fmt.Sprint(ops))
				if cl != "" {
					ctx.Fail(cl, det, ops)
					if ctx.viol != nil {
						return
					}
				}
			}
		}
		ctx.Alphabet(fmt.Sprintf("numbers of distinct tag sets on one reporter %v", sizes))
		ctx.DepthDone(1)
	}
	j.Replay = func(ops []string) (string, string) {
		var n int
		fmt.Sscan(ops[1], &n)
		return guard(func() (string, string) { a, b, _ := run(ops[0], n); return a, b })
	}
	return j
}

var _ = m3thrift.MetricType_COUNTER

// c13StringLengthJob: every string length from 0 to N in each position of a metric (name, tag name, tag value,
// a common tag value), both protocols; also a tag set of every width from 0 to 40 tags. Encoders and pools have
// fixed-size scratch space (64 bytes in the vendored thrift runtime, 10 tags per pooled slice): what is sent must
// arrive intact at every length, and nothing may panic or hang (the C14 registration of this job).
func c13StringLengthJob(prop, tier string) *SeqJob {
	maxLen := tierInt(tier, 140, 300)
	run := func(kind, pos string, n int) (string, string, int) {
		s := newFastSink()
		defer s.close()
		var rcl, rdet string
		str := strings.Repeat("s", n)
		name, tags, common := "m", map[string]string{"k": "v"}, c13CommonTags(0)
		switch pos {
		case "name":
			name = "m" + str
		case "tagname":
			tags = map[string]string{"k" + str: "v"}
		case "tagvalue":
			tags = map[string]string{"k": str}
		case "commonvalue":
			common = map[string]string{"ck": str}
		case "width":
			tags = map[string]string{}
			for i := 0; i < n; i++ {
				tags[fmt.Sprintf("k%02d", i)] = fmt.Sprintf("v%02d", i)
			}
		}
		caseHorizon = 5000000
		defer func() { caseHorizon = 0 }()
		ccl, cdet := controlledCase(0, func() {
			r, err := m3.NewReporter(m3.Options{HostPorts: []string{s.addr}, Service: "svc", Env: "test", CommonTags: common, Protocol: m3Proto(kind), MaxQueueSize: 64})
			if err != nil {
				rcl, rdet = "new-reporter", err.Error()
				return
			}
			r.AllocateCounter(name, cloneTags(tags)).ReportCount(7)
			r.AllocateGauge(name+"g", cloneTags(tags)).ReportGauge(1.5)
			// a second, different tag set next to the first (adjacent in every pool)
			r.AllocateCounter("other", map[string]string{"o": "1"}).ReportCount(9)
			if err := r.Close(); err != nil {
				rcl, rdet = "close-error", err.Error()
			}
		})
		where := fmt.Sprintf("[%s] %s of %d", kind, pos, n)
		if ccl != "" {
			return ccl, where + ": " + cdet, 4
		}
		if rcl != "" {
			return rcl, where + ": " + rdet, 4
		}
		got := map[string]int{}
		for i, dg := range s.readAvailable(nil) {
			msg, err := decodeMessage(kind, dg)
			if err != nil {
				return "datagram-does-not-decode", fmt.Sprintf("%s: datagram %d (%d bytes): %v", where, i, len(dg), err), 4
			}
			for k, v := range common {
				found := false
				for _, t := range msg.Batch.CommonTags {
					found = found || (t.Name == k && t.Value == v)
				}
				if !found {
					return "common-tag-not-intact", fmt.Sprintf("%s: common tag %q missing or changed (%d common tags)", where, k, len(msg.Batch.CommonTags)), 4
				}
			}
			for _, m := range msg.Batch.Metrics {
				tg := map[string]string{}
				for _, t := range m.Tags {
					tg[t.Name] = t.Value
				}
				switch {
				case m.Name == name && m.Value.MetricType == m3thrift.MetricType_COUNTER && m.Value.Count == 7 && tagString(tg) == tagString(tags):
					got["counter"]++
				case m.Name == name+"g" && m.Value.MetricType == m3thrift.MetricType_GAUGE && m.Value.Gauge == 1.5 && tagString(tg) == tagString(tags):
					got["gauge"]++
				case m.Name == "other" && m.Value.Count == 9 && tagString(tg) == `{"o":"1"}`:
					got["other"]++
				case strings.HasPrefix(m.Name, "tally.internal") || strings.HasPrefix(m.Name, "tally_internal"):
				default:
					nm := m.Name
					if len(nm) > 80 {
						nm = nm[:80] + "..."
					}
					return "delivered-not-intact", fmt.Sprintf("%s: a metric arrived that was not sent like that: name %q (%d bytes), %d tags %.300s", where, nm, len(m.Name), len(m.Tags), tagString(tg)), 4
				}
			}
		}
		for _, k := range []string{"counter", "gauge", "other"} {
			if got[k] != 1 {
				return "reported-values-not-delivered-exactly-once", fmt.Sprintf("%s: the %s value arrived %d times", where, k, got[k]), 4
			}
		}
		return "", "", 4
	}
	positions := []string{"name", "tagname", "tagvalue", "commonvalue", "width"}
	j := &SeqJob{Property: prop, Name: "every-string-length-and-tag-set-width", Controlled: true, Shards: tierInt(tier, 2, 4), NoBonus: true}
	j.Run = func(ctx *SeqCtx) {
		k := 0
		for _, kind := range []string{"compact", "binary"} {
			for _, pos := range positions {
				top := maxLen
				if pos == "width" {
					top = 40
				}
				for n := 0; n <= top; n++ {
					k++
					if !ctx.Mine(k) {
						continue
					}
					if ctx.Expired() {
						return
					}
					kind, pos, n := kind, pos, n
					steps := 0
					cl, det := guard(func() (string, string) { a, b, s := run(kind, pos, n); steps = s; return a, b })
					ops := []string{kind, pos, fmt.Sprint(n)}
					ctx.Case(steps, true, func() string { return fmt.Sprint(ops) })
					ctx.State(fmt.Sprint(ops))
					if cl != "" {
						ctx.Fail(cl, det, ops)
						if ctx.viol != nil {
							return
						}
					}
				}
			}
		}
		ctx.Alphabet(fmt.Sprintf("string lengths 0..%d as metric name / tag name / tag value / common tag value; tag sets of 0..40 tags; compact and binary", maxLen))
		ctx.DepthDone(1)
	}
	j.Replay = func(ops []string) (string, string) {
		var n int
		fmt.Sscan(ops[2], &n)
		return guard(func() (string, string) { a, b, _ := run(ops[0], ops[1], n); return a, b })
	}
	return j
}
