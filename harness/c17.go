package main

import (
	"fmt"
	"io"
	"log"
	"math"
	"os"
	"sort"
	"strings"
	"sync/atomic"
	"time"

	prom "github.com/prometheus/client_golang/prometheus"
	dto "github.com/prometheus/client_model/go"
	tally "github.com/uber-go/tally/v4"
	tprom "github.com/uber-go/tally/v4/prometheus"
	rt "github.com/uber-go/tally/v4/verifrt"
)

type c17Op struct {
	label string
	do    func(root tally.Scope, m *c17Model)
}

type c17Model struct {
	counters map[string]float64
	gauges   map[string]float64
	tcount   map[string]uint64
	hsamples map[string][]float64 // in seconds for duration histograms
	hbounds  map[string][]float64
	hnan     map[string]uint64          // NaN samples recorded per value histogram
	dbounds  map[string][]time.Duration // duration histograms: the configured bounds and the samples as durations, so that
	dsamples map[string][]time.Duration // "sample <= bound" is decided on integers, whatever conversion to seconds is used
}

func lbl(name string, tags map[string]string) string { return name + tagString(tags) }

func c17Ops() []c17Op {
	k1, k2 := map[string]string{"k": "1"}, map[string]string{"k": "2"}
	vspec := tally.ValueBuckets{1, 2}
	// bounds whose conversion to seconds is sensitive to how it is computed (1.14s, 1.39s)
	dspec := tally.DurationBuckets{500 * time.Millisecond, 1118 * time.Millisecond, 1140 * time.Millisecond, 1390 * time.Millisecond, 2 * time.Second}
	var ops []c17Op
	addC := func(t map[string]string, v int64) {
		ops = append(ops, c17Op{fmt.Sprintf("c%s inc %d", tagString(t), v), func(r tally.Scope, m *c17Model) {
			r.Tagged(t).Counter("c").Inc(v)
			m.counters[lbl("c", t)] += float64(v)
		}})
	}
	addC(k1, 1)
	addC(k1, 2)
	addC(k2, 1)
	// the series of tag value 2 reached through a scope that already carries the key with value 1 (same tag keys,
	// another value: another series of the family, whichever way its scope was derived)
	ops = append(ops, c17Op{"c{k:1}.Tagged{k:2} inc 4", func(r tally.Scope, m *c17Model) {
		r.Tagged(k1).Tagged(k2).Counter("c").Inc(4)
		m.counters[lbl("c", k2)] += 4
	}})
	for _, v := range []float64{1.5, -2} {
		v := v
		ops = append(ops, c17Op{fmt.Sprintf("g upd %v", v), func(r tally.Scope, m *c17Model) {
			r.Gauge("g").Update(v)
			m.gauges[lbl("g", map[string]string{})] = v
		}})
	}
	for _, d := range []time.Duration{time.Second, 2 * time.Millisecond} {
		d := d
		ops = append(ops, c17Op{fmt.Sprintf("t{k:1} rec %v", d), func(r tally.Scope, m *c17Model) {
			r.Tagged(k1).Timer("t").Record(d)
			m.tcount[lbl("t", k1)]++
		}})
	}
	for _, x := range []float64{0.5, 1, 1.5, 2, 3} {
		x := x
		ops = append(ops, c17Op{fmt.Sprintf("hv{k:1} rec %v", x), func(r tally.Scope, m *c17Model) {
			r.Tagged(k1).Histogram("hv", vspec).RecordValue(x)
			m.hsamples[lbl("hv", k1)] = append(m.hsamples[lbl("hv", k1)], x)
			m.hbounds[lbl("hv", k1)] = []float64{1, 2}
		}})
	}
	// a NaN sample is "<=" no bound: it may be counted in the total (or left out), never at a finite bound
	ops = append(ops, c17Op{"hv{k:1} rec NaN", func(r tally.Scope, m *c17Model) {
		r.Tagged(k1).Histogram("hv", vspec).RecordValue(math.NaN())
		m.hnan[lbl("hv", k1)]++
		if m.hsamples[lbl("hv", k1)] == nil {
			m.hsamples[lbl("hv", k1)] = []float64{}
		}
		m.hbounds[lbl("hv", k1)] = []float64{1, 2}
	}})
	// one name on two scopes with the same THREE tag keys (a canonical id must not depend on the order in which a tag map is walked)
	for _, v := range []string{"1", "2"} {
		v := v
		t3 := map[string]string{"a": v, "b": v, "c": v}
		ops = append(ops, c17Op{fmt.Sprintf("c3%s inc 1", tagString(t3)), func(r tally.Scope, m *c17Model) {
			r.Tagged(t3).Counter("c3").Inc(1)
			m.counters[lbl("c3", t3)]++
		}})
	}
	ops = append(ops, c17Op{"hv{k:2} rec 1", func(r tally.Scope, m *c17Model) {
		r.Tagged(k2).Histogram("hv", vspec).RecordValue(1)
		m.hsamples[lbl("hv", k2)] = append(m.hsamples[lbl("hv", k2)], 1)
		m.hbounds[lbl("hv", k2)] = []float64{1, 2}
	}})
	// a second value histogram whose (strictly increasing) bounds have the same identity in the scope's bucket
	// cache as {1,2} (the identity is the sum of the bit patterns): it must still be exposed with its own bounds
	wspec := tally.ValueBuckets{0.5, 4}
	for _, x := range []float64{0.75, 3} {
		x := x
		ops = append(ops, c17Op{fmt.Sprintf("hw rec %v", x), func(r tally.Scope, m *c17Model) {
			r.SubScope("s").Histogram("hw", wspec).RecordValue(x)
			m.hsamples[lbl("s_hw", map[string]string{})] = append(m.hsamples[lbl("s_hw", map[string]string{})], x)
			m.hbounds[lbl("s_hw", map[string]string{})] = []float64{0.5, 4}
		}})
	}
	// a histogram asked for with nil buckets on a derived scope: the root's configured defaults (value bounds)
	for _, x := range []float64{0.1, 3} {
		x := x
		ops = append(ops, c17Op{fmt.Sprintf("hdef rec %v", x), func(r tally.Scope, m *c17Model) {
			r.SubScope("s").Histogram("hdef", nil).RecordValue(x)
			id := lbl("s_hdef", map[string]string{})
			m.hsamples[id] = append(m.hsamples[id], x)
			m.hbounds[id] = []float64{0.25, 8}
		}})
	}
	for _, d := range []time.Duration{1118 * time.Millisecond, 1140 * time.Millisecond, 1390 * time.Millisecond, time.Second, 3 * time.Second} {
		d := d
		ops = append(ops, c17Op{fmt.Sprintf("hd rec %v", d), func(r tally.Scope, m *c17Model) {
			r.Histogram("hd", dspec).RecordDuration(d)
			m.hsamples[lbl("hd", map[string]string{})] = append(m.hsamples[lbl("hd", map[string]string{})], float64(d)/float64(time.Second))
			m.hbounds[lbl("hd", map[string]string{})] = dspec.AsValues()
			m.dbounds[lbl("hd", map[string]string{})] = dspec.AsDurations()
			m.dsamples[lbl("hd", map[string]string{})] = append(m.dsamples[lbl("hd", map[string]string{})], d)
		}})
	}
	// names and tag keys that concatenate to the same string with '_' or with nothing in between (legal: no name is reused)
	for _, nt := range []struct {
		name string
		tags map[string]string
	}{{"r_host", map[string]string{"zone": "1"}}, {"r", map[string]string{"host": "1", "zone": "1"}}, {"b_dir", map[string]string{}}, {"b", map[string]string{"dir": "1"}}, {"bdir", map[string]string{}}} {
		nt := nt
		ops = append(ops, c17Op{fmt.Sprintf("%s%s inc 1", nt.name, tagString(nt.tags)), func(r tally.Scope, m *c17Model) {
			r.Tagged(nt.tags).Counter(nt.name).Inc(1)
			m.counters[lbl(nt.name, nt.tags)]++
		}})
	}
	ops = append(ops, c17Op{"pass", nil})
	return ops
}

func labelsOf(m *dto.Metric) map[string]string {
	t := map[string]string{}
	for _, l := range m.Label {
		t[l.GetName()] = l.GetValue()
	}
	return t
}

// gatherCheck compares Gather() with the model (only what has been reported so far: reported is a snapshot of the model at the last pass).
func gatherCheck(reg *prom.Registry, m *c17Model, timers map[string]uint64) (string, string) {
	fams, err := reg.Gather()
	if err != nil {
		return "gather-error", err.Error()
	}
	seen := map[string]bool{}
	for _, f := range fams {
		for _, mt := range f.Metric {
			id := lbl(f.GetName(), labelsOf(mt))
			seen[id] = true
			switch {
			case mt.Counter != nil:
				if mt.Counter.GetValue() != m.counters[id] {
					return "counter-value", fmt.Sprintf("%s exposed as %v, increments add up to %v", id, mt.Counter.GetValue(), m.counters[id])
				}
			case mt.Gauge != nil:
				if mt.Gauge.GetValue() != m.gauges[id] {
					return "gauge-value", fmt.Sprintf("%s exposed as %v, last update %v", id, mt.Gauge.GetValue(), m.gauges[id])
				}
			case mt.Summary != nil:
				if mt.Summary.GetSampleCount() != timers[id] {
					return "timer-count", fmt.Sprintf("%s summary count %d, %d values recorded", id, mt.Summary.GetSampleCount(), timers[id])
				}
			case mt.Histogram != nil:
				if n, ok := timers[id]; ok && m.hbounds[id] == nil {
					if mt.Histogram.GetSampleCount() != n {
						return "timer-count", fmt.Sprintf("%s histogram-timer count %d, %d values recorded", id, mt.Histogram.GetSampleCount(), n)
					}
					continue
				}
				samples := m.hsamples[id]
				if tot := mt.Histogram.GetSampleCount(); tot != uint64(len(samples)) && tot != uint64(len(samples))+m.hnan[id] {
					return "histogram-total", fmt.Sprintf("%s total %d, %d samples recorded (and %d NaNs)", id, tot, len(samples), m.hnan[id])
				}
				if db := m.dbounds[id]; db != nil {
					// duration histogram: bucket i belongs to the configured bound i; the exposed bound is that
					// duration in seconds (to within rounding) and its count the samples that are <= it as durations
					var fin []*dto.Bucket
					for _, b := range mt.Histogram.Bucket {
						if !math.IsInf(b.GetUpperBound(), 1) {
							fin = append(fin, b)
						}
					}
					if len(fin) != len(db) {
						return "histogram-bounds", fmt.Sprintf("%s exposed with %d finite bounds, created with %v", id, len(fin), db)
					}
					for i, b := range fin {
						sec := float64(db[i]) / float64(time.Second)
						if math.Abs(b.GetUpperBound()-sec) > 1e-12*math.Abs(sec) {
							return "histogram-bounds", fmt.Sprintf("%s bound %d exposed as %v, created as %v", id, i, b.GetUpperBound(), db[i])
						}
						var want uint64
						for _, d := range m.dsamples[id] {
							if d <= db[i] {
								want++
							}
						}
						if b.GetCumulativeCount() != want {
							return "histogram-cumulative-count", fmt.Sprintf("%s: cumulative count at bound %v (exposed as %v) is %d, %d recorded durations are <= that bound (durations %v)", id, db[i], b.GetUpperBound(), b.GetCumulativeCount(), want, m.dsamples[id])
						}
					}
					continue
				}
				if hb := m.hbounds[id]; hb != nil {
					var exposed []float64
					for _, b := range mt.Histogram.Bucket {
						if !math.IsInf(b.GetUpperBound(), 1) {
							exposed = append(exposed, b.GetUpperBound())
						}
					}
					if fmt.Sprint(exposed) != fmt.Sprint(hb) {
						return "histogram-bounds", fmt.Sprintf("%s exposed with bounds %v, created with %v", id, exposed, hb)
					}
				}
				for _, b := range mt.Histogram.Bucket {
					var want uint64
					for _, s := range samples {
						if s <= b.GetUpperBound() {
							want++
						}
					}
					if b.GetCumulativeCount() != want {
						return "histogram-cumulative-count", fmt.Sprintf("%s: cumulative count at bound %v is %d, %d recorded samples are <= that bound (samples %v)", id, b.GetUpperBound(), b.GetCumulativeCount(), want, samples)
					}
				}
			}
		}
	}
	var missing []string
	for id := range m.counters {
		if !seen[id] {
			missing = append(missing, id)
		}
	}
	for id := range m.gauges {
		if !seen[id] {
			missing = append(missing, id)
		}
	}
	for id := range m.hsamples {
		if !seen[id] {
			missing = append(missing, id)
		}
	}
	for id := range timers {
		if !seen[id] {
			missing = append(missing, id)
		}
	}
	if len(missing) > 0 {
		sort.Strings(missing)
		return "series-missing", fmt.Sprintf("not exposed: %v", missing)
	}
	return "", ""
}

func newC17Model() *c17Model {
	return &c17Model{counters: map[string]float64{}, gauges: map[string]float64{}, tcount: map[string]uint64{}, hsamples: map[string][]float64{}, hbounds: map[string][]float64{},
		dbounds: map[string][]time.Duration{}, dsamples: map[string][]time.Duration{}, hnan: map[string]uint64{}}
}

func c17Jobs(tier string) []*SeqJob {
	ops := c17Ops()
	var alphabet []string
	for _, o := range ops {
		alphabet = append(alphabet, o.label)
	}
	depth := tierInt(tier, 3, 4)
	exec := func(tt tprom.TimerType) func(hist []int) (string, string, string, int) {
		return func(hist []int) (cl, det, key string, steps int) {
			cl, det = guard(func() (string, string) {
				reg := prom.NewRegistry()
				rep := tprom.NewReporter(tprom.Options{Registerer: reg, DefaultTimerType: tt})
				so := tprom.DefaultSanitizerOpts
				root, _ := tally.VerifNewRootScope(tally.ScopeOptions{CachedReporter: rep, Separator: tprom.DefaultSeparator, SanitizeOptions: &so, OmitCardinalityMetrics: true,
					DefaultBuckets: tally.ValueBuckets{0.25, 8}}, 0, 1) // strictly increasing: what C17 quantifies over
				m := newC17Model()
				for _, op := range hist {
					if ops[op].do != nil {
						ops[op].do(root, m)
					} else {
						tally.VerifReportOnce(root)
						if c, d := gatherCheck(reg, m, m.tcount); c != "" {
							return c, "after " + fmt.Sprint(histLabels(alphabet, hist)) + ": " + d
						}
					}
					steps++
				}
				tally.VerifReportOnce(root)
				steps++
				if c, d := gatherCheck(reg, m, m.tcount); c != "" {
					return c, "after " + fmt.Sprint(histLabels(alphabet, hist)) + " + final pass: " + d
				}
				key = fmt.Sprint(tt, m.counters, m.gauges, m.tcount, m.hsamples, m.hnan)
				return "", ""
			})
			return
		}
	}
	var jobs []*SeqJob
	for _, tt := range []tprom.TimerType{tprom.SummaryTimerType, tprom.HistogramTimerType} {
		tt := tt
		name := "exposition-histories-summary-timers"
		if tt == tprom.HistogramTimerType {
			name = "exposition-histories-histogram-timers"
		}
		j := &SeqJob{Property: "C17", Name: name, Shards: tierInt(tier, 4, 8)}
		j.Run = func(ctx *SeqCtx) { bfs(ctx, alphabet, depth, exec(tt)) }
		j.Replay = func(o []string) (string, string) { c, d, _, _ := exec(tt)(opIndex(alphabet, o)); return c, d }
		jobs = append(jobs, j)
	}
	jobs = append(jobs, c17ConflictJob(tier), c17PreregJob(tier), c17ConfigConflicts)
	return jobs
}

func histLabels(alphabet []string, h []int) []string {
	out := make([]string, len(h))
	for i, o := range h {
		out[i] = alphabet[o]
	}
	return out
}

type cbPanic struct{ err error }

// c17Via: how the conflict job builds its reporter ("" = NewReporter(Options), "cfg:<onError mode>" =
// Configuration.NewReporter); c17Handlers numbers the handler paths (the default mux refuses a path twice).
var (
	c17Via      string
	c17Handlers int64
)

// c17ConflictJob: every sequence of first uses that reuse a name across kinds or tag keys.
func c17ConflictJob(tier string) *SeqJob {
	kinds := []string{"counter", "gauge", "timer", "vhist", "dhist"}
	keysets := []map[string]string{{}, {"k": "1"}, {"j": "1"}}
	type use struct {
		kind string
		tags map[string]string
	}
	var uses []use
	var alphabet []string
	for _, k := range kinds {
		for _, t := range keysets {
			uses = append(uses, use{k, t})
			alphabet = append(alphabet, fmt.Sprintf("first-use x as %s %s", k, tagString(t)))
		}
	}
	depth := tierInt(tier, 3, 3)
	run := func(tt tprom.TimerType, panicking bool, hist []int) (cl, det string, steps int) {
		reg := prom.NewRegistry()
		var cbErrs []error
		cbNil := false
		opts := tprom.Options{Registerer: reg, DefaultTimerType: tt}
		opts.OnRegisterError = func(e error) {
			if e == nil {
				cbNil = true
			}
			cbErrs = append(cbErrs, e)
			if panicking {
				panic(cbPanic{e})
			}
		}
		var rep tprom.Reporter
		if c17Via == "" {
			rep = tprom.NewReporter(opts)
		} else {
			// the other public way to a reporter: Configuration.NewReporter, with the textual onError mode of the
			// configuration AND the callback of ConfigurationOptions (the callback is "the configured error callback")
			cfg := tprom.Configuration{OnError: strings.TrimPrefix(c17Via, "cfg:"), HandlerPath: fmt.Sprintf("/verif-c17-%d", atomic.AddInt64(&c17Handlers, 1))}
			if tt == tprom.SummaryTimerType {
				cfg.TimerType = "summary"
			} else {
				cfg.TimerType = "histogram"
			}
			var err error
			if rep, err = cfg.NewReporter(tprom.ConfigurationOptions{Registry: reg, OnError: opts.OnRegisterError}); err != nil {
				return "configuration-refused", err.Error(), 0
			}
		}
		so := tprom.DefaultSanitizerOpts
		root, _ := tally.VerifNewRootScope(tally.ScopeOptions{CachedReporter: rep, Separator: tprom.DefaultSeparator, SanitizeOptions: &so, OmitCardinalityMetrics: true}, 0, 1)
		for i, op := range hist {
			u := uses[op]
			// every use comes from its own subscope so that tally's own per-scope cache does not hide the reporter
			s := root.Tagged(u.tags).Tagged(map[string]string{}) // same tags; scope identity shared by equal tags
			_ = i
			res := func() (r interface{}) {
				defer func() { r = recover() }()
				switch u.kind {
				case "counter":
					c := s.Counter("x")
					c.Inc(1)
				case "gauge":
					g := s.Gauge("x")
					g.Update(1)
				case "timer":
					t := s.Timer("x")
					t.Record(time.Second)
				case "vhist":
					h := s.Histogram("x", tally.ValueBuckets{1, 2})
					h.RecordValue(1.5)
				case "dhist":
					h := s.Histogram("x", tally.DurationBuckets{time.Second})
					h.RecordDuration(time.Second)
				}
				tally.VerifReportOnce(root)
				return nil
			}()
			steps++
			if res != nil {
				if _, ok := res.(cbPanic); ok && panicking {
					continue // the callback's own panic
				}
				return "panic-on-name-reuse", fmt.Sprintf("%v (callback panics: %v): %v", histLabels(alphabet, hist[:i+1]), panicking, res), steps
			}
		}
		if cbNil {
			return "callback-got-nil-error", fmt.Sprint(histLabels(alphabet, hist)), steps
		}
		// reference: the first use owns the name with its family (counter, gauge, summary, histogram) and its
		// label names; every later distinct use with another family or other label names is a registration that
		// Prometheus rejects, and each of those must have reached the callback
		family := func(k string) string {
			switch {
			case k == "timer" && tt == tprom.SummaryTimerType:
				return "summary"
			case k == "timer", k == "vhist", k == "dhist":
				return "histogram"
			}
			return k
		}
		expected, seenUse := 0, map[string]bool{}
		for i, op := range hist {
			// a scope hands out the metric object it already has for a name and kind (value and duration
			// histograms are one kind to it): no new registration then
			sk := uses[op].kind
			if sk == "vhist" || sk == "dhist" {
				sk = "histogram"
			}
			sk += tagString(uses[op].tags)
			if seenUse[sk] {
				continue
			}
			seenUse[sk] = true
			if i == 0 {
				continue
			}
			o, u := uses[hist[0]], uses[op]
			if family(o.kind) != family(u.kind) || tagString(o.tags) != tagString(u.tags) {
				expected++
			}
		}
		if len(cbErrs) < expected {
			return "rejected-registration-not-reported", fmt.Sprintf("%v (timer type %d): %d registrations clash with the first use of the name, the error callback was invoked %d times", histLabels(alphabet, hist), int(tt), expected, len(cbErrs)), steps
		}
		// everything is still usable afterwards: the owner of the name is still exposed with what was recorded through
		// it, and a further series of the owner's family (same kind, same label names, a new label value) is accepted
		// without a word to the callback and exposed as well
		owner := uses[hist[0]]
		ownerUses := 0
		for _, op := range hist {
			if uses[op].kind == owner.kind && tagString(uses[op].tags) == tagString(owner.tags) {
				ownerUses++
			}
		}
		var fresh map[string]string
		if len(owner.tags) > 0 {
			fresh = map[string]string{}
			for k := range owner.tags {
				fresh[k] = "9"
			}
		}
		ncb := len(cbErrs)
		var fams []*dto.MetricFamily
		res := func() (r interface{}) {
			defer func() { r = recover() }()
			if fresh != nil {
				s := root.Tagged(fresh)
				switch owner.kind {
				case "counter":
					s.Counter("x").Inc(1)
				case "gauge":
					s.Gauge("x").Update(1)
				case "timer":
					s.Timer("x").Record(time.Second)
				case "vhist":
					s.Histogram("x", tally.ValueBuckets{1, 2}).RecordValue(1.5)
				case "dhist":
					s.Histogram("x", tally.DurationBuckets{time.Second}).RecordDuration(time.Second)
				}
			}
			tally.VerifReportOnce(root)
			var err error
			fams, err = reg.Gather()
			if err != nil {
				return err
			}
			return nil
		}()
		if res != nil {
			return "unusable-after-conflict", fmt.Sprintf("%v: %v", histLabels(alphabet, hist), res), steps
		}
		if len(cbErrs) != ncb {
			return "accepted-registration-reported-as-error", fmt.Sprintf("%v (timer type %d): a new series %s of the family that owns the name was handed to the error callback: %v", histLabels(alphabet, hist), int(tt), tagString(fresh), cbErrs[ncb:]), steps
		}
		count := func(want map[string]string) (float64, bool) {
			for _, f := range fams {
				if f.GetName() != "x" {
					continue
				}
				for _, mt := range f.Metric {
					if tagString(labelsOf(mt)) != tagString(want) {
						continue
					}
					switch {
					case mt.Counter != nil:
						return mt.Counter.GetValue(), true
					case mt.Gauge != nil:
						return mt.Gauge.GetValue(), true
					case mt.Summary != nil:
						return float64(mt.Summary.GetSampleCount()), true
					case mt.Histogram != nil:
						return float64(mt.Histogram.GetSampleCount()), true
					}
				}
			}
			return 0, false
		}
		wantOwner := float64(ownerUses)
		if owner.kind == "gauge" {
			wantOwner = 1
		}
		ot := owner.tags
		if ot == nil {
			ot = map[string]string{}
		}
		// (value agreement is not claimed where one name is used for two kinds: another kind of the same Prometheus family
		// and label names lands in the owner's vector. The owner must still be there, with at least its own.)
		if got, ok := count(ot); !ok || got < wantOwner {
			return "owner-of-the-name-no-longer-exposed", fmt.Sprintf("%v (timer type %d, callback panics: %v): the first use (%s %s, used %d times) is exposed=%v with %v, want %v", histLabels(alphabet, hist), int(tt), panicking, owner.kind, tagString(ot), ownerUses, ok, got, wantOwner), steps
		}
		if fresh != nil {
			if got, ok := count(fresh); !ok || got < 1 {
				return "new-series-of-the-owning-family-not-exposed", fmt.Sprintf("%v (timer type %d, callback panics: %v): %s %s recorded once after the conflicts: exposed=%v with %v", histLabels(alphabet, hist), int(tt), panicking, owner.kind, tagString(fresh), ok, got), steps
			}
		}
		return "", "", steps
	}
	// (run under the controlled scheduler: a lock left held by a panicking registration shows up as a deadlock
	// of the next use instead of hanging the worker)
	plainRun := run
	run = func(tt tprom.TimerType, panicking bool, hist []int) (cl, det string, steps int) {
		ccl, cdet := controlledCase(0, func() { cl, det, steps = plainRun(tt, panicking, hist) })
		if ccl != "" {
			return ccl, fmt.Sprintf("%v (timer type %d, callback panics: %v): %s", histLabels(alphabet, hist), int(tt), panicking, cdet), steps
		}
		return cl, det, steps
	}
	j := &SeqJob{Property: "C17", Name: "registration-conflicts", Shards: 4, Controlled: true}
	j.Run = func(ctx *SeqCtx) {
		ctx.Alphabet(alphabet...)
		n := 0
		enumSeqs(len(uses), depth, func(seq []int) bool {
			n++
			if len(seq) == 0 || !ctx.Mine(n) {
				return true
			}
			if ctx.Expired() {
				return false
			}
			for _, tt := range []tprom.TimerType{tprom.SummaryTimerType, tprom.HistogramTimerType} {
				for _, pan := range []bool{false, true} {
					sq := append([]int{}, seq...)
					steps := 0
					cl, det := guard(func() (string, string) { c, d, s := run(tt, pan, sq); steps = s; return c, d })
					ops := []string{fmt.Sprint(int(tt)), fmt.Sprint(pan)}
					ops = append(ops, histLabels(alphabet, sq)...)
					ctx.Case(steps, len(sq) > 1, func() string { return fmt.Sprint(ops) })
					ctx.State(fmt.Sprint(ops))
					if cl != "" {
						ctx.Fail(cl, det, ops)
						if ctx.viol != nil {
							return false
						}
					}
				}
			}
			return true
		})
		if !ctx.st.TimedOut && ctx.viol == nil {
			ctx.DepthDone(depth)
		}
	}
	j.Replay = func(ops []string) (string, string) {
		var tt int
		var pan bool
		fmt.Sscan(ops[0], &tt)
		fmt.Sscan(ops[1], &pan)
		return guard(func() (string, string) {
			c, d, _ := run(tprom.TimerType(tt), pan, opIndex(alphabet, ops[2:]))
			return c, d
		})
	}
	c17ConfigConflicts = c17ThroughConfiguration(alphabet, len(uses), tierInt(tier, 2, 3), run)
	return j
}

var c17ConfigConflicts *SeqJob

// c17ThroughConfiguration: the conflict histories with the reporter built by Configuration.NewReporter, for every
// textual onError mode next to a callback in the options. What the modes print is discarded.
func c17ThroughConfiguration(alphabet []string, nuses, depth int, run func(tt tprom.TimerType, panicking bool, hist []int) (string, string, int)) *SeqJob {
	modes := []string{"cfg:", "cfg:none", "cfg:log", "cfg:stderr", "cfg:something-else"}
	quiet := func(f func()) {
		saved := os.Stderr
		log.SetOutput(io.Discard)
		defer log.SetOutput(saved)
		if null, err := os.OpenFile(os.DevNull, os.O_WRONLY, 0); err == nil {
			os.Stderr = null
			defer func() { os.Stderr = saved; null.Close() }()
		}
		f()
	}
	one := func(mode string, tt tprom.TimerType, pan bool, hist []int) (cl, det string, steps int) {
		c17Via = mode
		defer func() { c17Via = "" }()
		quiet(func() { cl, det, steps = run(tt, pan, hist) })
		if cl != "" {
			det = "[reporter from Configuration{OnError: " + strings.TrimPrefix(mode, "cfg:") + "}.NewReporter(ConfigurationOptions{OnError: callback})] " + det
		}
		return
	}
	j := &SeqJob{Property: "C17", Name: "registration-conflicts-reporter-from-Configuration", Shards: 4, Controlled: true}
	j.Run = func(ctx *SeqCtx) {
		ctx.Alphabet(alphabet...)
		n := 0
		enumSeqs(nuses, depth, func(seq []int) bool {
			n++
			if len(seq) == 0 || !ctx.Mine(n) {
				return true
			}
			if ctx.Expired() {
				return false
			}
			for _, mode := range modes {
				for _, tt := range []tprom.TimerType{tprom.SummaryTimerType, tprom.HistogramTimerType} {
					for _, pan := range []bool{false, true} {
						sq := append([]int{}, seq...)
						steps := 0
						mode, tt, pan := mode, tt, pan
						cl, det := guard(func() (string, string) { c, d, s := one(mode, tt, pan, sq); steps = s; return c, d })
						ops := []string{mode, fmt.Sprint(int(tt)), fmt.Sprint(pan)}
						ops = append(ops, histLabels(alphabet, sq)...)
						ctx.Case(steps, len(sq) > 1, func() string { return fmt.Sprint(ops) })
						ctx.State(fmt.Sprint(ops))
						if cl != "" {
							ctx.Fail(cl, det, ops)
							if ctx.viol != nil {
								return false
							}
						}
					}
				}
			}
			return true
		})
		if !ctx.st.TimedOut && ctx.viol == nil {
			ctx.DepthDone(depth)
		}
	}
	j.Replay = func(ops []string) (string, string) {
		var tt int
		var pan bool
		fmt.Sscan(ops[1], &tt)
		fmt.Sscan(ops[2], &pan)
		return guard(func() (string, string) {
			c, d, _ := one(ops[0], tprom.TimerType(tt), pan, opIndex(alphabet, ops[3:]))
			return c, d
		})
	}
	return j
}

// c17Scenarios: concurrent first use of one metric family (same name and tag keys, different tag values).
func c17Scenarios(tier string) []*Scenario {
	sc := &Scenario{Property: "C17", Name: "P-concurrent-first-use-of-one-family"}
	sc.Body = func(x *Run) {
		reg := prom.NewRegistry()
		ncb := 0
		rep := tprom.NewReporter(tprom.Options{Registerer: reg, OnRegisterError: func(e error) { ncb++ }})
		so := tprom.DefaultSanitizerOpts
		root, _ := tally.VerifNewRootScope(tally.ScopeOptions{CachedReporter: rep, Separator: tprom.DefaultSeparator, SanitizeOptions: &so, OmitCardinalityMetrics: true}, 0, 1)
		mk := func(v string, n int64) func() {
			return func() {
				s := root.Tagged(map[string]string{"k": v})
				s.Counter("c").Inc(n)
				s.Gauge("g").Update(float64(n))
				s.Histogram("h", tally.ValueBuckets{1, 2}).RecordValue(1)
			}
		}
		t1 := rt.GoNamed("user1", mk("1", 1))
		t2 := rt.GoNamed("user2", mk("2", 2))
		t1.Join()
		t2.Join()
		tally.VerifReportOnce(root)
		if ncb != 0 {
			x.failf("registration-error-on-legal-concurrent-first-use", "OnRegisterError was called %d time(s) although one name was used for one kind with one tag-key set", ncb)
			return
		}
		m := newC17Model()
		m.counters[lbl("c", map[string]string{"k": "1"})] = 1
		m.counters[lbl("c", map[string]string{"k": "2"})] = 2
		m.gauges[lbl("g", map[string]string{"k": "1"})] = 1
		m.gauges[lbl("g", map[string]string{"k": "2"})] = 2
		for _, v := range []string{"1", "2"} {
			m.hsamples[lbl("h", map[string]string{"k": v})] = []float64{1}
			m.hbounds[lbl("h", map[string]string{"k": v})] = []float64{1, 2}
		}
		if c, d := gatherCheck(reg, m, m.tcount); c != "" {
			x.failf("concurrent-"+c, "%s", d)
		}
	}
	sc.Check = func(x *Run, o *rt.Outcome) (string, string, string) { return "", "", "ok" }
	// P2: two DIFFERENT names are used for the first time at the same moment (whatever table the reporter keeps its
	// vectors in must end up with both), then each name is used again from a scope with another tag value: a legal
	// further series of a family that exists - no registration error, and everything exposed
	sc2 := &Scenario{Property: "C17", Name: "P2-concurrent-first-use-of-two-families-then-further-series"}
	sc2.Body = func(x *Run) {
		reg := prom.NewRegistry()
		ncb := 0
		rep := tprom.NewReporter(tprom.Options{Registerer: reg, OnRegisterError: func(e error) { ncb++ }})
		so := tprom.DefaultSanitizerOpts
		root, _ := tally.VerifNewRootScope(tally.ScopeOptions{CachedReporter: rep, Separator: tprom.DefaultSeparator, SanitizeOptions: &so, OmitCardinalityMetrics: true}, 0, 1)
		t1 := rt.GoNamed("user1", func() { root.Tagged(map[string]string{"k": "1"}).Counter("x").Inc(1) })
		t2 := rt.GoNamed("user2", func() { root.Tagged(map[string]string{"k": "2"}).Counter("y").Inc(2) })
		t1.Join()
		t2.Join()
		s3 := root.Tagged(map[string]string{"k": "3"})
		s3.Counter("x").Inc(4)
		s3.Counter("y").Inc(8)
		tally.VerifReportOnce(root)
		if ncb != 0 {
			x.failf("registration-error-on-legal-concurrent-first-use", "OnRegisterError was called %d time(s) although each name was used for one kind with one tag-key set", ncb)
			return
		}
		m := newC17Model()
		m.counters[lbl("x", map[string]string{"k": "1"})] = 1
		m.counters[lbl("x", map[string]string{"k": "3"})] = 4
		m.counters[lbl("y", map[string]string{"k": "2"})] = 2
		m.counters[lbl("y", map[string]string{"k": "3"})] = 8
		if c, d := gatherCheck(reg, m, m.tcount); c != "" {
			x.failf("concurrent-"+c, "%s", d)
		}
	}
	sc2.Check = func(x *Run, o *rt.Outcome) (string, string, string) { return "", "", "ok" }
	return []*Scenario{sc, sc2}
}

// c17PreregJob: vectors declared up front through RegisterCounter / RegisterGauge / RegisterTimer (the helpers that
// attach a HELP text or per-timer buckets), with the label names given in EVERY order (all permutations of two and
// of three names), then used through scopes whose tag values differ per key. Whatever the declared order, each value
// must be exposed under the labels of the scope that recorded it, and the declared HELP text must be kept.
func c17PreregJob(tier string) *SeqJob {
	perms2 := [][]string{{"a", "b"}, {"b", "a"}}
	perms3 := [][]string{{"a", "b", "c"}, {"a", "c", "b"}, {"b", "a", "c"}, {"b", "c", "a"}, {"c", "a", "b"}, {"c", "b", "a"}}
	sets := map[string]map[int]map[string]string{
		"x": {2: {"a": "1", "b": "2"}, 3: {"a": "1", "b": "2", "c": "3"}},
		"y": {2: {"a": "2", "b": "1"}, 3: {"a": "3", "b": "1", "c": "2"}},
	}
	type op struct {
		kind  string
		arity int
		set   string
	}
	var ops []op
	var alphabet []string
	for _, ar := range []int{2, 3} {
		for _, set := range []string{"x", "y"} {
			for _, kind := range []string{"inc", "gauge", "timer"} {
				ops = append(ops, op{kind, ar, set})
				alphabet = append(alphabet, fmt.Sprintf("%s %s%d", kind, set, ar))
			}
		}
	}
	ops = append(ops, op{kind: "pass"})
	alphabet = append(alphabet, "pass")
	type cfg struct {
		p2, p3 int
		tt     tprom.TimerType
		// which kinds are declared up front (bit 0 counter, 1 gauge, 2 timer)
		declared int
	}
	var cfgs []cfg
	for p2 := range perms2 {
		for p3 := range perms3 {
			for _, tt := range []tprom.TimerType{tprom.SummaryTimerType, tprom.HistogramTimerType} {
				cfgs = append(cfgs, cfg{p2, p3, tt, 7})
			}
		}
	}
	// partially declared: only one kind up front
	for _, d := range []int{1, 2, 4} {
		cfgs = append(cfgs, cfg{1, 5, tprom.SummaryTimerType, d}, cfg{1, 3, tprom.HistogramTimerType, d})
	}
	exec := func(c cfg) func(hist []int) (string, string, string, int) {
		return func(hist []int) (cl, det, key string, steps int) {
			cl, det = guard(func() (string, string) {
				reg := prom.NewRegistry()
				rep := tprom.NewReporter(tprom.Options{Registerer: reg, DefaultTimerType: c.tt})
				help := map[string]string{}
				for ar, perm := range map[int][]string{2: perms2[c.p2], 3: perms3[c.p3]} {
					keys := append([]string{}, perm...)
					if c.declared&1 != 0 {
						n := fmt.Sprintf("pc%d", ar)
						if _, err := rep.RegisterCounter(n, keys, "help of "+n); err != nil {
							return "register-error", err.Error()
						}
						help[n] = "help of " + n
					}
					if c.declared&2 != 0 {
						n := fmt.Sprintf("pg%d", ar)
						if _, err := rep.RegisterGauge(n, keys, "help of "+n); err != nil {
							return "register-error", err.Error()
						}
						help[n] = "help of " + n
					}
					if c.declared&4 != 0 {
						n := fmt.Sprintf("pt%d", ar)
						if _, err := rep.RegisterTimer(n, keys, "help of "+n, nil); err != nil {
							return "register-error", err.Error()
						}
						help[n] = "help of " + n
					}
					for i := range keys {
						if keys[i] != perm[i] {
							return "caller-slice-modified", fmt.Sprintf("Register* reordered the caller's tag keys: %v -> %v", perm, keys)
						}
					}
				}
				so := tprom.DefaultSanitizerOpts
				root, _ := tally.VerifNewRootScope(tally.ScopeOptions{CachedReporter: rep, Separator: tprom.DefaultSeparator, SanitizeOptions: &so, OmitCardinalityMetrics: true}, 0, 1)
				m := newC17Model()
				where := func() string {
					return fmt.Sprintf("[declared %03b with label orders %v %v, timer type %v] after %v", c.declared, perms2[c.p2], perms3[c.p3], c.tt, histLabels(alphabet, hist))
				}
				check := func() (string, string) {
					if cl, d := gatherCheck(reg, m, m.tcount); cl != "" {
						return cl, where() + ": " + d
					}
					fams, _ := reg.Gather()
					for _, f := range fams {
						if h, ok := help[f.GetName()]; ok && f.GetHelp() != h {
							return "declared-help-text-lost", fmt.Sprintf("%s: %s exposed with HELP %q, declared %q", where(), f.GetName(), f.GetHelp(), h)
						}
					}
					return "", ""
				}
				gv := 1.0
				for _, i := range hist {
					o := ops[i]
					steps++
					if o.kind == "pass" {
						tally.VerifReportOnce(root)
						if cl, d := check(); cl != "" {
							return cl, d
						}
						continue
					}
					tags := sets[o.set][o.arity]
					s := root.Tagged(cloneTags(tags))
					switch o.kind {
					case "inc":
						n := fmt.Sprintf("pc%d", o.arity)
						s.Counter(n).Inc(int64(len(hist)) + 1)
						m.counters[lbl(n, tags)] += float64(len(hist) + 1)
					case "gauge":
						n := fmt.Sprintf("pg%d", o.arity)
						gv += 0.5
						s.Gauge(n).Update(gv)
						m.gauges[lbl(n, tags)] = gv
					case "timer":
						n := fmt.Sprintf("pt%d", o.arity)
						s.Timer(n).Record(time.Second)
						m.tcount[lbl(n, tags)]++
					}
				}
				tally.VerifReportOnce(root)
				steps++
				if cl, d := check(); cl != "" {
					return cl, d
				}
				key = fmt.Sprint(c, len(m.counters), len(m.gauges), m.tcount, keysOfF(m.counters), keysOfF(m.gauges))
				return "", ""
			})
			return
		}
	}
	depth := tierInt(tier, 3, 4)
	j := &SeqJob{Property: "C17", Name: "preregistered-vectors-every-label-order", Shards: tierInt(tier, 4, 8)}
	j.Run = func(ctx *SeqCtx) {
		for i, c := range cfgs {
			ctx.OpsPrefix = []string{fmt.Sprint(i)}
			bfs(ctx, alphabet, depth, exec(c))
			if ctx.viol != nil || ctx.st.TimedOut {
				return
			}
		}
	}
	j.Replay = func(o []string) (string, string) {
		var i int
		fmt.Sscan(o[0], &i)
		c, d, _, _ := exec(cfgs[i])(opIndex(alphabet, o[1:]))
		return c, d
	}
	return j
}

func keysOfF(m map[string]float64) []string {
	var ks []string
	for k := range m {
		ks = append(ks, k)
	}
	sort.Strings(ks)
	return ks
}
