package main

import (
	"fmt"
	"math"
	"sort"
	"time"

	tally "github.com/uber-go/tally/v4"
)

// Size sweeps: one dimension (metrics per scope, tags per scope, children of a multi reporter, ...) is taken
// through EVERY size from 0 or 1 up to a bound well above the capacities, pool sizes and fast-path limits the
// code has today (16 metric slots per scope, 32 stack slots of the key writer, 10-slot pooled tag slices, 64-bit
// masks), while everything else stays minimal. The short-history searches cover interactions at small sizes;
// these cover "the 17th", "the 33rd", "the 65th" of one thing. Each size is one execution on the real code.

// metricsPerScopeSweep: n counters, gauges and histograms in one scope, created one after the other, then used.
// kinds: which of "counter", "gauge", "histogram" are judged (all are created).
func metricsPerScopeSweep(prop, name string, tier string, judge map[string]bool) *SeqJob {
	maxN := tierInt(tier, 40, 140)
	run := func(n int, cached, onSub bool) (string, string, int) {
		rec := &Recorder{NoPoints: true}
		root, _ := tally.VerifNewRootScope(scopeOpts(rec, cached, false), 0, 1)
		s := tally.Scope(root)
		prefix := ""
		if onSub {
			s = root.SubScope("s").Tagged(map[string]string{"k": "v"})
			prefix = "s."
		}
		tagStr := "{}"
		if onSub {
			tagStr = tagString(map[string]string{"k": "v"})
		}
		cs := make([]tally.Counter, n)
		gs := make([]tally.Gauge, n)
		hs := make([]tally.Histogram, n)
		steps := 0
		for i := 0; i < n; i++ {
			cs[i] = s.Counter(fmt.Sprintf("c%03d", i))
			gs[i] = s.Gauge(fmt.Sprintf("g%03d", i))
			hs[i] = s.Histogram(fmt.Sprintf("h%03d", i), tally.ValueBuckets{1, 2})
			// handles obtained earlier are used while the scope keeps growing
			cs[0].Inc(1)
			gs[0].Update(float64(i))
			steps += 5
		}
		first := int64(n) // what the loop above added to counter 0
		for round := 0; round < 2; round++ {
			for i := 0; i < n; i++ {
				cs[i].Inc(int64(10*(i+1) + round))
				gs[i].Update(float64(i) + 0.25 + float64(round))
				hs[i].RecordValue(1.5)
				steps += 3
				if s.Counter(fmt.Sprintf("c%03d", i)) != cs[i] || s.Gauge(fmt.Sprintf("g%03d", i)) != gs[i] || s.Histogram(fmt.Sprintf("h%03d", i), tally.ValueBuckets{1, 2}) != hs[i] {
					return "same-name-different-metric", fmt.Sprintf("%d metrics per kind in one scope: asking again for metric %d returned another object", n, i), steps
				}
			}
			mark := len(rec.Log)
			tally.VerifReportOnce(root)
			steps++
			gotC, gotG, gotH := map[string]int64{}, map[string]uint64{}, map[string]int64{}
			ng := map[string]int{}
			for _, e := range rec.Log[mark:] {
				switch e.Kind {
				case "counter":
					gotC[e.ID()] += e.I
				case "gauge":
					gotG[e.ID()] = e.F
					ng[e.ID()]++
				case "hvalue":
					if e.HiF == 2 {
						gotH[e.ID()] += e.I
					} else if e.I != 0 {
						return "histogram-sample-in-wrong-bucket", fmt.Sprintf("%d histograms in one scope: %s", n, e.String()), steps
					}
				}
			}
			for i := 0; i < n; i++ {
				id := fmt.Sprintf("%sc%03d%s", prefix, i, tagStr)
				want := int64(10*(i+1) + round)
				if i == 0 && round == 0 {
					want += first
				}
				if judge["counter"] && gotC[id] != want {
					return "counter-of-a-large-scope-not-delivered", fmt.Sprintf("%d counters in one scope (%s reporter, subscope=%v), pass %d: counter %d delivered %d, increments add up to %d", n, b2s(cached), onSub, round, i, gotC[id], want), steps
				}
				gid := fmt.Sprintf("%sg%03d%s", prefix, i, tagStr)
				if judge["gauge"] && (ng[gid] != 1 || gotG[gid] != math.Float64bits(float64(i)+0.25+float64(round))) {
					return "gauge-of-a-large-scope-not-delivered", fmt.Sprintf("%d gauges in one scope (%s reporter, subscope=%v), pass %d: gauge %d delivered %d times, last bits %#x, last update %v", n, b2s(cached), onSub, round, i, ng[gid], gotG[gid], float64(i)+0.25+float64(round)), steps
				}
				hid := fmt.Sprintf("%sh%03d%s", prefix, i, tagStr)
				if judge["histogram"] && gotH[hid] != 1 {
					return "histogram-of-a-large-scope-not-delivered", fmt.Sprintf("%d histograms in one scope (%s reporter, subscope=%v), pass %d: histogram %d delivered %d samples in (1,2], 1 recorded", n, b2s(cached), onSub, round, i, gotH[hid]), steps
				}
			}
		}
		return "", "", steps
	}
	j := &SeqJob{Property: prop, Name: name, Shards: 4}
	j.Run = func(ctx *SeqCtx) {
		k := 0
		for n := 1; n <= maxN; n++ {
			for _, cached := range []bool{true, false} {
				for _, onSub := range []bool{false, true} {
					k++
					if !ctx.Mine(k) {
						continue
					}
					if ctx.Expired() {
						return
					}
					n, cached, onSub := n, cached, onSub
					steps := 0
					cl, det := guard(func() (string, string) { a, b, s := run(n, cached, onSub); steps = s; return a, b })
					ops := []string{fmt.Sprint(n), fmt.Sprint(cached), fmt.Sprint(onSub)}
					ctx.Case(steps, true, func() string { return fmt.Sprint("metrics per scope ", ops) })
					ctx.State(fmt.Sprint(ops))
					if cl != "" {
						ctx.Fail(cl, det, ops)
						if ctx.viol != nil {
							return
						}
					}
				}
			}
		}
		ctx.Alphabet(fmt.Sprintf("every number of metrics per kind in one scope from 1 to %d", maxN), "plain and cached reporter", "root and tagged subscope")
		ctx.DepthDone(maxN)
	}
	j.Replay = func(ops []string) (string, string) {
		var n int
		var cached, onSub bool
		fmt.Sscan(ops[0], &n)
		fmt.Sscan(ops[1], &cached)
		fmt.Sscan(ops[2], &onSub)
		return guard(func() (string, string) { a, b, _ := run(n, cached, onSub); return a, b })
	}
	return j
}

// tagChainSweep: a chain of Tagged calls that adds one tag at a time up to W tags, in several key orders. At every
// width: the same derivation again, the grouping "all tags at once from the root", a sibling from the same parent
// and an override of the first tag are derived, each records a distinct amount, and one pass at the end must
// deliver every amount under exactly the identity the derivation denotes.
func tagChainSweep(prop, name string, tier string, snapshot bool) *SeqJob {
	maxW := tierInt(tier, 40, 72)
	orders := []string{"ascending", "descending", "shuffled", "ascending-root-tag"}
	run := func(order string, shards uint, cached bool) (string, string, int) {
		rec := &Recorder{NoPoints: true}
		o := scopeOpts(rec, cached, false)
		rootTags := map[string]string{}
		if order == "ascending-root-tag" {
			rootTags = map[string]string{"root": "r"}
			o.Tags = cloneTags(rootTags)
		}
		var root tally.Scope
		var ts tally.TestScope
		if snapshot {
			// a test scope: what was recorded is read from a snapshot (cached selects nothing here)
			ts = tally.VerifNewTestScopeOpts(tally.ScopeOptions{Tags: o.Tags}, shards)
			root = ts
		} else {
			root, _ = tally.VerifNewRootScope(o, 0, shards)
		}
		keys := make([]string, maxW)
		for i := range keys {
			keys[i] = fmt.Sprintf("key%02d", i)
		}
		switch order {
		case "descending":
			sort.Sort(sort.Reverse(sort.StringSlice(keys)))
		case "shuffled":
			x := uint64(12345)
			for i := len(keys) - 1; i > 0; i-- {
				x = x*6364136223846793005 + 1442695040888963407
				j := int((x >> 33) % uint64(i+1))
				keys[i], keys[j] = keys[j], keys[i]
			}
		}
		want := map[string]int64{}
		byIdent := map[string]tally.Scope{}
		amount := int64(1)
		steps := 0
		record := func(s tally.Scope, tags map[string]string, how string, w int) (string, string) {
			id := "m" + tagString(tags)
			if prev, ok := byIdent[id]; ok && prev != s {
				return "equal-identities-different-scopes", fmt.Sprintf("%s key order, %d tags, %d shards: %s returned a scope other than the one first returned for %s", order, w, shards, how, id)
			}
			byIdent[id] = s
			s.Counter("m").Inc(amount)
			want[id] += amount
			amount++
			steps += 2
			return "", ""
		}
		cur := tally.Scope(root)
		all := cloneTags(rootTags)
		for w := 1; w <= maxW; w++ {
			parent, parentTags := cur, cloneTags(all)
			k, v := keys[w-1], fmt.Sprintf("v%02d", w)
			all[k] = v
			cur = parent.Tagged(map[string]string{k: v})
			if cl, d := record(cur, all, "the chain step", w); cl != "" {
				return cl, d, steps
			}
			if cl, d := record(parent.Tagged(map[string]string{k: v}), all, "the same step again", w); cl != "" {
				return cl, d, steps
			}
			if cl, d := record(root.Tagged(cloneTags(all)), all, "all tags at once from the root", w); cl != "" {
				return cl, d, steps
			}
			sib := cloneTags(parentTags)
			sib["sib"] = "s"
			if cl, d := record(parent.Tagged(map[string]string{"sib": "s"}), sib, "a sibling from the same parent", w); cl != "" {
				return cl, d, steps
			}
			ovr := cloneTags(all)
			ovr[keys[0]] = "override"
			os := cur.Tagged(map[string]string{keys[0]: "override"})
			if os == cur {
				return "override-returned-the-parent", fmt.Sprintf("%s key order, %d tags: Tagged with another value for an inherited key returned the scope it was called on", order, w), steps
			}
			if cl, d := record(os, ovr, "an override of an inherited tag", w); cl != "" {
				return cl, d, steps
			}
			// the public key function agrees with the key of the merged map at every width (rightmost wins)
			if a, b := tally.KeyForPrefixedStringMap("p", ovr), tally.VerifKey("p", all, map[string]string{keys[0]: "override"}); a != b {
				return "key-of-maps-differs-from-key-of-merged-map", fmt.Sprintf("%d tags: key(parent tags, override) = %q, key(merged) = %q", w, b, a), steps
			}
		}
		var got map[string]int64
		if snapshot {
			got = map[string]int64{}
			for key, e := range ts.Snapshot().Counters() {
				if tally.KeyForPrefixedStringMap(e.Name(), e.Tags()) != key {
					return "snapshot-key-differs-from-entry", fmt.Sprintf("entry %q %s is filed under key %q", e.Name(), tagString(e.Tags()), key), steps
				}
				got[e.Name()+tagString(e.Tags())] += e.Value()
			}
		} else {
			tally.VerifReportOnce(root)
			got = sumCounters(rec.Log, 0, len(rec.Log))
		}
		for id, w := range want {
			if got[id] != w {
				return "delivered-under-wrong-identity", fmt.Sprintf("%s key order, up to %d tags, %d shards, %s reporter: %d recorded through derivations denoting %s, %d delivered under it", order, maxW, shards, b2s(cached), w, id, got[id]), steps
			}
		}
		for id, g := range got {
			if want[id] != g {
				return "delivered-under-wrong-identity", fmt.Sprintf("%s key order: %d delivered under %s, %d recorded", order, g, id, want[id]), steps
			}
		}
		return "", "", steps
	}
	j := &SeqJob{Property: prop, Name: name, Shards: 4}
	j.Run = func(ctx *SeqCtx) {
		k := 0
		for _, order := range orders {
			for _, shards := range []uint{1, 4} {
				for _, cached := range []bool{false, true} {
					if snapshot && cached {
						continue
					}
					// Go's map iteration order is not controlled in this build: each configuration is repeated
					for rep := 0; rep < tierInt(tier, 4, 16); rep++ {
						k++
						if !ctx.Mine(k) {
							continue
						}
						if ctx.Expired() {
							return
						}
						order, shards, cached := order, shards, cached
						steps := 0
						cl, det := guard(func() (string, string) { a, b, s := run(order, shards, cached); steps = s; return a, b })
						ops := []string{order, fmt.Sprint(shards), fmt.Sprint(cached)}
						ctx.Case(steps, true, func() string { return fmt.Sprint("tag chain ", ops) })
						ctx.State(fmt.Sprint(ops, rep))
						if cl != "" {
							ctx.Fail(cl, det, ops)
							if ctx.viol != nil {
								return
							}
						}
					}
				}
			}
		}
		ctx.Alphabet(fmt.Sprintf("every number of tags from 1 to %d, added one Tagged call at a time", maxW), fmt.Sprint("key orders ", orders), "1 and 4 registry shards", "plain and cached reporter")
		ctx.DepthDone(maxW)
	}
	j.Replay = func(ops []string) (string, string) {
		var shards uint
		var cached bool
		fmt.Sscan(ops[1], &shards)
		fmt.Sscan(ops[2], &cached)
		for i := 0; i < 8; i++ { // map iteration order
			if cl, det := guard(func() (string, string) { a, b, _ := run(ops[0], shards, cached); return a, b }); cl != "" {
				return cl, det
			}
		}
		return "", ""
	}
	return j
}

var _ = time.Second

// scopesPerRegistrySweep (C07): n subscopes under one root with 4 registry shards, every n from 1 to N: record on
// all, close every second one, pass, re-obtain the closed ones and record on them again (and on the others), pass:
// per identity exactly what was recorded is delivered, and re-obtained scopes are fresh objects that stay registered.
func scopesPerRegistrySweep(tier string) *SeqJob {
	maxN := tierInt(tier, 70, 300)
	run := func(n int, cached bool, shards uint) (string, string, int) {
		rec := &Recorder{NoPoints: true}
		root, _ := tally.VerifNewRootScope(scopeOpts(rec, cached, false), 0, shards)
		tags := func(i int) map[string]string { return map[string]string{"id": fmt.Sprintf("%03d", i)} }
		want := map[string]int64{}
		scopes := make([]tally.Scope, n)
		steps := 0
		for i := range scopes {
			scopes[i] = root.Tagged(tags(i))
			scopes[i].Counter("c").Inc(int64(i + 1))
			want["c"+tagString(tags(i))] += int64(i + 1)
			steps += 2
		}
		for i := 0; i < n; i += 2 {
			closeScope(scopes[i])
			steps++
		}
		if n%3 != 0 { // with and without a pass between Close and the re-request
			tally.VerifReportOnce(root)
			steps++
		}
		for i := range scopes {
			s := root.Tagged(tags(i))
			steps++
			if i%2 == 0 {
				if s == scopes[i] || tally.VerifIsNoop(s) {
					return "closed-scope-handed-out", fmt.Sprintf("%d scopes, %d shards: scope %d was closed; asking for it again returned the closed object or the inert scope", n, shards, i), steps
				}
			} else if s != scopes[i] {
				return "live-scope-not-shared", fmt.Sprintf("%d scopes, %d shards: scope %d is live; asking for it again returned another object", n, shards, i), steps
			}
			s.Counter("c").Inc(1000)
			want["c"+tagString(tags(i))] += 1000
			scopes[i] = s
		}
		tally.VerifReportOnce(root)
		for i := range scopes {
			scopes[i].Counter("c").Inc(7)
			want["c"+tagString(tags(i))] += 7
		}
		tally.VerifReportOnce(root)
		steps += n + 2
		got := sumCounters(rec.Log, 0, len(rec.Log))
		for id, w := range want {
			if got[id] != w {
				return "recorded-before-close-not-delivered-exactly-once", fmt.Sprintf("%d scopes under one root (%d shards, %s reporter): %s recorded %d, delivered %d", n, shards, b2s(cached), id, w, got[id]), steps
			}
		}
		return "", "", steps
	}
	j := &SeqJob{Property: "C07", Name: "size-sweep-scopes-per-registry", Shards: 4}
	j.Run = func(ctx *SeqCtx) {
		k := 0
		for n := 1; n <= maxN; n++ {
			for _, cached := range []bool{true, false} {
				for _, shards := range []uint{1, 4} {
					k++
					if !ctx.Mine(k) {
						continue
					}
					if ctx.Expired() {
						return
					}
					n, cached, shards := n, cached, shards
					steps := 0
					cl, det := guard(func() (string, string) { a, b, s := run(n, cached, shards); steps = s; return a, b })
					ops := []string{fmt.Sprint(n), fmt.Sprint(cached), fmt.Sprint(shards)}
					ctx.Case(steps, true, func() string { return fmt.Sprint("scopes per registry ", ops) })
					ctx.State(fmt.Sprint(ops))
					if cl != "" {
						ctx.Fail(cl, det, ops)
						if ctx.viol != nil {
							return
						}
					}
				}
			}
		}
		ctx.Alphabet(fmt.Sprintf("every number of subscopes under one root from 1 to %d", maxN), "1 and 4 registry shards", "plain and cached reporter")
		ctx.DepthDone(maxN)
	}
	j.Replay = func(ops []string) (string, string) {
		var n int
		var cached bool
		var shards uint
		fmt.Sscan(ops[0], &n)
		fmt.Sscan(ops[1], &cached)
		fmt.Sscan(ops[2], &shards)
		return guard(func() (string, string) { a, b, _ := run(n, cached, shards); return a, b })
	}
	return j
}

// bucketSetsPerRootSweep (C20): N distinct bucket sets are used under one root (or under a second root of the
// same process) after a first group of histograms was created; then the first group records one sample between its
// own bounds. Each of them must still deliver it in the bucket of its own set - whatever a cache or pool did with
// the sets that came later.
func bucketSetsPerRootSweep(tier string) *SeqJob {
	sizes := []int{10, 100, 255, 256, 257, 600, 1300}
	if tier == "thorough" {
		sizes = append(sizes, 3000, 6000, 20000)
	}
	run := func(n int, cached, otherRoot bool) (string, string, int) {
		rec := &Recorder{NoPoints: true}
		root, _ := tally.VerifNewRootScope(scopeOpts(rec, cached, false), 0, 1)
		const keep = 40
		kept := make([]tally.Histogram, keep)
		for i := range kept {
			kept[i] = root.SubScope(fmt.Sprintf("k%02d", i)).Histogram("h", tally.ValueBuckets{float64(i), float64(i) + 0.5})
		}
		churn := tally.Scope(root)
		if otherRoot {
			rec2 := &Recorder{NoPoints: true}
			churn, _ = tally.VerifNewRootScope(scopeOpts(rec2, cached, false), 0, 1)
		}
		for j := 0; j < n; j++ {
			churn.SubScope("x").Histogram(fmt.Sprintf("h%d", j), tally.ValueBuckets{1000 + float64(j), 2000 + float64(j), 3000 + float64(j)}).RecordValue(1)
		}
		for i, h := range kept {
			h.RecordValue(float64(i) + 0.25)
		}
		tally.VerifReportOnce(root)
		seen := map[string]bool{}
		for _, e := range rec.Log {
			if e.Kind == "hvalue" && e.I != 0 && len(e.Name) == 5 && e.Name[0] == 'k' {
				var i int
				fmt.Sscanf(e.Name, "k%02d.h", &i)
				if e.LoF != float64(i) || e.HiF != float64(i)+0.5 || e.I != 1 {
					return "histogram-uses-foreign-bounds", fmt.Sprintf("%d further bucket sets were used (under %s) after histogram %s was created with [%d %v]: its sample %v was delivered as %d sample(s) in (%v,%v]",
						n, map[bool]string{true: "another root of the process", false: "the same root"}[otherRoot], e.Name, i, float64(i)+0.5, float64(i)+0.25, e.I, e.LoF, e.HiF), n + keep
				}
				seen[e.Name] = true
			}
		}
		if len(seen) != keep {
			return "histogram-sample-lost", fmt.Sprintf("%d of %d histograms delivered their sample after %d further bucket sets", len(seen), keep, n), n + keep
		}
		return "", "", n + keep
	}
	j := &SeqJob{Property: "C20", Name: "size-sweep-bucket-sets-per-process", Shards: 2}
	j.Run = func(ctx *SeqCtx) {
		k := 0
		for _, n := range sizes {
			for _, cached := range []bool{false, true} {
				for _, other := range []bool{false, true} {
					k++
					if !ctx.Mine(k) {
						continue
					}
					if ctx.Expired() {
						return
					}
					n, cached, other := n, cached, other
					steps := 0
					cl, det := guard(func() (string, string) { a, b, s := run(n, cached, other); steps = s; return a, b })
					ops := []string{fmt.Sprint(n), fmt.Sprint(cached), fmt.Sprint(other)}
					ctx.Case(steps, true, func() string { return fmt.Sprint("bucket sets ", ops) })
					ctx.State(fmt.Sprint(ops))
					if cl != "" {
						ctx.Fail(cl, det, ops)
						if ctx.viol != nil {
							return
						}
					}
				}
			}
		}
		ctx.Alphabet(fmt.Sprintf("numbers of distinct bucket sets used after the histograms under test were created: %v", sizes), "under the same root and under a second root of the process")
		ctx.DepthDone(1)
	}
	j.Replay = func(ops []string) (string, string) {
		var n int
		var cached, other bool
		fmt.Sscan(ops[0], &n)
		fmt.Sscan(ops[1], &cached)
		fmt.Sscan(ops[2], &other)
		return guard(func() (string, string) { a, b, _ := run(n, cached, other); return a, b })
	}
	return j
}
