package main

import (
	"fmt"
	"sort"
	"strings"

	tally "github.com/uber-go/tally/v4"
)

func c05Maps(maxEntries int) []map[string]string {
	keys := []string{"a", "b", ""}
	// (the last two differ only in a byte that is not valid UTF-8, next to a separator byte: identities are byte strings)
	vals := []string{"1", "2", "", "1,b=2", "1+", "1=\xff", "1=\xfe"}
	out := []map[string]string{{}}
	for _, k := range keys {
		for _, v := range vals {
			out = append(out, map[string]string{k: v})
		}
	}
	// tag sets that differ only in where the boundary between a name and its value falls (a key built by writing names
	// and values back to back, or "name=value" strings without escaping, cannot tell them apart)
	out = append(out, map[string]string{"a1": ""}, map[string]string{"": "a1"}, map[string]string{"a": "b=c"}, map[string]string{"a=b": "c"})
	// a part that STARTS with a separator byte (against {"a":"","b":"2"} above), and parts that END in the escape byte
	// next to a separator (against {"a":"1,b=2"}): an escaper that treats the first byte, or its own output, differently
	out = append(out, map[string]string{"a": ",b=2"}, map[string]string{"a": "1\\", "b\\": "2"}, map[string]string{"a": "1\\,b\\=2"})
	if maxEntries >= 2 {
		for i := 0; i < len(keys); i++ {
			for j := i + 1; j < len(keys); j++ {
				for _, v1 := range vals {
					for _, v2 := range vals {
						out = append(out, map[string]string{keys[i]: v1, keys[j]: v2})
					}
				}
			}
		}
	}
	return out
}

func c05Alphabet(maxEntries int) []progOp {
	var ops []progOp
	for _, n := range []string{"a", "b", "a+b"} {
		ops = append(ops, progOp{sub: n})
	}
	for _, m := range c05Maps(maxEntries) {
		ops = append(ops, progOp{tag: true, tags: m})
	}
	return ops
}

func identKey(prefix string, tags map[string]string) string {
	ks := make([]string, 0, len(tags))
	for k := range tags {
		ks = append(ks, k)
	}
	sort.Strings(ks)
	var b strings.Builder
	fmt.Fprintf(&b, "%q|", prefix)
	for _, k := range ks {
		fmt.Fprintf(&b, "%q=%q;", k, tags[k])
	}
	return b.String()
}

type c05Scope struct {
	prog  []int
	scope tally.Scope
	c     tally.Counter
	g     tally.Gauge
	t     tally.Timer
	h     tally.Histogram
	ident string
	name  string
	tags  map[string]string
	rkey  string
}

// c05Run runs all programs of depth <= depth over alpha against ONE root.
// reverse: the programs are run longest first, so that an identity is first created by its longest derivation
// (what the registry keeps for an identity is decided by whoever derives it first).
func c05Run(ctx *SeqCtx, opsPrefix []string, rootPrefix string, shards uint, alpha []progOp, depth int, cached bool, only [][]int, order ...int) (string, string, []string) {
	rec := &Recorder{NoPoints: true}
	o := scopeOpts(rec, cached, false)
	o.Prefix = rootPrefix
	root, _ := tally.VerifNewRootScope(o, 0, shards)
	cfg := rootCfg{prefix: rootPrefix}
	byIdent := map[string]*c05Scope{}
	byPtr := map[tally.Scope]*c05Scope{}
	count := map[string]int64{}
	ambiguous := map[string]bool{}     // identities that share a registry key with another identity
	ambigPtr := map[tally.Scope]bool{} // scopes shared by two identities (known key ambiguity): derivations through them are not judged
	byRKey := map[string]string{}
	reached := map[tally.Scope][]string{} // diagnostics: every program that ended at a scope object
	var fail func() (string, string, []string)
	progNames := func(p []int) []string {
		out := append(append([]string{}, opsPrefix...), fmt.Sprintf("prefix=%q", rootPrefix), fmt.Sprintf("shards=%d", shards), fmt.Sprintf("cached=%v", cached))
		for _, k := range p {
			out = append(out, fmt.Sprintf("op%d", k))
		}
		return out
	}
	// identities that share their public key string with a different identity (the listed finding F05a): known
	// from the reference model alone, before anything runs. A program that derives THROUGH such an identity is
	// not executed at all: the model cannot say which tags the shared scope has, and whatever such a program
	// creates or records would land on scopes of identities that are judged.
	preAmb := map[string]bool{}
	{
		byKey := map[string]string{}
		enumSeqs(len(alpha), depth, func(seq []int) bool {
			prog := make([]progOp, len(seq))
			for i, k := range seq {
				prog[i] = alpha[k]
			}
			p, tg := refIdentity(cfg, prog)
			id, k := identKey(p, tg), tally.KeyForPrefixedStringMap(p, tg)
			if o, ok := byKey[k]; ok && o != id {
				preAmb[id], preAmb[o] = true, true
			} else if !ok {
				byKey[k] = id
			}
			return true
		})
	}
	visit := func(seq []int) bool {
		prog := make([]progOp, len(seq))
		for i, k := range seq {
			prog[i] = alpha[k]
		}
		for i := 1; i < len(prog); i++ {
			if p, tg := refIdentity(cfg, prog[:i]); preAmb[identKey(p, tg)] {
				return true
			}
		}
		s := tally.Scope(root)
		tainted := false
		for i, op := range prog {
			if op.tag {
				// the caller's map is edited after the call: the scope's identity must not follow it
				m := cloneTags(op.tags)
				s = s.Tagged(m)
				for k := range m {
					m[k] = "edited-after-the-call"
				}
				m["added-after-the-call"] = "x"
			} else {
				s = s.SubScope(op.sub)
			}
			if i < len(prog)-1 && ambigPtr[s] {
				tainted = true
			}
		}
		prefix, tags := refIdentity(cfg, prog)
		id := identKey(prefix, tags)
		reached[s] = append(reached[s], fmt.Sprintf("%v(tainted=%v)", prog, tainted))
		if tainted {
			// derived through a scope that two identities share because of the
			// (listed) key ambiguity: the model cannot say what its tags are
			ambiguous[id] = true
			s.Counter("m").Inc(1)
			return true
		}
		cur := &c05Scope{prog: append([]int{}, seq...), scope: s, ident: id, name: refFullName(cfg, prefix, "m"), tags: tags}
		cur.rkey = tally.KeyForPrefixedStringMap(prefix, tags)
		cur.c, cur.g, cur.t, cur.h = s.Counter("m"), s.Gauge("m"), s.Timer("m"), s.Histogram("m", tally.ValueBuckets{1})
		cur.c.Inc(1)
		count[id]++
		if ctx != nil {
			ctx.Case(len(prog)+5, len(prog) > 0, func() string { return fmt.Sprintf("prefix=%q shards=%d %v", rootPrefix, shards, prog) })
			ctx.State(id)
		}
		if prev, ok := byIdent[id]; ok {
			if prev.scope != s {
				fail = func() (string, string, []string) {
					cl := "equal-identities-different-scopes"
					if _, has := tags[""]; has {
						cl = "equal-identities-different-scopes-empty-tag-key"
					}
					return cl, fmt.Sprintf("root prefix %q: programs %v and %v both denote prefix %q tags %s but return different scopes", rootPrefix, progOps(alpha, prev.prog), prog, prefix, tagString(tags)),
						append(progNames(seq), "vs", fmt.Sprint(prev.prog))
				}
				return false
			}
			if prev.c != cur.c || prev.g != cur.g || prev.t != cur.t || prev.h != cur.h {
				fail = func() (string, string, []string) {
					return "same-scope-different-metric", fmt.Sprintf("asking the same scope twice for metric m returned different objects (%v)", prog), progNames(seq)
				}
				return false
			}
		} else {
			byIdent[id] = cur
			if other, ok := byPtr[s]; ok && other.ident != id {
				if other.rkey == cur.rkey {
					// the registry key format cannot tell the two identities apart
					ambiguous[id], ambiguous[other.ident] = true, true
					ambigPtr[s] = true
					if ctx != nil {
						ctx.Fail("distinct-identities-share-registry-key",
							fmt.Sprintf("root prefix %q: %v (prefix %q tags %s) and %v (prefix %q tags %s) are different identities but map to the same registry key %q and share one scope",
								rootPrefix, progOps(alpha, other.prog), other.name, tagString(other.tags), prog, cur.name, tagString(tags), cur.rkey), progNames(seq))
						if ctx.viol != nil {
							return false
						}
					} else {
						fail = func() (string, string, []string) {
							return "distinct-identities-share-registry-key", fmt.Sprintf("%v vs %v share key %q", progOps(alpha, other.prog), prog, cur.rkey), progNames(seq)
						}
						return false
					}
				} else {
					fail = func() (string, string, []string) {
						return "distinct-identities-share-scope", fmt.Sprintf("root prefix %q: %v (%q %s) and %v (%q %s) are different identities with different keys but share one scope",
							rootPrefix, progOps(alpha, other.prog), other.name, tagString(other.tags), prog, cur.name, tagString(tags)), progNames(seq)
					}
					return false
				}
			}
			if _, ok := byPtr[s]; !ok {
				byPtr[s] = cur
			}
			if oid, ok := byRKey[cur.rkey]; ok && oid != id {
				ambiguous[id], ambiguous[oid] = true, true
			} else {
				byRKey[cur.rkey] = id
			}
		}
		return true
	}
	if only != nil {
		for _, p := range only {
			if !visit(p) {
				break
			}
		}
	} else if len(order) > 0 && order[0] > 0 {
		var all [][]int
		enumSeqs(len(alpha), depth, func(seq []int) bool {
			all = append(all, append([]int{}, seq...))
			return true
		})
		if order[0] >= 2 {
			// a fixed pseudo-random order (linear congruential generator seeded with the order number): the
			// visiting loop below runs backwards over it
			x := uint64(order[0]) * 0x9E3779B97F4A7C15
			for i := len(all) - 1; i > 0; i-- {
				x = x*6364136223846793005 + 1442695040888963407
				j := int((x >> 33) % uint64(i+1))
				all[i], all[j] = all[j], all[i]
			}
		}
		for i := len(all) - 1; i >= 0; i-- {
			if ctx != nil && ctx.Expired() {
				break
			}
			if !visit(all[i]) {
				break
			}
		}
	} else {
		enumSeqs(len(alpha), depth, func(seq []int) bool {
			if ctx != nil && ctx.Expired() {
				return false
			}
			return visit(seq)
		})
	}
	if fail != nil {
		return fail()
	}
	if ctx != nil && ctx.viol != nil {
		return "", "", nil
	}
	// one pass: what was recorded through one identity is delivered under it and nowhere else
	tally.VerifReportOnce(root)
	got := map[string]int64{}
	for _, e := range rec.Log {
		if e.Kind == "counter" {
			got[identKeyFromEntry(rootPrefix, e)] += e.I
		}
	}
	for id, sc := range byIdent {
		if ambiguous[id] {
			continue
		}
		k := sc.name + tagString(sc.tags)
		if got[k] != count[id] {
			return "delivered-under-wrong-identity", fmt.Sprintf("root prefix %q shards %d: identity %s recorded %d, delivered %d under %s; programs that ended at its scope object: %v", rootPrefix, shards, id, count[id], got[k], k, reached[sc.scope]), progNames(sc.prog)
		}
	}
	return "", "", nil
}

func identKeyFromEntry(rootPrefix string, e Entry) string { return e.Name + tagString(e.Tags) }

func progOps(alpha []progOp, p []int) []progOp {
	out := make([]progOp, len(p))
	for i, k := range p {
		out[i] = alpha[k]
	}
	return out
}

func c05Jobs(tier string) []*SeqJob {
	full := c05Alphabet(2)
	small := c05Alphabet(1)
	prefixes := []string{"", "x", "x+a=1"}
	type cfg struct {
		prefix string
		shards uint
		alpha  string
		depth  int
		cached bool
		rev    int // order of the programs: 0 shortest first, 1 longest first, >= 2 a fixed shuffle
	}
	var cfgs []cfg
	shardSet := []uint{1, 2, 3, 64}
	if tier == "thorough" {
		shardSet = nil
		for i := uint(1); i <= 64; i++ {
			shardSet = append(shardSet, i)
		}
	}
	for _, p := range prefixes {
		for i, sh := range shardSet {
			cfgs = append(cfgs, cfg{p, sh, "small", 2, i%2 == 0, i % 4})
		}
		cfgs = append(cfgs, cfg{p, 1, "full", 2, true, 0}, cfg{p, 2, "small", 3, false, 0},
			cfg{p, 1, "full", 2, false, 1}, cfg{p, 2, "small", 3, true, 1},
			cfg{p, 1, "full", 2, false, 2}, cfg{p, 1, "full", 2, true, 3}, cfg{p, 2, "small", 3, true, 4}, cfg{p, 1, "small", 3, false, 5})
		if tier == "thorough" {
			cfgs = append(cfgs, cfg{p, 3, "small", 4, true, 0}, cfg{p, 1, "small", 4, false, 1}, cfg{p, 1, "small", 4, false, 2}, cfg{p, 2, "full", 2, false, 6}, cfg{p, 1, "full", 2, true, 7})
		}
	}
	alphaOf := func(n string) []progOp {
		if n == "full" {
			return full
		}
		return small
	}
	job := &SeqJob{Property: "C05", Name: "program-pairs-one-root", Shards: tierInt(tier, 8, 16)}
	job.Run = func(ctx *SeqCtx) {
		for _, a := range full {
			ctx.Alphabet(a.String())
		}
		maxd := 0
		for i, c := range cfgs {
			if !ctx.Mine(i) {
				continue
			}
			if ctx.Expired() {
				return
			}
			c := c
			var ops []string
			cl, det := guard(func() (string, string) {
				a, b, o := c05Run(ctx, []string{"alpha=" + c.alpha, fmt.Sprintf("depth=%d", c.depth), fmt.Sprintf("order=%d", c.rev)}, c.prefix, c.shards, alphaOf(c.alpha), c.depth, c.cached, nil, c.rev)
				ops = o
				return a, b
			})
			if cl != "" {
				ctx.Fail(cl, det, ops)
				if ctx.viol != nil {
					return
				}
			}
			if c.depth > maxd {
				maxd = c.depth
			}
		}
		if !ctx.st.TimedOut && ctx.viol == nil {
			ctx.DepthDone(maxd)
		}
	}
	job.Replay = func(ops []string) (string, string) {
		var c cfg
		c.alpha = strings.TrimPrefix(ops[0], "alpha=")
		fmt.Sscanf(ops[1], "depth=%d", &c.depth)
		fmt.Sscanf(ops[2], "order=%d", &c.rev)
		fmt.Sscanf(ops[3], "prefix=%q", &c.prefix)
		fmt.Sscanf(ops[4], "shards=%d", &c.shards)
		fmt.Sscanf(ops[5], "cached=%v", &c.cached)
		rctx := &SeqCtx{job: job, seen: map[string]struct{}{}}
		rctx.st.Outcomes = map[string]int64{}
		cl, det := guard(func() (string, string) {
			a, b, _ := c05Run(rctx, nil, c.prefix, c.shards, alphaOf(c.alpha), c.depth, c.cached, nil, c.rev)
			return a, b
		})
		if cl == "" && rctx.viol != nil {
			return rctx.viol.Clause, rctx.viol.Detail
		}
		return cl, det
	}

	// public key function: agreement with the key of the merged map, rightmost wins, determinism
	kjob := &SeqJob{Property: "C05", Name: "key-function-map-pairs"}
	kjob.Run = func(ctx *SeqCtx) {
		maps := c05Maps(2)
		n := 0
		for _, p := range prefixes {
			for i, m1 := range maps {
				for j, m2 := range maps {
					n++
					if !ctx.Mine(n) {
						continue
					}
					if ctx.Expired() {
						return
					}
					merged := cloneTags(m1)
					for k, v := range m2 {
						merged[k] = v
					}
					var a, b, b2, c3 string
					cl, det := guard(func() (string, string) {
						a = tally.KeyForPrefixedStringMap(p, merged)
						b = tally.VerifKey(p, m1, m2)
						b2 = tally.VerifKey(p, m1, m2)
						c3 = tally.VerifKey(p, m1, m2, m2)
						if a != b {
							cl := "key-of-maps-differs-from-key-of-merged-map"
							if _, ok := merged[""]; ok {
								cl += "-empty-tag-key"
							}
							return cl, fmt.Sprintf("prefix %q: key(%s, %s) = %q but key(merged %s) = %q", p, tagString(m1), tagString(m2), b, tagString(merged), a)
						}
						if b != b2 || tally.KeyForPrefixedStringMap(p, merged) != a {
							return "key-not-deterministic", fmt.Sprintf("%q vs %q", b, b2)
						}
						if c3 != b {
							cl := "repeating-a-map-changes-the-key"
							if _, ok := merged[""]; ok {
								cl += "-empty-tag-key"
							}
							return cl, fmt.Sprintf("key(%s,%s,%s) = %q, key(%s,%s) = %q", tagString(m1), tagString(m2), tagString(m2), c3, tagString(m1), tagString(m2), b)
						}
						return "", ""
					})
					ctx.Case(4, true, func() string { return fmt.Sprintf("prefix %q maps %s %s", p, tagString(m1), tagString(m2)) })
					ctx.State(a)
					if cl != "" {
						ctx.Fail(cl, det, []string{p, fmt.Sprint(i), fmt.Sprint(j)})
						if ctx.viol != nil {
							return
						}
					}
				}
			}
		}
		ctx.DepthDone(2)
	}
	kjob.Replay = func(ops []string) (string, string) {
		maps := c05Maps(2)
		var i, j int
		fmt.Sscanf(ops[1], "%d", &i)
		fmt.Sscanf(ops[2], "%d", &j)
		m1, m2 := maps[i], maps[j]
		merged := cloneTags(m1)
		for k, v := range m2 {
			merged[k] = v
		}
		a, b := tally.KeyForPrefixedStringMap(ops[0], merged), tally.VerifKey(ops[0], m1, m2)
		if a != b {
			cl := "key-of-maps-differs-from-key-of-merged-map"
			if _, ok := merged[""]; ok {
				cl += "-empty-tag-key"
			}
			return cl, fmt.Sprintf("%q vs %q", b, a)
		}
		if c3 := tally.VerifKey(ops[0], m1, m2, m2); c3 != b {
			cl := "repeating-a-map-changes-the-key"
			if _, ok := merged[""]; ok {
				cl += "-empty-tag-key"
			}
			return cl, fmt.Sprintf("%q vs %q", c3, b)
		}
		return "", ""
	}
	return []*SeqJob{job, kjob}
}

// c05Debug runs one explicit list of programs (indices into the full alphabet) on one root and prints the verdict.
func c05Debug(args []string) {
	alpha := c05Alphabet(2)
	for i, a := range alpha {
		fmt.Println(i, a)
	}
	var progs [][]int
	for _, a := range args {
		var p []int
		for _, f := range strings.Split(a, ",") {
			var k int
			fmt.Sscan(f, &k)
			p = append(p, k)
		}
		progs = append(progs, p)
	}
	cl, det, _ := c05Run(nil, nil, "", 1, alpha, 2, false, progs)
	fmt.Println("verdict:", cl, det)
}
