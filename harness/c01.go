package main

import (
	"fmt"
	"sort"
	"strings"

	tally "github.com/uber-go/tally/v4"
	rt "github.com/uber-go/tally/v4/verifrt"
)

func b2s(b bool) string {
	if b {
		return "cached"
	}
	return "plain"
}

// counterOracle checks delta conservation on the recorder log.
// want: expected total per identity; quiet: log index from which no counter
// delivery may appear (second epilogue pass); nonneg: all increments >= 0.
func counterOracle(log []Entry, want map[string]int64, quiet int, nonneg bool) (string, string) {
	got := sumCounters(log, 0, len(log))
	ids := map[string]bool{}
	for k := range want {
		ids[k] = true
	}
	for k := range got {
		ids[k] = true
	}
	keys := make([]string, 0, len(ids))
	for k := range ids {
		keys = append(keys, k)
	}
	sort.Strings(keys)
	for _, k := range keys {
		if got[k] != want[k] {
			return "sum-mismatch", fmt.Sprintf("counter %s: delivered deltas add up to %d, increments add up to %d", k, got[k], want[k])
		}
	}
	for i, e := range log {
		if e.Kind != "counter" {
			continue
		}
		if e.I == 0 {
			return "zero-delta", fmt.Sprintf("log[%d]: zero delta delivered for %s", i, e.ID())
		}
		if nonneg && e.I < 0 {
			return "negative-delta", fmt.Sprintf("log[%d]: negative delta %d delivered for %s", i, e.I, e.ID())
		}
		if quiet >= 0 && i >= quiet {
			return "delivery-without-increment", fmt.Sprintf("log[%d]: %s delivered in a report cycle with no new increments", i, e.String())
		}
	}
	return "", ""
}

func deliveredOutcome(log []Entry) string {
	var b strings.Builder
	for _, e := range log {
		switch e.Kind {
		case "counter":
			fmt.Fprintf(&b, "c%d:%d;", e.Thread, e.I)
		case "hvalue", "hduration":
			fmt.Fprintf(&b, "h%d:%d;", e.Thread, e.I)
		case "gauge":
			fmt.Fprintf(&b, "g%d:%x;", e.Thread, e.F)
		}
	}
	return b.String()
}

// histSums sums histogram sample deliveries per identity+bucket.
func histSums(log []Entry) map[string]int64 {
	m := map[string]int64{}
	for _, e := range log {
		switch e.Kind {
		case "hvalue":
			m[fmt.Sprintf("%s|%v", e.ID(), e.HiF)] += e.I
		case "hduration":
			m[fmt.Sprintf("%s|%d", e.ID(), int64(e.HiD))] += e.I
		}
	}
	return m
}

func c01Scenarios(tier string) []*Scenario {
	var out []*Scenario
	flavours := []bool{true}
	if tier == "thorough" {
		flavours = []bool{true, false}
	}
	for _, cached := range flavours {
		cached := cached
		// A: increments || pass || pass
		out = append(out, &Scenario{
			Property: "C01", Name: "A-inc-pass-pass-" + b2s(cached),
			Body: func(x *Run) {
				rec := &Recorder{}
				x.Rec = rec
				root, _ := tally.VerifNewRootScope(scopeOpts(rec, cached, false), 0, 1)
				c := root.Counter("c")
				sub := root.Tagged(map[string]string{"k": "v"})
				c2 := sub.Counter("c")
				h := root.Histogram("h", tally.ValueBuckets{1, 2})
				w := rt.GoNamed("inc", func() {
					c.Inc(1)
					c2.Inc(1)
					h.RecordValue(1.5)
					c.Inc(2)
					c2.Inc(2)
					h.RecordValue(1.5)
				})
				p1 := rt.GoNamed("pass1", func() { tally.VerifReportOnce(root) })
				p2 := rt.GoNamed("pass2", func() { tally.VerifReportOnce(root) })
				w.Join()
				p1.Join()
				p2.Join()
				tally.VerifReportOnce(root)
				x.Vals["quiet"] = len(rec.Log)
				tally.VerifReportOnce(root)
			},
			Check: func(x *Run, o *rt.Outcome) (string, string, string) {
				want := map[string]int64{"c{}": 3, `c{"k":"v"}`: 3}
				cl, d := counterOracle(x.Rec.Log, want, x.Vals["quiet"].(int), true)
				if cl != "" {
					return cl, d, "viol"
				}
				hs := histSums(x.Rec.Log)
				if len(hs) != 1 || hs["h{}|2"] != 2 {
					return "histogram-sum-mismatch", fmt.Sprintf("bucket sample deliveries %v, want h{}|2 = 2", hs), "viol"
				}
				for i, e := range x.Rec.Log {
					if e.Kind == "hvalue" && (e.I <= 0 || i >= x.Vals["quiet"].(int)) {
						return "histogram-bad-delta", fmt.Sprintf("log[%d]: %s", i, e.String()), "viol"
					}
				}
				return "", "", deliveredOutcome(x.Rec.Log)
			},
		})
		// A2: no epilogue. A pass that starts after the last increment is the "one more
		// report": once it and all other passes have completed, everything must be delivered.
		out = append(out, &Scenario{
			Property: "C01", Name: "A2-pass-started-after-last-inc-" + b2s(cached),
			Body: func(x *Run) {
				rec := &Recorder{}
				x.Rec = rec
				root, _ := tally.VerifNewRootScope(scopeOpts(rec, cached, false), 0, 1)
				c := root.Counter("c")
				c.Inc(5)
				w := rt.GoNamed("inc", func() {
					c.Inc(3)
					rec.Mark("inc-done")
				})
				pass := func() {
					rec.Mark("pass-start")
					tally.VerifReportOnce(root)
				}
				p1 := rt.GoNamed("pass1", pass)
				p2 := rt.GoNamed("pass2", pass)
				w.Join()
				p1.Join()
				p2.Join()
			},
			Check: func(x *Run, o *rt.Outcome) (string, string, string) {
				done, after := -1, false
				for i, e := range x.Rec.Log {
					if e.Kind == "mark" && e.Note == "inc-done" {
						done = i
					}
					if e.Kind == "mark" && e.Note == "pass-start" && done >= 0 {
						after = true
					}
				}
				got := sumCounters(x.Rec.Log, 0, len(x.Rec.Log))["c{}"]
				if after && got != 8 {
					return "report-after-last-increment-incomplete", fmt.Sprintf("a report pass started after the last increment and every pass has completed, but only %d of 8 was delivered", got), "viol"
				}
				for i, e := range x.Rec.Log {
					if e.Kind == "counter" && e.I <= 0 {
						return "non-positive-delta", fmt.Sprintf("log[%d]: %s", i, e.String()), "viol"
					}
				}
				if got > 8 {
					return "over-delivered", fmt.Sprintf("%d delivered of 8", got), "viol"
				}
				return "", "", fmt.Sprint(after, deliveredOutcome(x.Rec.Log))
			},
		})
		// E: two goroutines use a counter for the first time and increment it while a pass runs
		out = append(out, &Scenario{
			Property: "C01", Name: "E-first-use-inc-" + b2s(!cached),
			Body: func(x *Run) {
				rec := &Recorder{}
				x.Rec = rec
				root, _ := tally.VerifNewRootScope(scopeOpts(rec, !cached, false), 0, 1)
				t1 := rt.GoNamed("inc1", func() { root.Counter("c").Inc(1) })
				t2 := rt.GoNamed("inc2", func() { root.Counter("c").Inc(2) })
				p := rt.GoNamed("pass", func() { tally.VerifReportOnce(root) })
				t1.Join()
				t2.Join()
				p.Join()
				tally.VerifReportOnce(root)
				x.Vals["quiet"] = len(rec.Log)
				tally.VerifReportOnce(root)
			},
			Check: func(x *Run, o *rt.Outcome) (string, string, string) {
				cl, d := counterOracle(x.Rec.Log, map[string]int64{"c{}": 3}, x.Vals["quiet"].(int), true)
				if cl != "" {
					return cl, d, "viol"
				}
				return "", "", deliveredOutcome(x.Rec.Log)
			},
		})
		// B: real report loop on the virtual ticker, increments joined, then Close
		out = append(out, &Scenario{
			Property: "C01", Name: "B-ticker-close-" + b2s(cached), Ticks: tierInt(tier, 1, 2),
			Body: func(x *Run) {
				rec := &Recorder{}
				x.Rec = rec
				root, closer := tally.VerifNewRootScope(scopeOpts(rec, cached, false), 1e9, 1)
				c := root.Counter("c")
				sub := root.Tagged(map[string]string{"k": "v"})
				c2 := sub.Counter("c")
				w := rt.GoNamed("inc", func() {
					c.Inc(1)
					c2.Inc(1)
					c.Inc(2)
					c2.Inc(2)
				})
				w.Join()
				_ = closer.Close()
			},
			Check: func(x *Run, o *rt.Outcome) (string, string, string) {
				want := map[string]int64{"c{}": 3, `c{"k":"v"}`: 3}
				cl, d := counterOracle(x.Rec.Log, want, -1, true)
				if cl != "" {
					return cl, d, "viol"
				}
				return "", "", deliveredOutcome(x.Rec.Log)
			},
		})
		// C: report-on-reacquire of a closed scope || pass
		out = append(out, &Scenario{
			Property: "C01", Name: "C-reacquire-" + b2s(cached),
			Body: func(x *Run) {
				rec := &Recorder{}
				x.Rec = rec
				root, _ := tally.VerifNewRootScope(scopeOpts(rec, cached, false), 0, 1)
				tags := map[string]string{"k": "v"}
				sub := root.Tagged(tags)
				sub.Counter("c").Inc(1)
				_ = sub.(interface{ Close() error }).Close()
				t1 := rt.GoNamed("reacquire", func() {
					s2 := root.Tagged(tags)
					s2.Counter("c").Inc(2)
				})
				t2 := rt.GoNamed("pass", func() { tally.VerifReportOnce(root) })
				t1.Join()
				t2.Join()
				tally.VerifReportOnce(root)
				x.Vals["quiet"] = len(rec.Log)
				tally.VerifReportOnce(root)
			},
			Check: func(x *Run, o *rt.Outcome) (string, string, string) {
				want := map[string]int64{`c{"k":"v"}`: 3}
				cl, d := counterOracle(x.Rec.Log, want, x.Vals["quiet"].(int), true)
				if cl != "" {
					return cl, d, "viol"
				}
				return "", "", deliveredOutcome(x.Rec.Log)
			},
		})
		// C2: a pass is delivering a live subscope with two counters while the application records more on it, closes it
		// and requests it again: the report made on re-request overlaps the pass' report of the very same scope
		out = append(out, &Scenario{
			Property: "C01", Name: "C2-pass-overlaps-close-and-reacquire-" + b2s(!cached),
			Body: func(x *Run) {
				rec := &Recorder{}
				x.Rec = rec
				root, _ := tally.VerifNewRootScope(scopeOpts(rec, !cached, false), 0, 1)
				tags := map[string]string{"k": "v"}
				sub := root.Tagged(tags)
				c1, c2 := sub.Counter("c1"), sub.Counter("c2")
				c1.Inc(1)
				c2.Inc(2)
				t2 := rt.GoNamed("pass", func() { tally.VerifReportOnce(root) })
				t1 := rt.GoNamed("cycle", func() {
					c1.Inc(4)
					c2.Inc(8)
					_ = sub.(interface{ Close() error }).Close()
					s2 := root.Tagged(tags)
					s2.Counter("c1").Inc(16)
				})
				t1.Join()
				t2.Join()
				tally.VerifReportOnce(root)
				x.Vals["quiet"] = len(rec.Log)
				tally.VerifReportOnce(root)
			},
			Check: func(x *Run, o *rt.Outcome) (string, string, string) {
				want := map[string]int64{`c1{"k":"v"}`: 21, `c2{"k":"v"}`: 10}
				cl, d := counterOracle(x.Rec.Log, want, x.Vals["quiet"].(int), true)
				if cl != "" {
					return cl, d, "viol"
				}
				return "", "", deliveredOutcome(x.Rec.Log)
			},
		})
	}
	// a counter first used while another goroutine first uses a gauge of the same scope, a pass alongside: scenario N
	// "counter+gauge" of C09, judged here for the counter's sum
	for _, sc := range c09Scenarios(tier) {
		if strings.Contains(sc.Name, "counter+gauge") {
			c := *sc
			c.Property = "C01"
			out = append(out, &c)
		}
	}
	return out
}

func tierInt(tier string, quick, thorough int) int {
	if tier == "thorough" {
		return thorough
	}
	return quick
}
