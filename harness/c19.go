package main

import (
	"fmt"
	"math"
	"strings"
	"sync"
	"time"

	tally "github.com/uber-go/tally/v4"
	"github.com/uber-go/tally/v4/multi"
	rt "github.com/uber-go/tally/v4/verifrt"
)

// mChild is one child of a multi reporter; all children append to one shared ordered log.
type mChild struct {
	id        int
	log       *[]string
	reporting bool
	tagging   bool
	nalloc    int
	obj       *rt.Obj
	mu        *sync.Mutex
	capsPoint bool
	onFlush   func() // called at the end of Flush (a child that calls back into the multi reporter it belongs to)
}

type mCaps struct{ r, t bool }

func (c mCaps) Reporting() bool { return c.r }
func (c mCaps) Tagging() bool   { return c.t }

func (c *mChild) add(f string, a ...interface{}) {
	if rt.IsControlled() && !rt.Dead() && c.obj != nil {
		c.obj.Fresh()
		rt.Point(rt.OpRec, c.obj, nil) // a child may be slow: every call into it is a scheduling point
	}
	if c.mu != nil { // free-running race pass: the shared log needs a real lock
		c.mu.Lock()
		defer c.mu.Unlock()
	}
	*c.log = append(*c.log, fmt.Sprintf("child%d ", c.id)+fmt.Sprintf(f, a...))
}
func (c *mChild) Capabilities() tally.Capabilities {
	if c.capsPoint && rt.IsControlled() && !rt.Dead() && c.obj != nil {
		c.obj.Fresh()
		rt.Point(rt.OpRec, c.obj, nil) // asking a child may take a while
	}
	return mCaps{c.reporting, c.tagging}
}
func (c *mChild) Flush() {
	c.add("flush")
	if c.onFlush != nil {
		c.onFlush()
	}
}
func (c *mChild) ReportCounter(n string, t map[string]string, v int64) {
	c.add("counter %s %s %d", n, tagString(t), v)
}
func (c *mChild) ReportGauge(n string, t map[string]string, v float64) {
	c.add("gauge %s %s %v bits %x", n, tagString(t), v, math.Float64bits(v))
}
func (c *mChild) ReportTimer(n string, t map[string]string, v time.Duration) {
	c.add("timer %s %s %d", n, tagString(t), int64(v))
}
func (c *mChild) ReportHistogramValueSamples(n string, t map[string]string, b tally.Buckets, lo, hi float64, s int64) {
	c.add("hvalue %s %s %T %v (%v,%v] %d", n, tagString(t), b, b, lo, hi, s)
}
func (c *mChild) ReportHistogramDurationSamples(n string, t map[string]string, b tally.Buckets, lo, hi time.Duration, s int64) {
	c.add("hduration %s %s %v (%d,%d] %d", n, tagString(t), b, int64(lo), int64(hi), s)
}

type mHandle struct {
	c    *mChild
	desc string
}

func (h mHandle) ReportCount(v int64) { h.c.add("%s count %d", h.desc, v) }
func (h mHandle) ReportGauge(v float64) {
	h.c.add("%s gauge %v bits %x", h.desc, v, math.Float64bits(v))
}
func (h mHandle) ReportTimer(v time.Duration) { h.c.add("%s timer %d", h.desc, int64(v)) }
func (h mHandle) ReportSamples(v int64)       { h.c.add("%s samples %d", h.desc, v) }
func (h mHandle) ValueBucket(lo, hi float64) tally.CachedHistogramBucket {
	h.c.add("%s vbucket (%v,%v]", h.desc, lo, hi)
	return mHandle{h.c, fmt.Sprintf("%s.v(%v,%v]", h.desc, lo, hi)}
}
func (h mHandle) DurationBucket(lo, hi time.Duration) tally.CachedHistogramBucket {
	h.c.add("%s dbucket (%d,%d]", h.desc, int64(lo), int64(hi))
	return mHandle{h.c, fmt.Sprintf("%s.d(%d,%d]", h.desc, int64(lo), int64(hi))}
}
func (c *mChild) alloc(kind, n string, t map[string]string, extra string) mHandle {
	c.nalloc++
	d := fmt.Sprintf("h%d[%s %s %s%s]", c.nalloc, kind, n, tagString(t), extra)
	c.add("alloc %s", d)
	return mHandle{c, d}
}
func (c *mChild) AllocateCounter(n string, t map[string]string) tally.CachedCount {
	return c.alloc("counter", n, t, "")
}
func (c *mChild) AllocateGauge(n string, t map[string]string) tally.CachedGauge {
	return c.alloc("gauge", n, t, "")
}
func (c *mChild) AllocateTimer(n string, t map[string]string) tally.CachedTimer {
	return c.alloc("timer", n, t, "")
}
func (c *mChild) AllocateHistogram(n string, t map[string]string, b tally.Buckets) tally.CachedHistogram {
	return c.alloc("histogram", n, t, fmt.Sprintf(" %T %v", b, b))
}

func c19Jobs(tier string) []*SeqJob {
	tagsA, tagsB := map[string]string{"k": "1"}, map[string]string(nil)
	vb := tally.ValueBuckets{1, 2}
	db := tally.DurationBuckets{time.Second}
	ub := userBuckets{3, 4} // a Buckets implementation of the application's own
	plainAlpha := []string{"counter a 1", "counter b -2", "gauge a 1.5", "gauge b -0", "timer a 3", "timer b -4",
		"hvalue a 7", "hvalue b 8", "hduration a 9", "hduration b 10", "flush"}
	// 0: all children tag and report; 1: the first does not tag; 2: the last does not tag; 3: the first says it does
	// not report (it is handed every call all the same: the property speaks of every child); 4: the last says so
	capPattern := 0
	kidCaps := func(i, n int) (reporting, tagging bool) {
		tagging = !((capPattern == 1 && i == 0) || (capPattern == 2 && i == n-1))
		reporting = !((capPattern == 3 && i == 0) || (capPattern == 4 && i == n-1))
		return
	}
	runPlain := func(n int, hist []int) (cl, det, key string, steps int) {
		var log []string
		var kids []tally.StatsReporter
		ref := make([]*mChild, n)
		var refLog []string
		for i := 0; i < n; i++ {
			rp, tg := kidCaps(i, n)
			kids = append(kids, &mChild{id: i, log: &log, reporting: rp, tagging: tg})
			ref[i] = &mChild{id: i, log: &refLog, reporting: rp, tagging: tg}
		}
		m := multi.NewMultiReporter(kids...)
		call := func(r tally.StatsReporter, op string) {
			var kind, nm string
			var v float64
			fmt.Sscanf(op, "%s %s %g", &kind, &nm, &v)
			tg := tagsA
			if nm == "b" {
				tg = tagsB
			}
			switch kind {
			case "counter":
				r.ReportCounter(nm, tg, int64(v))
			case "gauge":
				r.ReportGauge(nm, tg, v)
			case "timer":
				r.ReportTimer(nm, tg, time.Duration(v))
			case "hvalue":
				r.ReportHistogramValueSamples(nm, tg, vb, 1, 2, int64(v))
			case "hduration":
				r.ReportHistogramDurationSamples(nm, tg, db, 0, time.Second, int64(v))
			case "flush":
				r.Flush()
			}
		}
		for _, op := range hist {
			call(m, plainAlpha[op])
			steps++
			for i := 0; i < n; i++ {
				call(ref[i], plainAlpha[op])
			}
		}
		if cl, det = compareLogs(log, refLog, n); cl != "" {
			return
		}
		key = fmt.Sprint(n, len(hist)) // the plain flavour is stateless: one state per (children, length)
		return
	}
	cachedAlpha := []string{"alloc counter a", "alloc gauge a", "alloc timer b", "alloc hist a", "alloc dhist b", "alloc uhist a",
		"report h0 1", "report h0 -2", "report h1 1", "report h1 3", "report h2 5",
		"vbucket h0 1", "vbucket h0 2", "vbucket h1 1", "vbucket h1 2", "dbucket h0 1", "dbucket h1 1",
		// duration bounds that a float64 cannot carry: the upper bound of every duration histogram's last bucket, and 2^53+1 ns
		"dbucket h0 max", "dbucket h1 big",
		"samples b0 4", "samples b1 5", "samples b2 6", "flush"}
	runCached := func(n int, hist []int) (cl, det, key string, steps int) {
		var log, refLog []string
		var kids []tally.CachedStatsReporter
		ref := make([]*mChild, n)
		for i := 0; i < n; i++ {
			rp, tg := kidCaps(i, n)
			kids = append(kids, &mChild{id: i, log: &log, reporting: rp, tagging: tg})
			ref[i] = &mChild{id: i, log: &refLog, reporting: rp, tagging: tg}
		}
		m := multi.NewMultiCachedReporter(kids...)
		type hnd struct {
			kind string
			m    interface{}
			r    []interface{}
		}
		var hs, bs []hnd
		for _, op := range hist {
			name := cachedAlpha[op]
			var a, b, c string
			fmt.Sscanf(name, "%s %s %s", &a, &b, &c)
			steps++
			switch a {
			case "flush":
				m.Flush()
				for _, r := range ref {
					r.Flush()
				}
			case "alloc":
				tg := tagsA
				if c == "b" {
					tg = tagsB
				}
				h := hnd{kind: b}
				switch b {
				case "counter":
					h.m = m.AllocateCounter(c, tg)
				case "gauge":
					h.m = m.AllocateGauge(c, tg)
				case "timer":
					h.m = m.AllocateTimer(c, tg)
				case "hist":
					h.m = m.AllocateHistogram(c, tg, vb)
				case "dhist":
					h.m = m.AllocateHistogram(c, tg, db)
				case "uhist":
					h.m = m.AllocateHistogram(c, tg, ub)
				}
				for _, r := range ref {
					switch b {
					case "counter":
						h.r = append(h.r, r.AllocateCounter(c, tg))
					case "gauge":
						h.r = append(h.r, r.AllocateGauge(c, tg))
					case "timer":
						h.r = append(h.r, r.AllocateTimer(c, tg))
					case "hist":
						h.r = append(h.r, r.AllocateHistogram(c, tg, vb))
					case "dhist":
						h.r = append(h.r, r.AllocateHistogram(c, tg, db))
					case "uhist":
						h.r = append(h.r, r.AllocateHistogram(c, tg, ub))
					}
				}
				hs = append(hs, h)
			case "report":
				var i int
				var v float64
				fmt.Sscanf(b, "h%d", &i)
				fmt.Sscan(c, &v)
				if i >= len(hs) {
					continue
				}
				h := hs[i]
				switch h.kind {
				case "counter":
					h.m.(tally.CachedCount).ReportCount(int64(v))
					for _, r := range h.r {
						r.(tally.CachedCount).ReportCount(int64(v))
					}
				case "gauge":
					h.m.(tally.CachedGauge).ReportGauge(v)
					for _, r := range h.r {
						r.(tally.CachedGauge).ReportGauge(v)
					}
				case "timer":
					h.m.(tally.CachedTimer).ReportTimer(time.Duration(v))
					for _, r := range h.r {
						r.(tally.CachedTimer).ReportTimer(time.Duration(v))
					}
				}
			case "vbucket", "dbucket":
				var i int
				var u float64
				fmt.Sscanf(b, "h%d", &i)
				fmt.Sscan(c, &u)
				if i >= len(hs) || (hs[i].kind != "hist" && hs[i].kind != "dhist" && hs[i].kind != "uhist") {
					continue
				}
				h := hs[i]
				nb := hnd{kind: "bucket"}
				if a == "vbucket" {
					nb.m = h.m.(tally.CachedHistogram).ValueBucket(u-1, u)
					for _, r := range h.r {
						nb.r = append(nb.r, r.(tally.CachedHistogram).ValueBucket(u-1, u))
					}
				} else {
					lo, hi := time.Duration(0), time.Duration(u)
					switch c {
					case "max":
						lo, hi = time.Duration(1<<53+1), time.Duration(math.MaxInt64)
					case "big":
						lo, hi = time.Duration(math.MinInt64), time.Duration(1<<53+1)
					}
					nb.m = h.m.(tally.CachedHistogram).DurationBucket(lo, hi)
					for _, r := range h.r {
						nb.r = append(nb.r, r.(tally.CachedHistogram).DurationBucket(lo, hi))
					}
				}
				bs = append(bs, nb)
			case "samples":
				var i int
				var v float64
				fmt.Sscanf(b, "b%d", &i)
				fmt.Sscan(c, &v)
				if i >= len(bs) {
					continue
				}
				bs[i].m.(tally.CachedHistogramBucket).ReportSamples(int64(v))
				for _, r := range bs[i].r {
					r.(tally.CachedHistogramBucket).ReportSamples(int64(v))
				}
			}
		}
		// the reference calls child by child per operation; regroup the reference log per operation is
		// unnecessary because both logs are built operation by operation in child order
		if cl, det = compareLogs(log, refLog, n); cl != "" {
			return
		}
		var ks []string
		for _, h := range hs {
			ks = append(ks, h.kind)
		}
		key = fmt.Sprint(n, capPattern, ks, len(bs), func() (o []string) {
			for _, b := range bs {
				if len(b.r) > 0 {
					o = append(o, b.r[0].(mHandle).desc)
				}
			}
			return
		}())
		return
	}
	depthP := tierInt(tier, 3, 4)
	depthC := tierInt(tier, 4, 5)
	plain := &SeqJob{Property: "C19", Name: "plain-fan-out-histories"}
	plain.Run = func(ctx *SeqCtx) {
		for n := 0; n <= 5; n++ {
			for capPattern = 0; capPattern < 5; capPattern++ {
				if capPattern > 0 && (n == 0 || n > 3) {
					continue
				}
				n := n
				ctx.ResetSeen()
				// no state merging for the stateless flavour: enumerate every history
				enumSeqs(len(plainAlpha), depthP, func(seq []int) bool {
					if ctx.Expired() {
						return false
					}
					sq := append([]int{}, seq...)
					var cl, det string
					steps := 0
					cl, det = guard(func() (string, string) { c, d, _, s := runPlain(n, sq); steps = s; return c, d })
					ops := []string{fmt.Sprintf("children=%d caps=%d", n, capPattern)}
					for _, k := range sq {
						ops = append(ops, plainAlpha[k])
					}
					ctx.Case(steps, n > 0 && len(sq) > 0, func() string { return fmt.Sprint(ops) })
					ctx.State(fmt.Sprint(ops))
					if cl != "" {
						ctx.Fail(cl, det, ops)
						return ctx.viol == nil
					}
					return true
				})
				if ctx.viol != nil {
					return
				}
			}
		}
		capPattern = 0
		ctx.Alphabet(plainAlpha...)
		if !ctx.st.TimedOut && ctx.viol == nil {
			ctx.DepthDone(depthP)
		}
	}
	plain.Replay = func(ops []string) (string, string) {
		var n int
		fmt.Sscanf(ops[0], "children=%d caps=%d", &n, &capPattern)
		defer func() { capPattern = 0 }()
		return guard(func() (string, string) { c, d, _, _ := runPlain(n, opIndex(plainAlpha, ops[1:])); return c, d })
	}
	cached := &SeqJob{Property: "C19", Name: "cached-fan-out-histories", Shards: 10}
	cached.Run = func(ctx *SeqCtx) {
		for n := 0; n <= 9; n++ {
			if !ctx.Mine(n) {
				continue
			}
			n := n
			saved, savedN := ctx.shard, ctx.nshards
			ctx.shard, ctx.nshards = 0, 1 // bfs shards by first op; here the shard unit is the child count
			for capPattern = 0; capPattern < 5; capPattern++ {
				if capPattern > 0 && (n == 0 || n > 3) {
					continue
				}
				d := depthC
				if capPattern > 0 {
					d = depthC - 1
				}
				ctx.OpsPrefix = []string{fmt.Sprintf("children=%d caps=%d", n, capPattern)} // makes the replay self-contained
				bfs(ctx, cachedAlpha, d, func(h []int) (cl, det, key string, steps int) {
					cl, det = guard(func() (string, string) {
						var c, e string
						c, e, key, steps = runCached(n, h)
						return c, e
					})
					return
				})
				if ctx.viol != nil {
					break
				}
			}
			capPattern = 0
			ctx.shard, ctx.nshards = saved, savedN
			if ctx.viol != nil {
				return
			}
		}
	}
	cached.Replay = func(ops []string) (string, string) {
		var n int
		fmt.Sscanf(ops[0], "children=%d caps=%d", &n, &capPattern)
		defer func() { capPattern = 0 }()
		return guard(func() (string, string) { c, d, _, _ := runCached(n, opIndex(cachedAlpha, ops[1:])); return c, d })
	}
	// nested: a multi reporter is itself a child of two further multi reporters (first or last among their
	// children), each with one child of its own; every inner child count from 0 to 8, both flavours
	nested := &SeqJob{Property: "C19", Name: "nested-and-shared-multi-reporters"}
	nestedRun := func(cachedFl bool, n int, innerFirst bool) (string, string, int) {
		var log, refLog []string
		mkKids := func(lg *[]string) (inner []*mChild, own1, own2 *mChild) {
			for i := 0; i < n; i++ {
				inner = append(inner, &mChild{id: i, log: lg, reporting: true, tagging: true})
			}
			return inner, &mChild{id: 100, log: lg, reporting: true, tagging: true}, &mChild{id: 200, log: lg, reporting: true, tagging: false}
		}
		in, o1, o2 := mkKids(&log)
		rin, ro1, ro2 := mkKids(&refLog)
		order := func(inner []*mChild, own *mChild) []*mChild {
			if innerFirst {
				return append(append([]*mChild{}, inner...), own)
			}
			return append([]*mChild{own}, inner...)
		}
		steps := 0
		var caps1, caps2 tally.Capabilities
		if !cachedFl {
			var kids []tally.StatsReporter
			for _, c := range in {
				kids = append(kids, c)
			}
			inner := multi.NewMultiReporter(kids...)
			w := func(own *mChild) tally.StatsReporter {
				if innerFirst {
					return multi.NewMultiReporter(inner, own)
				}
				return multi.NewMultiReporter(own, inner)
			}
			w1, w2 := w(o1), w(o2)
			caps1, caps2 = w1.Capabilities(), w2.Capabilities()
			for round := 0; round < 2; round++ {
				w1.ReportCounter("c", tagsA, int64(1+round))
				w2.ReportCounter("c", tagsA, int64(10+round))
				w1.ReportGauge("g", tagsB, 1.5)
				w2.ReportTimer("t", tagsA, 3)
				w1.ReportHistogramValueSamples("h", tagsA, vb, 1, 2, 4)
				w1.Flush()
				w2.Flush()
				steps += 7
				for _, c := range order(rin, ro1) {
					c.ReportCounter("c", tagsA, int64(1+round))
				}
				for _, c := range order(rin, ro2) {
					c.ReportCounter("c", tagsA, int64(10+round))
				}
				for _, c := range order(rin, ro1) {
					c.ReportGauge("g", tagsB, 1.5)
				}
				for _, c := range order(rin, ro2) {
					c.ReportTimer("t", tagsA, 3)
				}
				for _, c := range order(rin, ro1) {
					c.ReportHistogramValueSamples("h", tagsA, vb, 1, 2, 4)
				}
				for _, c := range order(rin, ro1) {
					c.Flush()
				}
				for _, c := range order(rin, ro2) {
					c.Flush()
				}
			}
		} else {
			var kids []tally.CachedStatsReporter
			for _, c := range in {
				kids = append(kids, c)
			}
			inner := multi.NewMultiCachedReporter(kids...)
			w := func(own *mChild) tally.CachedStatsReporter {
				if innerFirst {
					return multi.NewMultiCachedReporter(inner, own)
				}
				return multi.NewMultiCachedReporter(own, inner)
			}
			w1, w2 := w(o1), w(o2)
			caps1, caps2 = w1.Capabilities(), w2.Capabilities()
			c1, c2 := w1.AllocateCounter("c", tagsA), w2.AllocateCounter("c", tagsA)
			h1 := w1.AllocateHistogram("h", tagsB, vb)
			b1, b2 := h1.ValueBucket(0, 1), h1.ValueBucket(1, 2)
			c1.ReportCount(1)
			c2.ReportCount(2)
			b1.ReportSamples(3)
			b2.ReportSamples(4)
			w1.Flush()
			w2.Flush()
			steps += 11
			var rc1, rc2 []tally.CachedCount
			for _, c := range order(rin, ro1) {
				rc1 = append(rc1, c.AllocateCounter("c", tagsA))
			}
			for _, c := range order(rin, ro2) {
				rc2 = append(rc2, c.AllocateCounter("c", tagsA))
			}
			var rh []tally.CachedHistogram
			for _, c := range order(rin, ro1) {
				rh = append(rh, c.AllocateHistogram("h", tagsB, vb))
			}
			var rb1, rb2 []tally.CachedHistogramBucket
			for _, h := range rh {
				rb1 = append(rb1, h.ValueBucket(0, 1))
			}
			for _, h := range rh {
				rb2 = append(rb2, h.ValueBucket(1, 2))
			}
			for _, c := range rc1 {
				c.ReportCount(1)
			}
			for _, c := range rc2 {
				c.ReportCount(2)
			}
			for _, b := range rb1 {
				b.ReportSamples(3)
			}
			for _, b := range rb2 {
				b.ReportSamples(4)
			}
			for _, c := range order(rin, ro1) {
				c.Flush()
			}
			for _, c := range order(rin, ro2) {
				c.Flush()
			}
		}
		if !caps1.Reporting() || !caps1.Tagging() || !caps2.Reporting() || caps2.Tagging() {
			return "capabilities-not-the-conjunction", fmt.Sprintf("nested, %d inner children: first wrapper reporting=%v tagging=%v (want true true), second wrapper (own child cannot tag) reporting=%v tagging=%v (want true false)", n, caps1.Reporting(), caps1.Tagging(), caps2.Reporting(), caps2.Tagging()), steps
		}
		// every call reaches every leaf of the reporter it was made on exactly once; leaves in the order given
		// (bucket allocations may be made lazily: compare as multisets per leaf and in order per call kind)
		count := func(l []string) map[string]int {
			m := map[string]int{}
			for _, e := range l {
				m[e]++
			}
			return m
		}
		g, w := count(log), count(refLog)
		for k, n2 := range w {
			if g[k] != n2 {
				return "child-call-differs", fmt.Sprintf("nested (inner first: %v, cached: %v), %d inner children shared by two wrappers: leaf call %q made %d times, expected %d\n log: %v", innerFirst, cachedFl, n, k, g[k], n2, log), steps
			}
		}
		for k, n2 := range g {
			if w[k] != n2 {
				return "child-call-differs", fmt.Sprintf("nested (inner first: %v, cached: %v), %d inner children: unexpected leaf call %q x%d", innerFirst, cachedFl, n, k, n2), steps
			}
		}
		return "", "", steps
	}
	nested.Run = func(ctx *SeqCtx) {
		for _, fl := range []bool{false, true} {
			for n := 0; n <= 8; n++ {
				for _, first := range []bool{true, false} {
					fl, n, first := fl, n, first
					steps := 0
					cl, det := guard(func() (string, string) { a, b, s := nestedRun(fl, n, first); steps = s; return a, b })
					ops := []string{fmt.Sprint(fl), fmt.Sprint(n), fmt.Sprint(first)}
					ctx.Case(steps, true, func() string { return fmt.Sprint("nested ", ops) })
					ctx.State(fmt.Sprint(ops))
					if cl != "" {
						ctx.Fail(cl, det, ops)
						if ctx.viol != nil {
							return
						}
					}
				}
			}
		}
		ctx.Alphabet("inner child counts 0..8", "the shared inner reporter first or last among a wrapper's children", "plain and cached flavour")
		ctx.DepthDone(1)
	}
	nested.Replay = func(ops []string) (string, string) {
		var fl, first bool
		var n int
		fmt.Sscan(ops[0], &fl)
		fmt.Sscan(ops[1], &n)
		fmt.Sscan(ops[2], &first)
		return guard(func() (string, string) { a, b, _ := nestedRun(fl, n, first); return a, b })
	}
	caps := &SeqJob{Property: "C19", Name: "capability-conjunction-all-assignments"}
	capRun := func(assign []int) (string, string) {
		var ps []tally.StatsReporter
		var cs []tally.CachedStatsReporter
		wr, wt := true, true
		var log []string
		for i, a := range assign {
			r, t := a&1 == 1, a&2 == 2
			wr, wt = wr && r, wt && t
			ps = append(ps, &mChild{id: i, log: &log, reporting: r, tagging: t})
			cs = append(cs, &mChild{id: i, log: &log, reporting: r, tagging: t})
		}
		for fl, c := range []tally.Capabilities{multi.NewMultiReporter(ps...).Capabilities(), multi.NewMultiCachedReporter(cs...).Capabilities()} {
			if c.Reporting() != wr || c.Tagging() != wt {
				return "capabilities-not-the-conjunction", fmt.Sprintf("children %v (bit0 reporting, bit1 tagging), flavour %d: got reporting=%v tagging=%v, want %v %v", assign, fl, c.Reporting(), c.Tagging(), wr, wt)
			}
		}
		return "", ""
	}
	caps.Run = func(ctx *SeqCtx) {
		enumSeqs(4, 5, func(seq []int) bool {
			sq := append([]int{}, seq...)
			cl, det := guard(func() (string, string) { return capRun(sq) })
			ops := []string{}
			for _, a := range sq {
				ops = append(ops, fmt.Sprint(a))
			}
			ctx.Case(2, len(sq) > 0, func() string { return fmt.Sprint(ops) })
			ctx.State(fmt.Sprint(ops))
			if cl != "" {
				ctx.Fail(cl, det, ops)
				return ctx.viol == nil
			}
			return true
		})
		ctx.Alphabet("child: none", "child: reporting", "child: tagging", "child: reporting+tagging")
		ctx.DepthDone(5)
	}
	caps.Replay = func(ops []string) (string, string) {
		var a []int
		for _, o := range ops {
			var k int
			fmt.Sscan(o, &k)
			a = append(a, k)
		}
		return guard(func() (string, string) { return capRun(a) })
	}
	return []*SeqJob{plain, cached, caps, nested, c19ValuesJob()}
}

// c19ValuesJob: "all argument values". Every call of both flavours with every member of a value alphabet (zero, both
// signs, the extremes; for gauges every class of float64 bit pattern) reaches every child exactly once, for 0..5
// children; the handles of the cached flavour are used several times in a row, zero first, in the middle and last.
func c19ValuesJob() *SeqJob {
	ints := []int64{0, 1, -1, 2, math.MaxInt64, math.MinInt64, 0}
	floats := []float64{0, math.Copysign(0, -1), 1, -1.5, math.SmallestNonzeroFloat64, math.MaxFloat64, -math.MaxFloat64, math.Inf(1), math.Inf(-1),
		math.NaN(), math.Float64frombits(0x7ff0000000000001), math.Float64frombits(0xfff8000000000abc), 0}
	tagSets := []map[string]string{nil, {}, {"k": "1"}, {"": ""}}
	names := []string{"a", ""}
	run := func(n int, cachedFlavour bool) (string, string) {
		var log, refLog []string
		ref := make([]*mChild, n)
		var ps []tally.StatsReporter
		var cs []tally.CachedStatsReporter
		for i := 0; i < n; i++ {
			ch := &mChild{id: i, log: &log, reporting: true, tagging: true}
			ps, cs = append(ps, ch), append(cs, ch)
			ref[i] = &mChild{id: i, log: &refLog, reporting: true, tagging: true}
		}
		vb, db := tally.ValueBuckets{0, 1}, tally.DurationBuckets{0, time.Second}
		check := func(what string) (string, string) {
			if cl, det := compareLogs(log, refLog, n); cl != "" {
				return cl, what + ": " + det
			}
			log, refLog = log[:0], refLog[:0]
			return "", ""
		}
		if !cachedFlavour {
			m := multi.NewMultiReporter(ps...)
			for _, nm := range names {
				for _, tg := range tagSets {
					for _, v := range ints {
						m.ReportCounter(nm, tg, v)
						m.ReportTimer(nm, tg, time.Duration(v))
						m.ReportHistogramValueSamples(nm, tg, vb, 0, 1, v)
						m.ReportHistogramDurationSamples(nm, tg, db, 0, time.Second, v)
						for _, r := range ref {
							r.ReportCounter(nm, tg, v)
						}
						for _, r := range ref {
							r.ReportTimer(nm, tg, time.Duration(v))
						}
						for _, r := range ref {
							r.ReportHistogramValueSamples(nm, tg, vb, 0, 1, v)
						}
						for _, r := range ref {
							r.ReportHistogramDurationSamples(nm, tg, db, 0, time.Second, v)
						}
						if cl, det := check(fmt.Sprintf("plain calls with name %q tags %v value %d", nm, tg, v)); cl != "" {
							return cl, det
						}
					}
					for _, v := range floats {
						m.ReportGauge(nm, tg, v)
						m.ReportHistogramValueSamples(nm, tg, vb, v, v, 1)
						for _, r := range ref {
							r.ReportGauge(nm, tg, v)
						}
						for _, r := range ref {
							r.ReportHistogramValueSamples(nm, tg, vb, v, v, 1)
						}
						if cl, det := check(fmt.Sprintf("plain calls with name %q tags %v value %v (bits %x)", nm, tg, v, math.Float64bits(v))); cl != "" {
							return cl, det
						}
					}
				}
			}
			return "", ""
		}
		m := multi.NewMultiCachedReporter(cs...)
		for _, nm := range names {
			for _, tg := range tagSets {
				c, g, t := m.AllocateCounter(nm, tg), m.AllocateGauge(nm, tg), m.AllocateTimer(nm, tg)
				hv, hd := m.AllocateHistogram(nm, tg, vb), m.AllocateHistogram(nm, tg, db)
				bv, bd := hv.ValueBucket(0, 1), hd.DurationBucket(0, time.Second)
				var rc []tally.CachedCount
				var rg []tally.CachedGauge
				var rtm []tally.CachedTimer
				var rbv, rbd []tally.CachedHistogramBucket
				for _, r := range ref {
					rc = append(rc, r.AllocateCounter(nm, tg))
				}
				for _, r := range ref {
					rg = append(rg, r.AllocateGauge(nm, tg))
				}
				for _, r := range ref {
					rtm = append(rtm, r.AllocateTimer(nm, tg))
				}
				var rhv, rhd []tally.CachedHistogram
				for _, r := range ref {
					rhv = append(rhv, r.AllocateHistogram(nm, tg, vb))
				}
				for _, r := range ref {
					rhd = append(rhd, r.AllocateHistogram(nm, tg, db))
				}
				for _, h := range rhv {
					rbv = append(rbv, h.ValueBucket(0, 1))
				}
				for _, h := range rhd {
					rbd = append(rbd, h.DurationBucket(0, time.Second))
				}
				if cl, det := check(fmt.Sprintf("cached allocations with name %q tags %v", nm, tg)); cl != "" {
					return cl, det
				}
				for _, v := range ints {
					c.ReportCount(v)
					for _, r := range rc {
						r.ReportCount(v)
					}
					t.ReportTimer(time.Duration(v))
					for _, r := range rtm {
						r.ReportTimer(time.Duration(v))
					}
					bv.ReportSamples(v)
					for _, r := range rbv {
						r.ReportSamples(v)
					}
					bd.ReportSamples(v)
					for _, r := range rbd {
						r.ReportSamples(v)
					}
					if cl, det := check(fmt.Sprintf("cached handles of name %q tags %v used with value %d", nm, tg, v)); cl != "" {
						return cl, det
					}
				}
				for _, v := range floats {
					g.ReportGauge(v)
					for _, r := range rg {
						r.ReportGauge(v)
					}
					if cl, det := check(fmt.Sprintf("cached gauge of name %q tags %v used with value %v (bits %x)", nm, tg, v, math.Float64bits(v))); cl != "" {
						return cl, det
					}
				}
			}
		}
		return "", ""
	}
	j := &SeqJob{Property: "C19", Name: "every-argument-value-reaches-every-child", NoBonus: true}
	j.Run = func(ctx *SeqCtx) {
		for n := 0; n <= 5; n++ {
			for _, cf := range []bool{false, true} {
				n, cf := n, cf
				cl, det := guard(func() (string, string) { return run(n, cf) })
				ops := []string{fmt.Sprint(n), fmt.Sprint(cf)}
				ctx.Case(len(names)*len(tagSets)*(len(ints)*4+len(floats)*2), true, func() string { return fmt.Sprint(ops) })
				ctx.State(fmt.Sprint(ops))
				if cl != "" {
					ctx.Fail(cl, det, ops)
					if ctx.viol != nil {
						return
					}
				}
			}
		}
		ctx.Alphabet(fmt.Sprintf("%d integer values x %d float64 bit patterns x %d tag maps x %d names, every call of both flavours", len(ints), len(floats), len(tagSets), len(names)))
		ctx.DepthDone(1)
	}
	j.Replay = func(ops []string) (string, string) {
		var n int
		var cf bool
		fmt.Sscan(ops[0], &n)
		fmt.Sscan(ops[1], &cf)
		return guard(func() (string, string) { return run(n, cf) })
	}
	return j
}

func compareLogs(got, want []string, n int) (string, string) {
	for i := 0; i < len(got) || i < len(want); i++ {
		var g, w string
		if i < len(got) {
			g = got[i]
		}
		if i < len(want) {
			w = want[i]
		}
		if g != w {
			return "child-call-differs", fmt.Sprintf("%d children: call %d on the children is %q, expected %q (every call exactly once per child, children in order)", n, i, g, w)
		}
	}
	return "", ""
}

// c19Scenarios: calls made on one multi reporter from two goroutines at the same time
// still reach every child exactly once each.
func c19Scenarios(tier string) []*Scenario {
	var out []*Scenario
	for _, cached := range []bool{false, true} {
		cached := cached
		sc := &Scenario{Property: "C19", Name: "F-concurrent-calls-" + b2s(cached)}
		sc.Body = func(x *Run) {
			var log []string
			obj := &rt.Obj{}
			mu := &sync.Mutex{}
			var ps []tally.StatsReporter
			var cs []tally.CachedStatsReporter
			for i := 0; i < 2; i++ {
				ch := &mChild{id: i, log: &log, reporting: true, tagging: true, obj: obj, mu: mu}
				ps, cs = append(ps, ch), append(cs, ch)
			}
			var flush func()
			var report func(v int64)
			if cached {
				m := multi.NewMultiCachedReporter(cs...)
				h := m.AllocateCounter("c", nil)
				flush, report = m.Flush, h.ReportCount
			} else {
				m := multi.NewMultiReporter(ps...)
				flush, report = m.Flush, func(v int64) { m.ReportCounter("c", nil, v) }
			}
			t1 := rt.GoNamed("caller1", func() { flush(); report(1) })
			t2 := rt.GoNamed("caller2", func() { flush(); report(2) })
			t1.Join()
			t2.Join()
			nf, nc := map[string]int{}, map[string]int{}
			for _, l := range log {
				var id int
				var rest string
				fmt.Sscanf(l, "child%d %s", &id, &rest)
				if rest == "flush" {
					nf[fmt.Sprint(id)]++
				}
				if rest == "counter" || (len(l) > 8 && (l[len(l)-7:] == "count 1" || l[len(l)-7:] == "count 2")) {
					nc[fmt.Sprint(id)]++
				}
			}
			for _, id := range []string{"0", "1"} {
				if nf[id] != 2 {
					x.failf("concurrent-flush-not-forwarded-exactly-once", "two Flush calls on the multi reporter, child %s saw %d", id, nf[id])
				}
				if nc[id] != 2 {
					x.failf("concurrent-report-not-forwarded-exactly-once", "two reports on the multi reporter, child %s saw %d", id, nc[id])
				}
			}
		}
		sc.Check = func(x *Run, o *rt.Outcome) (string, string, string) { return "", "", "ok" }
		out = append(out, sc)
		// H: the middle child reports on itself: from inside its Flush it hands a counter value to the multi reporter it
		// belongs to. Flush and reports from two goroutines meanwhile: every child still sees every call once, and
		// everybody returns
		sh := &Scenario{Property: "C19", Name: "H-a-child-that-reports-through-its-own-multi-reporter-" + b2s(cached)}
		sh.Body = func(x *Run) {
			var log []string
			obj := &rt.Obj{}
			mu := &sync.Mutex{}
			var kids []*mChild
			var ps []tally.StatsReporter
			var cs []tally.CachedStatsReporter
			for i := 0; i < 3; i++ {
				ch := &mChild{id: i, log: &log, reporting: true, tagging: true, obj: obj, mu: mu}
				kids = append(kids, ch)
				ps, cs = append(ps, ch), append(cs, ch)
			}
			var flush func()
			var report, selfReport func(v int64)
			if cached {
				m := multi.NewMultiCachedReporter(cs...)
				h, hs := m.AllocateCounter("c", nil), m.AllocateCounter("flushes", nil)
				flush, report, selfReport = m.Flush, h.ReportCount, hs.ReportCount
			} else {
				m := multi.NewMultiReporter(ps...)
				flush, report = m.Flush, func(v int64) { m.ReportCounter("c", nil, v) }
				selfReport = func(v int64) { m.ReportCounter("flushes", nil, v) }
			}
			kids[1].onFlush = func() { selfReport(7) }
			t1 := rt.GoNamed("caller1", func() { flush() })
			t2 := rt.GoNamed("caller2", func() { report(1); flush() })
			t1.Join()
			t2.Join()
			mu.Lock()
			defer mu.Unlock()
			for id := 0; id < 3; id++ {
				nf, nc, ns := 0, 0, 0
				for _, l := range log {
					if !strings.HasPrefix(l, fmt.Sprintf("child%d ", id)) {
						continue
					}
					switch {
					case strings.HasSuffix(l, " flush"):
						nf++
					case strings.HasSuffix(l, " 7"):
						ns++
					case strings.HasSuffix(l, " 1"):
						nc++
					}
				}
				if nf != 2 || nc != 1 || ns != 2 {
					x.failf("call-not-forwarded-exactly-once", "child %d saw %d flushes (2 made), %d reports of 1 (1 made), %d reports of 7 made from inside the middle child's Flush (2 made); log %v", id, nf, nc, ns, log)
					return
				}
			}
		}
		sh.Check = func(x *Run, o *rt.Outcome) (string, string, string) { return "", "", "ok" }
		out = append(out, sh)
		// G: two goroutines ask for the capabilities at the same time and look at the answer a little later:
		// every answer ever handed out must be the conjunction (here: nothing), whoever else is asking meanwhile
		sg := &Scenario{Property: "C19", Name: "G-concurrent-capabilities-" + b2s(cached)}
		sg.Body = func(x *Run) {
			var log []string
			obj := &rt.Obj{}
			mu := &sync.Mutex{}
			var ps []tally.StatsReporter
			var cs []tally.CachedStatsReporter
			for i, able := range []bool{true, false, true} {
				ch := &mChild{id: i, log: &log, reporting: able, tagging: able, obj: obj, mu: mu, capsPoint: true}
				ps, cs = append(ps, ch), append(cs, ch)
			}
			var caps func() tally.Capabilities
			if cached {
				caps = multi.NewMultiCachedReporter(cs...).Capabilities
			} else {
				caps = multi.NewMultiReporter(ps...).Capabilities
			}
			ask := func() {
				c := caps()
				for i := 0; i < 2; i++ {
					if rt.IsControlled() && !rt.Dead() {
						obj.Fresh()
						rt.Point(rt.OpRec, obj, nil) // the caller looks at the answer later
					}
					if c.Reporting() || c.Tagging() {
						x.failf("capabilities-not-the-conjunction-under-concurrent-queries", "one child can neither report nor tag, yet an answer of Capabilities() read reporting=%v tagging=%v", c.Reporting(), c.Tagging())
					}
				}
			}
			t1 := rt.GoNamed("asker1", ask)
			t2 := rt.GoNamed("asker2", ask)
			t1.Join()
			t2.Join()
		}
		sg.Check = func(x *Run, o *rt.Outcome) (string, string, string) { return "", "", "ok" }
		out = append(out, sg)
	}
	return out
}

// userBuckets is a Buckets implementation that is neither ValueBuckets nor DurationBuckets.
type userBuckets []float64

func (u userBuckets) String() string      { return fmt.Sprintf("user%v", []float64(u)) }
func (u userBuckets) Len() int            { return len(u) }
func (u userBuckets) Swap(i, j int)       { u[i], u[j] = u[j], u[i] }
func (u userBuckets) Less(i, j int) bool  { return u[i] < u[j] }
func (u userBuckets) AsValues() []float64 { return []float64(u) }
func (u userBuckets) AsDurations() []time.Duration {
	d := make([]time.Duration, len(u))
	for i := range u {
		d[i] = time.Duration(u[i] * float64(time.Second))
	}
	return d
}
