package main

import (
	"fmt"
	"math"
	"sort"
	"strings"
	"sync"
	"time"

	tally "github.com/uber-go/tally/v4"
	rt "github.com/uber-go/tally/v4/verifrt"
)

// Entry is one call received by the recording reporter.
type Entry struct {
	Kind   string // counter gauge timer hvalue hduration flush close mark alloc-*
	Name   string
	Tags   map[string]string
	I      int64  // counter delta / samples
	F      uint64 // gauge bits
	D      time.Duration
	LoF    float64
	HiF    float64
	LoD    time.Duration
	HiD    time.Duration
	Thread int
	Cached bool
	Note   string
}

func tagString(t map[string]string) string {
	if t == nil {
		return "<nil>"
	}
	ks := make([]string, 0, len(t))
	for k := range t {
		ks = append(ks, k)
	}
	sort.Strings(ks)
	var b strings.Builder
	b.WriteString("{")
	for i, k := range ks {
		if i > 0 {
			b.WriteString(",")
		}
		fmt.Fprintf(&b, "%q:%q", k, t[k])
	}
	b.WriteString("}")
	return b.String()
}

// ID is the (name, tags) identity of an entry.
func (e *Entry) ID() string { return e.Name + tagString(e.Tags) }

func (e *Entry) String() string {
	c := ""
	if e.Cached {
		c = "cached-"
	}
	switch e.Kind {
	case "counter":
		return fmt.Sprintf("t%d %scounter %s %d", e.Thread, c, e.ID(), e.I)
	case "gauge":
		return fmt.Sprintf("t%d %sgauge %s %v (bits %#x)", e.Thread, c, e.ID(), math.Float64frombits(e.F), e.F)
	case "timer":
		return fmt.Sprintf("t%d %stimer %s %d", e.Thread, c, e.ID(), int64(e.D))
	case "hvalue":
		return fmt.Sprintf("t%d %shvalue %s (%v,%v] %d", e.Thread, c, e.ID(), e.LoF, e.HiF, e.I)
	case "hduration":
		return fmt.Sprintf("t%d %shduration %s (%d,%d] %d", e.Thread, c, e.ID(), int64(e.LoD), int64(e.HiD), e.I)
	case "mark":
		return fmt.Sprintf("t%d MARK %s", e.Thread, e.Note)
	default:
		return fmt.Sprintf("t%d %s%s %s %s", e.Thread, c, e.Kind, e.ID(), e.Note)
	}
}

// Recorder is the harness' reporter: plain and cached flavour, optional closer.
type Recorder struct {
	obj      rt.Obj
	mu       sync.Mutex // Free mode only
	NoCaps   bool
	Log      []Entry
	CloseErr error
	NoPoints bool // sequential checks: do not create scheduling points
	// environment deviations and re-entrant reporters (all nil / zero by default):
	PanicNextDelivery bool                                            // the next counter/gauge/timer/histogram delivery is recorded and then panics (once)
	PanicOnAlloc      string                                          // Allocate* of this metric name panics (every time), before anything is recorded
	OnFlush           func()                                          // called by Flush after it has been recorded (a reporter that reports on itself)
	OnAlloc           func(kind, name string, tags map[string]string) // called by Allocate* after it has been recorded
}

// ReporterPanic is what a deliberately failing recorder panics with.
type ReporterPanic struct{ What string }

func copyTags(t map[string]string) map[string]string {
	if t == nil {
		return nil
	}
	c := make(map[string]string, len(t))
	for k, v := range t {
		c[k] = v
	}
	return c
}

func (r *Recorder) add(e Entry) {
	if rt.IsControlled() {
		if rt.Dead() {
			return
		}
		if !r.NoPoints {
			r.obj.Fresh()
			rt.Label("%s %s", e.Kind, e.Name)
			rt.Point(rt.OpRec, &r.obj, nil)
		}
		e.Thread = rt.CurID()
		r.Log = append(r.Log, e)
		r.after(&e)
		return
	}
	r.mu.Lock()
	r.Log = append(r.Log, e)
	r.mu.Unlock()
	r.after(&e)
}

func (r *Recorder) after(e *Entry) {
	switch e.Kind {
	case "counter", "gauge", "timer", "hvalue", "hduration":
		if r.PanicNextDelivery {
			r.PanicNextDelivery = false
			panic(ReporterPanic{"delivery " + e.String()})
		}
	case "flush":
		if r.OnFlush != nil {
			r.OnFlush()
		}
	case "alloc-counter", "alloc-gauge", "alloc-timer", "alloc-histogram":
		if r.OnAlloc != nil {
			r.OnAlloc(e.Kind[len("alloc-"):], e.Name, e.Tags)
		}
	}
}

func (r *Recorder) allocGuard(name string) {
	if r.PanicOnAlloc != "" && name == r.PanicOnAlloc {
		panic(ReporterPanic{"allocation of " + name})
	}
}

// Mark appends a marker entry (e.g. "Close returned").
func (r *Recorder) Mark(note string) { r.add(Entry{Kind: "mark", Note: note}) }

// Strings renders the log.
func (r *Recorder) Strings() []string {
	out := make([]string, len(r.Log))
	for i := range r.Log {
		out[i] = r.Log[i].String()
	}
	return out
}

// ---- StatsReporter

// NoCaps: the reporter says it can neither report nor tag (as a multi reporter with such a child does); what it
// is handed is recorded all the same - nothing in the properties makes delivery depend on the advertised capabilities.
func (r *Recorder) Capabilities() tally.Capabilities {
	if r.NoCaps {
		return capsNone{}
	}
	return capsRT{}
}

type capsNone struct{}

func (capsNone) Reporting() bool { return false }
func (capsNone) Tagging() bool   { return false }

type capsRT struct{}

func (capsRT) Reporting() bool { return true }
func (capsRT) Tagging() bool   { return true }

func (r *Recorder) Flush() { r.add(Entry{Kind: "flush"}) }

func (r *Recorder) ReportCounter(name string, tags map[string]string, value int64) {
	r.add(Entry{Kind: "counter", Name: name, Tags: copyTags(tags), I: value})
}

func (r *Recorder) ReportGauge(name string, tags map[string]string, value float64) {
	r.add(Entry{Kind: "gauge", Name: name, Tags: copyTags(tags), F: math.Float64bits(value)})
}

func (r *Recorder) ReportTimer(name string, tags map[string]string, interval time.Duration) {
	r.add(Entry{Kind: "timer", Name: name, Tags: copyTags(tags), D: interval})
}

func (r *Recorder) ReportHistogramValueSamples(name string, tags map[string]string, buckets tally.Buckets, lo, hi float64, samples int64) {
	r.add(Entry{Kind: "hvalue", Name: name, Tags: copyTags(tags), LoF: lo, HiF: hi, I: samples})
}

func (r *Recorder) ReportHistogramDurationSamples(name string, tags map[string]string, buckets tally.Buckets, lo, hi time.Duration, samples int64) {
	r.add(Entry{Kind: "hduration", Name: name, Tags: copyTags(tags), LoD: lo, HiD: hi, I: samples})
}

// ---- CachedStatsReporter

type cachedHandle struct {
	r    *Recorder
	name string
	tags map[string]string
}

func (h cachedHandle) ReportCount(v int64) {
	h.r.add(Entry{Kind: "counter", Name: h.name, Tags: h.tags, I: v, Cached: true})
}
func (h cachedHandle) ReportGauge(v float64) {
	h.r.add(Entry{Kind: "gauge", Name: h.name, Tags: h.tags, F: math.Float64bits(v), Cached: true})
}
func (h cachedHandle) ReportTimer(d time.Duration) {
	h.r.add(Entry{Kind: "timer", Name: h.name, Tags: h.tags, D: d, Cached: true})
}

type cachedHist struct {
	cachedHandle
}

type cachedBucket struct {
	cachedHandle
	dur      bool
	loF, hiF float64
	loD, hiD time.Duration
}

func (b cachedBucket) ReportSamples(v int64) {
	if b.dur {
		b.r.add(Entry{Kind: "hduration", Name: b.name, Tags: b.tags, LoD: b.loD, HiD: b.hiD, I: v, Cached: true})
	} else {
		b.r.add(Entry{Kind: "hvalue", Name: b.name, Tags: b.tags, LoF: b.loF, HiF: b.hiF, I: v, Cached: true})
	}
}

func (h cachedHist) ValueBucket(lo, hi float64) tally.CachedHistogramBucket {
	h.r.add(Entry{Kind: "alloc-vbucket", Name: h.name, Tags: h.tags, LoF: lo, HiF: hi})
	return cachedBucket{cachedHandle: h.cachedHandle, loF: lo, hiF: hi}
}

func (h cachedHist) DurationBucket(lo, hi time.Duration) tally.CachedHistogramBucket {
	h.r.add(Entry{Kind: "alloc-dbucket", Name: h.name, Tags: h.tags, LoD: lo, HiD: hi})
	return cachedBucket{cachedHandle: h.cachedHandle, dur: true, loD: lo, hiD: hi}
}

func (r *Recorder) AllocateCounter(name string, tags map[string]string) tally.CachedCount {
	r.allocGuard(name)
	t := copyTags(tags)
	r.add(Entry{Kind: "alloc-counter", Name: name, Tags: t})
	return cachedHandle{r, name, t}
}

func (r *Recorder) AllocateGauge(name string, tags map[string]string) tally.CachedGauge {
	r.allocGuard(name)
	t := copyTags(tags)
	r.add(Entry{Kind: "alloc-gauge", Name: name, Tags: t})
	return cachedHandle{r, name, t}
}

func (r *Recorder) AllocateTimer(name string, tags map[string]string) tally.CachedTimer {
	r.allocGuard(name)
	t := copyTags(tags)
	r.add(Entry{Kind: "alloc-timer", Name: name, Tags: t})
	return cachedHandle{r, name, t}
}

func (r *Recorder) AllocateHistogram(name string, tags map[string]string, buckets tally.Buckets) tally.CachedHistogram {
	r.allocGuard(name)
	t := copyTags(tags)
	r.add(Entry{Kind: "alloc-histogram", Name: name, Tags: t, Note: fmt.Sprint(buckets)})
	return cachedHist{cachedHandle{r, name, t}}
}

// ClosableRecorder additionally implements io.Closer.
type ClosableRecorder struct {
	*Recorder
}

func (c ClosableRecorder) Close() error {
	c.add(Entry{Kind: "close"})
	return c.CloseErr
}

// plainOnly / cachedOnly restrict the method set so that a root scope sees
// exactly one flavour.
type plainRec struct{ tally.StatsReporter }
type cachedRec struct{ tally.CachedStatsReporter }

// scopeOpts builds ScopeOptions for the chosen flavour.
func scopeOpts(r *Recorder, cached, closable bool) tally.ScopeOptions {
	o := tally.ScopeOptions{OmitCardinalityMetrics: true}
	if cached {
		if closable {
			o.CachedReporter = struct {
				tally.CachedStatsReporter
				closer
			}{r, closer{r}}
		} else {
			o.CachedReporter = cachedRec{r}
		}
	} else {
		if closable {
			o.Reporter = struct {
				tally.StatsReporter
				closer
			}{r, closer{r}}
		} else {
			o.Reporter = plainRec{r}
		}
	}
	return o
}

type closer struct{ r *Recorder }

func (c closer) Close() error {
	c.r.add(Entry{Kind: "close"})
	return c.r.CloseErr
}

// sumCounters sums counter deliveries per identity over log[from:to].
func sumCounters(log []Entry, from, to int) map[string]int64 {
	m := map[string]int64{}
	for i := from; i < to && i < len(log); i++ {
		if log[i].Kind == "counter" {
			m[log[i].ID()] += log[i].I
		}
	}
	return m
}
