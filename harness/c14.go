package main

import (
	"fmt"
	"math"
	"strings"
	"sync"
	"time"

	tally "github.com/uber-go/tally/v4"
	"github.com/uber-go/tally/v4/m3"
	"github.com/uber-go/tally/v4/m3/thriftudp"
	rt "github.com/uber-go/tally/v4/verifrt"
)

// c13Scenarios: producers, a flusher and Close under the controlled scheduler; exact delivery.
func c13Scenarios(tier string) []*Scenario {
	var out []*Scenario
	for _, kind := range []string{"compact", "binary"} {
		kind := kind
		if kind == "binary" && tier != "thorough" {
			continue
		}
		sc := &Scenario{Property: "C13", Name: "M1-producers-flush-close-" + kind, Ticks: tierInt(tier, 0, 1), Shards: 8, FreeBound: tierInt(tier, 2, 3), BoundSet: true, Bound: tierInt(tier, 1, 2)}
		sc.Body = func(x *Run) {
			s := newFastSink()
			x.Vals["sink"] = s
			x.Cleanup = append(x.Cleanup, s.close)
			x.Vals["tmin"] = rt.NowNanos()
			r, err := m3.NewReporter(m3.Options{HostPorts: []string{s.addr}, Service: "svc", Env: "test", CommonTags: c13CommonTags(0), Protocol: m3Proto(kind), MaxQueueSize: 1})
			if err != nil {
				x.failf("new-reporter", "%v", err)
				return
			}
			// reported immediately after construction: the reporter's own goroutines have not run yet
			c := r.AllocateCounter("n", map[string]string{"a": "b"})
			c.ReportCount(1)
			g := r.AllocateGauge("m", nil)
			h := r.AllocateHistogram("h", map[string]string{"a": "b"}, tally.ValueBuckets{2, 1})
			p1 := rt.GoNamed("prod1", func() {
				c.ReportCount(2)
				h.ValueBucket(0, 2).ReportSamples(5)
			})
			p2 := rt.GoNamed("prod2", func() {
				g.ReportGauge(1.5)
				r.Flush()
			})
			p1.Join()
			p2.Join()
			x.Vals["tmax"] = rt.NowNanos()
			if err := r.Close(); err != nil {
				x.failf("close-error", "%v", err)
			}
			pre, bcl, bdet := closeBarrier(kind, []*fastSink{s}, 4)
			x.Vals["pre"] = pre[0]
			if bcl != "" {
				x.failf(bcl, "%s", bdet)
			}
			x.Vals["closed"] = true
		}
		sc.Check = func(x *Run, o *rt.Outcome) (string, string, string) {
			s := x.Vals["sink"].(*fastSink)
			dgs := s.drainUntil(func(d [][]byte) bool {
				n := 0
				for _, dg := range d {
					if msg, err := decodeMessage(kind, dg); err == nil {
						for _, m := range msg.Batch.Metrics {
							if !strings.HasPrefix(m.Name, "tally.internal") {
								n++
							}
						}
					}
				}
				return n >= 4
			}, x.Vals["pre"].([][]byte)...)
			got, cl, det := m3Collect(kind, dgs, x.Vals["tmin"].(int64), x.Vals["tmax"].(int64))
			if cl != "" {
				return cl, det, "viol"
			}
			want := []string{
				wantKey("n", 1, 1, 0, 0, map[string]string{"a": "b"}),
				wantKey("n", 1, 2, 0, 0, map[string]string{"a": "b"}),
				wantKey("m", 2, 0, 1.5, 0, nil),
				wantKey("h", 1, 5, 0, 0, map[string]string{"a": "b"}, `"bucketid"="0001"`, `"bucket"="1.000000-2.000000"`),
			}
			if cl, det := compareMultisets(got, want); cl != "" {
				return cl, det, "viol"
			}
			return "", "", fmt.Sprint(len(dgs), " datagrams")
		}
		out = append(out, sc)
		// M0: everything is reported by one goroutine into a roomy queue, then Close. The batching and the
		// clock goroutine (one tick) only get to run at Close: a timestamp must still be the time of the call.
		sc0 := &Scenario{Property: "C13", Name: "M0-queued-then-close-" + kind, Ticks: 1, BoundSet: true, Bound: 1}
		sc0.Body = func(x *Run) {
			s := newFastSink()
			x.Vals["sink"] = s
			x.Cleanup = append(x.Cleanup, s.close)
			x.Vals["tmin"] = rt.NowNanos()
			r, err := m3.NewReporter(m3.Options{HostPorts: []string{s.addr}, Service: "svc", Env: "test", CommonTags: c13CommonTags(0), Protocol: m3Proto(kind), MaxQueueSize: 8})
			if err != nil {
				x.failf("new-reporter", "%v", err)
				return
			}
			r.AllocateCounter("n", map[string]string{"a": "b"}).ReportCount(1)
			r.AllocateGauge("m", nil).ReportGauge(1.5)
			x.Vals["tmax"] = rt.NowNanos()
			// the application does something else for a while: the reporter's goroutines get to run
			rt.GoNamed("idle", func() {}).Join()
			if err := r.Close(); err != nil {
				x.failf("close-error", "%v", err)
			}
			pre, bcl, bdet := closeBarrier(kind, []*fastSink{s}, 2)
			x.Vals["pre"] = pre[0]
			if bcl != "" {
				x.failf(bcl, "%s", bdet)
			}
		}
		sc0.Check = func(x *Run, o *rt.Outcome) (string, string, string) {
			s := x.Vals["sink"].(*fastSink)
			dgs := s.readAvailable(append([][]byte{}, x.Vals["pre"].([][]byte)...))
			got, cl, det := m3Collect(kind, dgs, x.Vals["tmin"].(int64), x.Vals["tmax"].(int64))
			if cl != "" {
				return cl, det, "viol"
			}
			want := []string{wantKey("n", 1, 1, 0, 0, map[string]string{"a": "b"}), wantKey("m", 2, 0, 1.5, 0, nil)}
			if cl, det := compareMultisets(got, want); cl != "" {
				return cl, det, "viol"
			}
			return "", "", fmt.Sprint(len(dgs), " datagrams")
		}
		out = append(out, sc0)
		// M4: two goroutines allocate at the same time: the same new name (one interner entry) with two tag sets that
		// share one key in the reporter's tag cache ({"a":"b=c"} and {"a=b":"c"} hash alike). Each value must come
		// out with the tags it was allocated with, and nobody may be left waiting for a lock.
		sc4 := &Scenario{Property: "C13", Name: "M4-concurrent-allocation-colliding-tag-sets-" + kind, BoundSet: true, Bound: tierInt(tier, 1, 2), FreeBound: tierInt(tier, 2, 3), Shards: 4}
		sc4.Body = func(x *Run) {
			s := newFastSink()
			x.Vals["sink"] = s
			x.Cleanup = append(x.Cleanup, s.close)
			x.Vals["tmin"] = rt.NowNanos()
			r, err := m3.NewReporter(m3.Options{HostPorts: []string{s.addr}, Service: "svc", Env: "test", CommonTags: c13CommonTags(0), Protocol: m3Proto(kind), MaxQueueSize: 8})
			if err != nil {
				x.failf("new-reporter", "%v", err)
				return
			}
			t1 := rt.GoNamed("alloc1", func() { r.AllocateCounter("n", map[string]string{"a": "b=c"}).ReportCount(1) })
			t2 := rt.GoNamed("alloc2", func() { r.AllocateCounter("n", map[string]string{"a=b": "c"}).ReportCount(2) })
			t1.Join()
			t2.Join()
			// a further allocation with a tag set of its own (whatever the two left behind in the caches - a lock, a
			// half-made entry - is in its way)
			r.AllocateCounter("n", map[string]string{"later": "tag set"}).ReportCount(3)
			x.Vals["tmax"] = rt.NowNanos()
			if err := r.Close(); err != nil {
				x.failf("close-error", "%v", err)
			}
			pre, bcl, bdet := closeBarrier(kind, []*fastSink{s}, 3)
			x.Vals["pre"] = pre[0]
			if bcl != "" {
				x.failf(bcl, "%s", bdet)
			}
		}
		sc4.Check = func(x *Run, o *rt.Outcome) (string, string, string) {
			s := x.Vals["sink"].(*fastSink)
			dgs := s.readAvailable(append([][]byte{}, x.Vals["pre"].([][]byte)...))
			got, cl, det := m3Collect(kind, dgs, x.Vals["tmin"].(int64), x.Vals["tmax"].(int64))
			if cl != "" {
				return cl, det, "viol"
			}
			want := []string{wantKey("n", 1, 1, 0, 0, map[string]string{"a": "b=c"}), wantKey("n", 1, 2, 0, 0, map[string]string{"a=b": "c"}),
				wantKey("n", 1, 3, 0, 0, map[string]string{"later": "tag set"})}
			if cl, det := compareMultisets(got, want); cl != "" {
				return cl, det, "viol"
			}
			return "", "", fmt.Sprint(len(dgs), " datagrams")
		}
		out = append(out, sc4)
		// M7: two goroutines allocate with the SAME new tag set at the same time (one of them loses the insert into the
		// tag cache and has a converted slice to spare); then the reporter's tag slice pool is run down to what was
		// given back last - the state every long-lived reporter reaches after some thousand tag sets - and a metric
		// with other, longer tags is allocated. Values reported through the first two handles afterwards still carry
		// the tags they were allocated with.
		sc7 := &Scenario{Property: "C13", Name: "M7-concurrent-allocation-of-one-new-tag-set-then-pool-run-down-" + kind, BoundSet: true, Bound: tierInt(tier, 1, 2), FreeBound: tierInt(tier, 2, 3), Shards: 2}
		sc7.Body = func(x *Run) {
			s := newFastSink()
			x.Vals["sink"] = s
			x.Cleanup = append(x.Cleanup, s.close)
			x.Vals["tmin"] = rt.NowNanos()
			r, err := m3.NewReporter(m3.Options{HostPorts: []string{s.addr}, Service: "svc", Env: "test", CommonTags: c13CommonTags(0), Protocol: m3Proto(kind), MaxQueueSize: 8})
			if err != nil {
				x.failf("new-reporter", "%v", err)
				return
			}
			same := map[string]string{"a": "b"}
			var h [2]tally.CachedCount
			t1 := rt.GoNamed("alloc1", func() { h[0] = r.AllocateCounter("n", cloneTags(same)) })
			t2 := rt.GoNamed("alloc2", func() { h[1] = r.AllocateCounter("n", cloneTags(same)) })
			t1.Join()
			t2.Join()
			x.Vals["left"] = m3.VerifDrainTagSlicePool(r, 1)
			other := map[string]string{"x": "long-value-1", "y": "long-value-2", "z": "long-value-3"}
			r.AllocateCounter("m", cloneTags(other)).ReportCount(3)
			h[0].ReportCount(1)
			h[1].ReportCount(2)
			x.Vals["tmax"] = rt.NowNanos()
			if err := r.Close(); err != nil {
				x.failf("close-error", "%v", err)
			}
			pre, bcl, bdet := closeBarrier(kind, []*fastSink{s}, 3)
			x.Vals["pre"] = pre[0]
			if bcl != "" {
				x.failf(bcl, "%s", bdet)
			}
		}
		sc7.Check = func(x *Run, o *rt.Outcome) (string, string, string) {
			s := x.Vals["sink"].(*fastSink)
			dgs := s.readAvailable(append([][]byte{}, x.Vals["pre"].([][]byte)...))
			got, cl, det := m3Collect(kind, dgs, x.Vals["tmin"].(int64), x.Vals["tmax"].(int64))
			if cl != "" {
				return cl, det, "viol"
			}
			want := []string{wantKey("n", 1, 1, 0, 0, map[string]string{"a": "b"}), wantKey("n", 1, 2, 0, 0, map[string]string{"a": "b"}),
				wantKey("m", 1, 3, 0, 0, map[string]string{"x": "long-value-1", "y": "long-value-2", "z": "long-value-3"})}
			if cl, det := compareMultisets(got, want); cl != "" {
				return cl, det, "viol"
			}
			return "", "", fmt.Sprint(len(dgs), " datagrams, pool left at ", x.Vals["left"])
		}
		out = append(out, sc7)
	}
	return out
}

// c14Scenarios: any interleaving of Report, Flush and Close: no panic, no hang, no leak.
func c14Scenarios(tier string) []*Scenario {
	var out []*Scenario
	type variant struct {
		kind      string
		sockFault string // "", "before", "mid"
		hist      bool
		ndest     int // 0: one destination; 2: two (another transport type, wrapped by the protocols in another way)
	}
	vs := []variant{{"compact", "", false, 0}, {"binary", "before", false, 0}, {"compact", "mid", true, 0}, {"binary", "", false, 2}}
	if tier == "thorough" {
		vs = append(vs, variant{"binary", "", true, 0}, variant{"compact", "before", true, 0}, variant{"binary", "mid", false, 0}, variant{"compact", "", true, 2})
	}
	for _, v := range vs {
		v := v
		name := fmt.Sprintf("M2-report-flush-close-%s-sockfault=%q-hist=%v", v.kind, v.sockFault, v.hist)
		if v.ndest > 1 {
			name += fmt.Sprintf("-%d-destinations", v.ndest)
		}
		sc := &Scenario{Property: "C14", Name: name, Ticks: tierInt(tier, 0, 1), Shards: 5, FreeBound: tierInt(tier, 2, 3), BoundSet: true, Bound: tierInt(tier, 1, 2)}
		sc.Body = func(x *Run) {
			s := newFastSink()
			x.Vals["sink"] = s
			x.Cleanup = append(x.Cleanup, s.close)
			addrs := []string{s.addr}
			for i := 1; i < v.ndest; i++ {
				s2 := newFastSink()
				x.Cleanup = append(x.Cleanup, s2.close)
				addrs = append(addrs, s2.addr)
			}
			r, err := m3.NewReporter(m3.Options{HostPorts: addrs, Service: "svc", Env: "test", Protocol: m3Proto(v.kind), MaxQueueSize: 1})
			if err != nil {
				x.failf("new-reporter", "%v", err)
				return
			}
			c := r.AllocateCounter("n", nil)
			t := r.AllocateTimer("t", map[string]string{"a": "b"})
			var hb tally.CachedHistogramBucket
			if v.hist {
				hb = r.AllocateHistogram("h", cloneTags(c13TagSets[9]), tally.ValueBuckets{1}).ValueBucket(0, 1) // 8 tags + 2 bucket tags
			}
			closeSock := func() { _ = m3.VerifTransport(r).(*thriftudp.TUDPTransport).Conn().Close() }
			if v.sockFault == "before" {
				closeSock()
			}
			var closeErrs [2]error
			p1 := rt.GoNamed("prod", func() {
				c.ReportCount(1)
				if v.hist {
					hb.ReportSamples(2)
				}
				if tier == "thorough" {
					t.ReportTimer(3)
					// calls that may land after Close
					c.ReportCount(4)
				}
			})
			p2 := rt.GoNamed("flusher", func() {
				r.Flush()
				if v.sockFault == "mid" {
					closeSock()
					r.Flush()
				}
			})
			cl := rt.GoNamed("closer", func() {
				closeErrs[0] = r.Close()
				if live := rt.LiveLibraryThreads(); len(live) > 0 {
					x.failf("reporter-goroutine-still-running-when-close-returned", "threads started by the reporter that had not finished when Close returned: %v", live)
				}
			})
			p1.Join()
			p2.Join()
			cl.Join()
			if closeErrs[0] != nil {
				x.failf("first-close-error", "%v", closeErrs[0])
			}
			// after Close: everything is a no-op, a second Close reports an error instead of panicking
			c.ReportCount(8)
			t.ReportTimer(9)
			if v.hist {
				hb.ReportSamples(10)
			}
			r.Flush()
			if err := r.Close(); err == nil {
				x.failf("second-close-no-error", "a second Close returned nil")
			}
			r.AllocateCounter("late", nil).ReportCount(8)
			// ... also with tag sets the reporter has never seen (nothing it released in Close may be needed for them)
			r.AllocateCounter("late", map[string]string{"first": "seen after close"}).ReportCount(8)
			r.AllocateGauge("late", map[string]string{"second": "seen after close"}).ReportGauge(8)
			r.AllocateTimer("late", map[string]string{"third": "seen after close"}).ReportTimer(9)
			r.AllocateHistogram("late", map[string]string{"fourth": "seen after close"}, tally.ValueBuckets{1}).ValueBucket(0, 1).ReportSamples(10)
			x.Vals["done"] = true
		}
		sc.Check = func(x *Run, o *rt.Outcome) (string, string, string) {
			if x.Vals["done"] != true {
				return "scenario-did-not-finish", "", "viol"
			}
			// calls made after Close carry the values 8, 9, 10: none of them may ever be sent
			// (identified by content, not by arrival time)
			s := x.Vals["sink"].(*fastSink)
			for _, dg := range s.readAvailable(nil) {
				msg, err := decodeMessage(v.kind, dg)
				if err != nil {
					continue
				}
				for _, m := range msg.Batch.Metrics {
					if m.Name == "late" || m.Value.Count == 8 || m.Value.Timer == 9 || m.Value.Count == 10 {
						return "activity-after-close", fmt.Sprintf("a value reported after Close had returned was sent: %s", metricKey(m, false)), "viol"
					}
				}
			}
			return "", "", "ok"
		}
		out = append(out, sc)
	}
	// the reporter's object pools (tally.ObjectPool: tag slices are taken out and never given back, so every long-lived
	// reporter runs its tag slice pool dry) started at their last entries: getters only, and getters next to a
	// get-and-put thread. A Get must never block - the pool allocates when it has nothing to hand out - and no object
	// is handed to two holders at once.
	for _, pv := range []struct {
		name          string
		size, getters int
		putter        bool
	}{{"one-left-two-getters", 1, 2, false}, {"two-left-two-getters-and-a-get-put", 2, 2, true}, {"one-left-getter-and-two-get-puts", 1, 1, true}} {
		pv := pv
		sc := &Scenario{Property: "C14", Name: "M6-object-pool-at-its-last-entries-" + pv.name, BoundSet: true, Bound: tierInt(tier, 3, 4)}
		sc.Body = func(x *Run) {
			p := tally.NewObjectPool(pv.size)
			made := 0
			var hmu sync.Mutex // the harness' own bookkeeping (the free-running race pass runs this body too)
			p.Init(func() interface{} { hmu.Lock(); defer hmu.Unlock(); made++; return &[1]int{made} })
			holder := map[interface{}]int{}
			take := func(who int) interface{} {
				v := p.Get()
				if v == nil {
					x.failf("pool-returned-nil", "Get returned nil to thread %d", who)
					return nil
				}
				hmu.Lock()
				defer hmu.Unlock()
				if h, ok := holder[v]; ok {
					x.failf("pooled-object-handed-out-twice", "object %v is held by thread %d and was handed to thread %d", v, h, who)
				}
				holder[v] = who
				return v
			}
			var ths []*rt.Thread
			for i := 0; i < pv.getters; i++ {
				i := i
				ths = append(ths, rt.GoNamed(fmt.Sprintf("getter%d", i), func() { take(i) }))
			}
			if pv.putter {
				n := 1
				if pv.getters == 1 {
					n = 2
				}
				for k := 0; k < n; k++ {
					k := k
					ths = append(ths, rt.GoNamed(fmt.Sprintf("getput%d", k), func() {
						if v := take(10 + k); v != nil {
							hmu.Lock()
							delete(holder, v)
							hmu.Unlock()
							p.Put(v)
						}
					}))
				}
			}
			for _, t := range ths {
				t.Join()
			}
			x.Vals["done"] = true
			x.Vals["made"] = made
		}
		sc.Check = func(x *Run, o *rt.Outcome) (string, string, string) {
			if x.Vals["done"] != true {
				return "scenario-did-not-finish", "", "viol"
			}
			return "", "", fmt.Sprintf("ok: %v objects allocated in all", x.Vals["made"])
		}
		out = append(out, sc)
	}
	// concurrent Allocate calls (same new name, colliding tag sets) followed by Close: scenario M4 of C13, judged
	// here for deadlock, panics and goroutines left behind
	for _, sc := range c13Scenarios(tier) {
		if strings.HasPrefix(sc.Name, "M4-") {
			c := *sc
			c.Property = "C14"
			out = append(out, &c)
		}
	}
	return out
}

var _ = math.MaxInt64
var _ = strings.Join

// m5Rounds: reports per goroutine and handle in M5 (the more unordered pairs of accesses, the less a detection depends
// on how busy the machine is).
const m5Rounds = 48

// m5Tight: reports per goroutine in the tight single-kind loops that follow.
const m5Tight = 300

// c14RaceScenarios: bodies for the free-running -race pass only.
func c14RaceScenarios(tier string) []*Scenario {
	sc := &Scenario{Property: "C14", Name: "M3-same-bucket-handle-two-goroutines"}
	sc.Body = func(x *Run) {
		s := newFastSink()
		x.Cleanup = append(x.Cleanup, s.close)
		r, err := m3.NewReporter(m3.Options{HostPorts: []string{s.addr}, Service: "svc", Env: "test", MaxQueueSize: 16})
		if err != nil {
			return
		}
		hb := r.AllocateHistogram("h", nil, tally.ValueBuckets{1}).ValueBucket(0, 1)
		db := r.AllocateHistogram("d", nil, tally.DurationBuckets{1}).DurationBucket(0, 1)
		c := r.AllocateCounter("c", map[string]string{"a": "b"})
		var ths []*rt.Thread
		for i := 0; i < 2; i++ {
			i := i
			ths = append(ths, rt.GoNamed("user", func() {
				for k := 0; k < 20; k++ {
					hb.ReportSamples(int64(i*100 + k))
					db.ReportSamples(int64(i*100 + k))
					c.ReportCount(int64(k))
					_ = r.AllocateCounter("c2", map[string]string{"a": fmt.Sprint(k % 3)})
				}
			}))
		}
		for _, t := range ths {
			t.Join()
		}
		r.Flush()
		_ = r.Close()
	}
	// M5: four goroutines, released together, each report distinct values through the SAME counter, gauge and timer
	// handles; after Close every value must have arrived exactly once
	sc5 := &Scenario{Property: "C14", Name: "M5-shared-handles-gated-start"}
	sc5.Body = func(x *Run) {
		s := newFastSink()
		x.Cleanup = append(x.Cleanup, s.close)
		r, err := m3.NewReporter(m3.Options{HostPorts: []string{s.addr}, Service: "svc", Env: "test", MaxQueueSize: 4096})
		if err != nil {
			return
		}
		c := r.AllocateCounter("c", map[string]string{"a": "b"})
		g := r.AllocateGauge("g", nil)
		tm := r.AllocateTimer("t", nil)
		gate := newGate(4)
		var ths []*rt.Thread
		for i := 0; i < 4; i++ {
			i := i
			ths = append(ths, rt.GoNamed("user", func() {
				gate()
				for k := 0; k < m5Rounds; k++ {
					v := int64(i*1000 + k + 1)
					c.ReportCount(v)
					g.ReportGauge(float64(v))
					tm.ReportTimer(time.Duration(v))
				}
				// then each kind on its own in a tight loop (timers are what applications report from many goroutines;
				// the shorter the rest of the loop, the larger the share of time two calls spend inside the same handle)
				for k := 0; k < m5Tight; k++ {
					tm.ReportTimer(time.Duration(int64(i*1000 + 500 + k)))
				}
				for k := 0; k < m5Tight; k++ {
					c.ReportCount(int64(i*1000 + 500 + k))
				}
				for k := 0; k < m5Tight; k++ {
					g.ReportGauge(float64(i*1000 + 500 + k))
				}
			}))
		}
		for _, t := range ths {
			t.Join()
		}
		if err := r.Close(); err != nil {
			return
		}
		seen := map[string]int{}
		for _, dg := range s.drainUntil(func(d [][]byte) bool { return userMetrics("compact", d) >= 4*(m5Rounds+m5Tight)*3 }) {
			msg, err := decodeMessage("compact", dg)
			if err != nil {
				continue
			}
			for _, m := range msg.Batch.Metrics {
				switch m.Name {
				case "c":
					seen[fmt.Sprint("c", m.Value.Count)]++
				case "g":
					seen[fmt.Sprint("g", int64(m.Value.Gauge))]++
				case "t":
					seen[fmt.Sprint("t", m.Value.Timer)]++
				}
			}
		}
		for i := 0; i < 4; i++ {
			for k := 0; k < m5Rounds+m5Tight; k++ {
				v := i*1000 + k + 1
				if k >= m5Rounds {
					v = i*1000 + 500 + (k - m5Rounds)
				}
				for _, kind := range []string{"c", "g", "t"} {
					if n := seen[fmt.Sprint(kind, v)]; n != 1 {
						x.failf("value-reported-through-shared-handle-not-delivered-exactly-once", "%s value %d reported once by goroutine %d through a handle shared by four goroutines arrived %d times", kind, v, i, n)
						return
					}
				}
			}
		}
	}
	// M8: four goroutines, released together, allocate histograms (new names, value and duration buckets) whose tag
	// map is ONE shared map - one cached tag slice behind all of them, with room to spare in it - and report a
	// sample through every bucket; next to "no data race", every sample arrives once, under its own name, tags and
	// bucket tags
	sc8 := &Scenario{Property: "C14", Name: "M8-concurrent-histogram-allocation-one-tag-set"}
	sc8.Body = func(x *Run) {
		s := newFastSink()
		x.Cleanup = append(x.Cleanup, s.close)
		r, err := m3.NewReporter(m3.Options{HostPorts: []string{s.addr}, Service: "svc", Env: "test", MaxQueueSize: 4096})
		if err != nil {
			return
		}
		tagSets := []map[string]string{nil, {"a": "b"}, {"a": "b", "c": "d", "e": "f"}}
		const rounds = 60
		gate := newGate(4)
		var ths []*rt.Thread
		for i := 0; i < 4; i++ {
			i := i
			ths = append(ths, rt.GoNamed("user", func() {
				gate()
				for k := 0; k < rounds; k++ {
					tg := tagSets[k%len(tagSets)]
					name := fmt.Sprintf("h%d_%d", i, k)
					if k%2 == 0 {
						h := r.AllocateHistogram(name, tg, tally.ValueBuckets{1, 2})
						h.ValueBucket(0, 1).ReportSamples(1)
						h.ValueBucket(1, 2).ReportSamples(2)
					} else {
						h := r.AllocateHistogram(name, tg, tally.DurationBuckets{time.Second})
						h.DurationBucket(0, time.Second).ReportSamples(3)
					}
				}
			}))
		}
		for _, t := range ths {
			t.Join()
		}
		if err := r.Close(); err != nil {
			return
		}
		type arrival struct {
			n      int
			tags   map[string]string
			bucket string
		}
		seen := map[string]*arrival{}
		want := 4 * (rounds/2*2 + rounds/2)
		for _, dg := range s.drainUntil(func(d [][]byte) bool { return userMetrics("compact", d) >= want }) {
			msg, err := decodeMessage("compact", dg)
			if err != nil {
				continue
			}
			for _, m := range msg.Batch.Metrics {
				if !strings.HasPrefix(m.Name, "h") {
					continue
				}
				tg := map[string]string{}
				var bucket string
				for _, t := range m.Tags {
					switch t.Name {
					case "bucket":
						bucket = t.Value
					case "bucketid":
					default:
						tg[t.Name] = t.Value
					}
				}
				key := fmt.Sprint(m.Name, " ", m.Value.Count)
				a := seen[key]
				if a == nil {
					a = &arrival{tags: tg, bucket: bucket}
					seen[key] = a
				}
				a.n++
			}
		}
		for i := 0; i < 4; i++ {
			for k := 0; k < rounds; k++ {
				tg := tagSets[k%len(tagSets)]
				counts := []int64{1, 2}
				if k%2 == 1 {
					counts = []int64{3}
				}
				for _, c := range counts {
					key := fmt.Sprint(fmt.Sprintf("h%d_%d", i, k), " ", c)
					a := seen[key]
					if a == nil || a.n != 1 {
						n := 0
						if a != nil {
							n = a.n
						}
						x.failf("sample-of-a-concurrently-allocated-histogram-not-delivered-exactly-once", "%s (tags %s) reported once by goroutine %d arrived %d times", key, tagString(tg), i, n)
						return
					}
					if !tagsEqual(a.tags, tg) && !(len(a.tags) == 0 && len(tg) == 0) {
						x.failf("concurrently-allocated-histogram-delivered-with-wrong-tags", "%s allocated with tags %s (a tag map shared by all allocations of that round) arrived with %s", key, tagString(tg), tagString(a.tags))
						return
					}
					if a.bucket == "" {
						x.failf("concurrently-allocated-histogram-delivered-with-wrong-tags", "%s arrived without its bucket tag (tags %s)", key, tagString(a.tags))
						return
					}
				}
			}
		}
	}
	return []*Scenario{sc, sc5, sc8}
}
